"""Syntax-directed flow facts: guard dominance, argument-vector demand, simple def-use."""

from __future__ import annotations

import ast

from .model import FuncInfo, parents


# ---------------------------------------------------------------------------
# guard dominance
# ---------------------------------------------------------------------------
def leaves_unconditionally(stmts):
    """True when the block always leaves the enclosing region (return/raise/continue/break)."""
    if not stmts:
        return False
    last = stmts[-1]
    if isinstance(last, (ast.Return, ast.Raise, ast.Continue, ast.Break)):
        return True
    if isinstance(last, ast.If):
        return bool(last.orelse) and leaves_unconditionally(last.body) and leaves_unconditionally(last.orelse)
    return False


def block_of(stmt):
    """(list, index) of the statement list containing stmt."""
    p = getattr(stmt, "_parent", None)
    if p is None:
        return None, None
    for field in ("body", "orelse", "finalbody", "handlers"):
        lst = getattr(p, field, None)
        if isinstance(lst, list) and stmt in lst:
            return lst, lst.index(stmt)
    return None, None


def enclosing_stmt(node):
    n = node
    while n is not None and not isinstance(n, ast.stmt):
        n = getattr(n, "_parent", None)
    return n


def dominating_guards(node, stop_at=None):
    """Yield (if_stmt, branch) pairs that dominate `node` inside its function:

    * ('leave', If): an earlier sibling `if T: <leaves>` in an enclosing block - node runs only when T is false;
    * ('then', If) / ('else', If): node is nested in that arm.
    """
    stmt = enclosing_stmt(node)
    while stmt is not None and not isinstance(stmt, (ast.FunctionDef, ast.AsyncFunctionDef, ast.Lambda, ast.Module)):
        if stmt is stop_at:
            break
        lst, idx = block_of(stmt)
        if lst is not None:
            for prev in lst[:idx]:
                if isinstance(prev, ast.If) and leaves_unconditionally(prev.body) and not prev.orelse:
                    yield ("leave", prev)
                elif isinstance(prev, ast.If) and prev.orelse and leaves_unconditionally(prev.body):
                    yield ("leave", prev)
        p = getattr(stmt, "_parent", None)
        if isinstance(p, ast.If):
            if stmt in p.body:
                yield ("then", p)
            elif stmt in p.orelse:
                yield ("else", p)
        stmt = p if isinstance(p, ast.stmt) or isinstance(p, (ast.FunctionDef, ast.Lambda, ast.Module)) else enclosing_stmt(p) if p is not None else None


def function_body_nodes(fnode, include_nested=False):
    """Nodes of a function body, optionally without descending into nested defs/lambdas."""
    body = fnode.body if isinstance(fnode.body, list) else [fnode.body]
    todo = list(body)
    while todo:
        n = todo.pop()
        yield n
        for c in ast.iter_child_nodes(n):
            if not include_nested and isinstance(c, (ast.FunctionDef, ast.AsyncFunctionDef, ast.Lambda, ast.ClassDef)):
                continue
            todo.append(c)


# ---------------------------------------------------------------------------
# argument vector demand
# ---------------------------------------------------------------------------
class Demand:
    def __init__(self):
        self.n = 0  # 1 + max constant subscript
        self.roles = {}  # position -> set(local names bound from args[pos])
        self.nonconst = []  # (node, kind) non-constant subscripts
        self.escapes = []  # nodes where the vector flows somewhere unmodelled
        self.chain = {}  # position -> description of the deepest reader

    def join(self, other, via):
        if other.n > self.n:
            self.n = other.n
        for k, v in other.roles.items():
            self.roles.setdefault(k, set()).update(v)
        for k, v in other.chain.items():
            self.chain.setdefault(k, f"{via} -> {v}")
        self.nonconst.extend(other.nonconst)
        self.escapes.extend(other.escapes)


def arg_demand(proj, finfo: FuncInfo, pos=1, _memo=None, _stack=None):
    """Demand of `finfo` on its parameter number `pos` (the float vector `args`)."""
    _memo = {} if _memo is None else _memo
    _stack = set() if _stack is None else _stack
    key = (id(finfo), pos)
    if key in _memo:
        return _memo[key]
    d = Demand()
    _memo[key] = d
    if key in _stack:
        return d
    _stack.add(key)
    a = finfo.node.args
    params = [x.arg for x in a.posonlyargs + a.args]
    if pos >= len(params):
        _stack.discard(key)
        return d
    p = params[pos]
    aliases = {p}
    for n in function_body_nodes(finfo.node, include_nested=True):
        if isinstance(n, ast.Name) and n.id in aliases and isinstance(n.ctx, ast.Load):
            par = getattr(n, "_parent", None)
            if isinstance(par, ast.Subscript) and par.value is n:
                sl = par.slice
                if isinstance(sl, ast.Constant) and isinstance(sl.value, int) and sl.value >= 0:
                    k = sl.value
                    d.n = max(d.n, k + 1)
                    d.chain.setdefault(k, f"{finfo.fq} reads {p}[{k}]")
                    role = _role_of(par)
                    if role:
                        d.roles.setdefault(k, set()).add(role)
                elif isinstance(sl, ast.Slice):
                    d.nonconst.append((par, "slice"))
                else:
                    d.nonconst.append((par, "computed"))
            elif isinstance(par, ast.Call) and n in par.args:
                j = par.args.index(n)
                r = proj.resolve_expr(finfo.module, par.func, finfo)
                if r is not None and r[0] == "func":
                    callee = r[1]
                    # bound-method calls shift the position by one
                    shift = 1 if (callee.cls is not None and not callee.is_static and isinstance(par.func, ast.Attribute)) else 0
                    d.join(arg_demand(proj, callee, j + shift, _memo, _stack), via=finfo.fq)
                elif isinstance(par.func, ast.Name) and par.func.id in ("enumerate", "len"):
                    d.nonconst.append((par, par.func.id))
                else:
                    d.escapes.append(par)
            elif isinstance(par, ast.For) and par.iter is n:
                d.nonconst.append((par, "iteration"))
            else:
                d.escapes.append(par if par is not None else n)
    _stack.discard(key)
    return d


def _role_of(sub):
    """Name of the local a subscript `args[k]` is bound to (through -, int(), float())."""
    n = sub
    par = getattr(n, "_parent", None)
    while isinstance(par, (ast.UnaryOp,)) or (
        isinstance(par, ast.Call) and isinstance(par.func, ast.Name) and par.func.id in ("int", "float") and n in par.args
    ):
        n, par = par, getattr(par, "_parent", None)
    if isinstance(par, ast.Assign) and par.value is n and len(par.targets) == 1 and isinstance(par.targets[0], ast.Name):
        return par.targets[0].id
    return None


# ---------------------------------------------------------------------------
# misc
# ---------------------------------------------------------------------------
def names_loaded(node):
    return {n.id for n in ast.walk(node) if isinstance(n, ast.Name) and isinstance(n.ctx, ast.Load)}


def local_stores(fnode):
    s = set()
    for n in ast.walk(fnode):
        if isinstance(n, ast.Name) and isinstance(n.ctx, (ast.Store, ast.Del)):
            s.add(n.id)
        elif isinstance(n, ast.arg):
            s.add(n.arg)
    return s
