"""yadsa - static analysis of NNPDF/yadism against the given properties.

Nothing in this package imports, calls or executes code from /repo; it parses it.
"""
