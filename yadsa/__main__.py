import argparse
import importlib
import json
import os
import sys
import traceback


def _run_check(prop, tier):
    from . import model, report

    seed = int(os.environ.get("VERIF_SEED", "0") or 0)
    rep = report.Report(prop, tier)
    try:
        mod = importlib.import_module(f"yadsa.rules.{prop.lower()}")
    except ModuleNotFoundError:
        print(f"ANALYSIS-ERROR no rule module for {prop}")
        return 2
    try:
        proj = model.project()
        mod.run(rep, proj, tier)
        rc = report.finish(rep, seed)
        if rc == 0 and tier == "thorough" and not os.environ.get("YADSA_SELFTEST"):
            rc = _thorough_selftest(prop)
        return rc
    except model.AnalysisError as e:
        print(f"ANALYSIS-ERROR {prop}: {e}")
        return 2
    except Exception:  # a traceback must never look like a violation
        traceback.print_exc()
        print(f"ANALYSIS-ERROR {prop}: internal error in the checker (traceback above)")
        return 2


def _thorough_selftest(prop):
    """Thorough tier: the property's mutant / benign-twin corpus (quick check on scratch copies)."""
    from . import report
    from .selftest import runner

    res = runner.run_corpus([prop], jobs=8)
    summ = runner.summarise(res)
    mutants = [r for r in res if r["kind"] == "M" and r["status"] != "skipped"]
    killed = [r for r in mutants if r["status"] == "killed"]
    twins = [r for r in res if r["kind"] == "B" and r["status"] != "skipped"]
    silent = [r for r in twins if r["status"] == "silent"]
    print(f"[{prop}] selftest: {len(killed)}/{len(mutants)} mutants killed, {len(silent)}/{len(twins)} benign twins silent, "
          f"{summ.get('skipped', 0)} skipped (anchor text gone)")
    ev_path = report.EVIDENCE / f"{prop}.json"
    try:
        ev = json.load(open(ev_path))
        ev["coverage"]["selftest"] = dict(mutants=len(mutants), killed=len(killed), benign_twins=len(twins), silent=len(silent),
                                          skipped=summ.get("skipped", 0),
                                          not_killed=[r["id"] for r in mutants if r["status"] != "killed"],
                                          false_alarms=[r["id"] for r in twins if r["status"] != "silent"])
        json.dump(ev, open(ev_path, "w"), indent=1, default=str)
    except (OSError, ValueError, KeyError):
        pass
    if mutants and len(killed) * 3 < len(mutants) * 2:
        print(f"ANALYSIS-ERROR {prop}: fewer than two thirds of the mutant corpus is detected: the checker has lost its teeth")
        return 2
    if len(silent) < len(twins):
        print(f"ANALYSIS-ERROR {prop}: a behaviour-preserving twin raises an alarm: the checker is not sound for refactorings")
        return 2
    return 0


def main(argv=None):
    ap = argparse.ArgumentParser(prog="yadsa")
    sub = ap.add_subparsers(dest="cmd", required=True)
    c = sub.add_parser("check")
    c.add_argument("prop")
    c.add_argument("--tier", default=os.environ.get("VERIF_TIER", "quick"), choices=["quick", "thorough"])
    r = sub.add_parser("replay")
    r.add_argument("path")
    sub.add_parser("doctor")
    a = sub.add_parser("all")
    a.add_argument("--tier", default="quick")
    st = sub.add_parser("selftest")
    st.add_argument("--props", default="")
    st.add_argument("--ids", default="", help="comma separated substrings of corpus entry ids")
    st.add_argument("--jobs", type=int, default=16)
    st.add_argument("-v", action="store_true")
    ns = ap.parse_args(argv)

    if ns.cmd == "check":
        return _run_check(ns.prop.upper(), ns.tier)
    if ns.cmd == "all":
        rc = 0
        man = json.load(open(os.path.join(os.path.dirname(__file__), "..", "MANIFEST.json")))
        for chk in man["checks"]:
            rc = max(rc, _run_check(chk["property_id"], ns.tier))
        return rc
    if ns.cmd == "replay":
        d = json.load(open(ns.path))
        print(json.dumps(d, indent=1))
        prop = d["property"]
        print(f"re-running check {prop} on the current tree ...")
        return _run_check(prop, "quick")
    if ns.cmd == "doctor":
        from . import model

        try:
            proj = model.project()
        except model.AnalysisError as e:
            print(f"ANALYSIS-ERROR doctor: {e}")
            return 2
        print(f"interpreter {sys.version.split()[0]}, repo {model.REPO}, "
              f"{len(proj.modules)} modules, {len(proj.all_functions)} functions, {len(proj.all_classes)} classes")
        from .selftest import features

        return features.main()
    if ns.cmd == "selftest":
        from .selftest import runner

        return runner.main(ns)
    return 2


if __name__ == "__main__":
    sys.exit(main())
