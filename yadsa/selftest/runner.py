"""Mutant / benign-twin self-test of the checkers.

Each corpus entry is a textual edit of one file of a scratch copy of the current
/repo/src/yadism (created with tempfile.mkdtemp() outside /repo and /verif and
removed immediately).  "M" entries must make the named check exit 1 and mention
the expected construct; "B" entries (behaviour-preserving rewrites) must leave
it at exit 0.  Entries whose anchor text no longer exists are skipped and counted.
"""

from __future__ import annotations

import concurrent.futures as cf
import json
import os
import pathlib
import shutil
import subprocess
import sys
import tempfile

from . import corpus

VERIF = pathlib.Path(__file__).resolve().parent.parent.parent
REPO = pathlib.Path(os.environ.get("YADSA_REPO", "/repo"))


def make_scratch(edits):
    """Copy src/yadism (python files; data files symlinked) and apply edits. Returns (dir, skipped_reason)."""
    tmp = pathlib.Path(tempfile.mkdtemp(prefix="yadsa-selftest-"))
    src = REPO / "src" / "yadism"
    dst = tmp / "src" / "yadism"
    for path in src.rglob("*"):
        rel = path.relative_to(src)
        if "__pycache__" in rel.parts:
            continue
        if path.is_dir():
            (dst / rel).mkdir(parents=True, exist_ok=True)
        elif path.suffix == ".py":
            (dst / rel).parent.mkdir(parents=True, exist_ok=True)
            shutil.copyfile(path, dst / rel)
    for edit in edits:
        rel, old, new = edit[:3]
        at_line = edit[3] if len(edit) > 3 else None
        f = dst / rel
        if not f.exists():
            if old is None:  # new file
                f.parent.mkdir(parents=True, exist_ok=True)
                f.write_text(new)
                continue
            return tmp, f"file {rel} missing"
        txt = f.read_text()
        if old is None:
            f.write_text(txt + new)
            continue
        if txt.count(old) != 1:
            if txt.count(old) > 1 and at_line is not None:
                # a patch hunk: take the occurrence closest to the recorded line
                starts, i = [], txt.find(old)
                while i >= 0:
                    starts.append(i)
                    i = txt.find(old, i + 1)
                best = min(starts, key=lambda i: abs(txt.count("\n", 0, i) + 1 - at_line))
                f.write_text(txt[:best] + new + txt[best + len(old):])
                continue
            return tmp, f"anchor text occurs {txt.count(old)} times in {rel}"
        f.write_text(txt.replace(old, new))
    # the mutant must still compile
    for rel in [e[0] for e in edits]:
        try:
            compile((dst / rel).read_text(), str(rel), "exec")
        except SyntaxError as e:
            return tmp, f"edit does not compile: {e}"
    return tmp, None


def run_one(entry, tier="quick"):
    tmp, skip = make_scratch(entry["edits"])
    try:
        if skip:
            return dict(id=entry["id"], status="skipped", detail=skip)
        evdir = tmp / "evidence"
        # many variants run side by side: each check gets a small pool of its own and a per-job bound well inside the outer one
        env = dict(os.environ, YADSA_REPO=str(tmp), YADSA_EVIDENCE_DIR=str(evdir), YADSA_SELFTEST="1", YADSA_POOL=os.environ.get("YADSA_POOL", "3"),
                   YADSA_JOB_TIMEOUT=os.environ.get("YADSA_JOB_TIMEOUT", "1200"))
        try:
            p = subprocess.run([sys.executable, "-m", "yadsa", "check", entry["prop"], "--tier", tier], cwd=str(VERIF), env=env,
                               capture_output=True, text=True, timeout=3600)
        except subprocess.TimeoutExpired:
            return dict(id=entry["id"], status="error", rc=None, detail="the check did not finish within 3600 s on this variant")
        out = p.stdout + p.stderr
        viol_lines = [l for l in out.splitlines() if ("VIOLAT" in l or l.startswith("  C")) and "discharged" not in l]
        if entry["kind"] == "M":
            hit = p.returncode == 1 and (not entry.get("expect") or any(entry["expect"] in l for l in out.splitlines()))
            status = "killed" if hit else ("wrong-site" if p.returncode == 1 else ("error" if p.returncode == 2 else "survived"))
        else:
            status = "silent" if p.returncode == 0 else ("error" if p.returncode == 2 else "false-alarm")
        return dict(id=entry["id"], status=status, rc=p.returncode, detail="\n".join(viol_lines[:4])[:600] if status not in ("killed", "silent") else "")
    finally:
        shutil.rmtree(tmp, ignore_errors=True)


def run_corpus(props=None, jobs=16, tier="quick", verbose=False, ids=None):
    entries = [e for e in corpus.CORPUS if (not props or e["prop"] in props) and (not ids or any(i in e["id"] for i in ids))]
    results = []
    with cf.ThreadPoolExecutor(max_workers=jobs) as ex:
        futs = {ex.submit(run_one, e, tier): e for e in entries}
        for f in cf.as_completed(futs):
            r = f.result()
            r["prop"] = futs[f]["prop"]
            r["kind"] = futs[f]["kind"]
            results.append(r)
            if verbose or r["status"] not in ("killed", "silent"):
                print(f"  [{r['prop']}] {r['kind']} {r['id']}: {r['status']}" + (f"\n      {r['detail']}" if r.get("detail") else ""))
    return results


def summarise(results):
    s = {}
    for r in results:
        s[r["status"]] = s.get(r["status"], 0) + 1
    return s


def main(ns):
    props = [p.strip().upper() for p in ns.props.split(",") if p.strip()] or None
    ids = [i.strip() for i in getattr(ns, "ids", "").split(",") if i.strip()] or None
    res = run_corpus(props, jobs=ns.jobs, verbose=ns.v, ids=ids)
    s = summarise(res)
    print("selftest:", s)
    bad = [r for r in res if r["status"] in ("survived", "false-alarm", "error", "wrong-site")]
    return 1 if bad else 0
