class Base:
    K = 3

    def __init__(self, v):
        self.v = v

    @classmethod
    def make(cls, v):
        return cls(v + cls.K)

    def __add__(self, o):
        return type(self)(self.v + o.v)

    def __eq__(self, o):
        return self.v == o.v

    def __hash__(self):
        return hash(self.v)

    def __len__(self):
        return 2

    def __getitem__(self, i):
        return self.v * i

    def __iter__(self):
        return iter([self.v, self.v])

    def __contains__(self, x):
        return x == self.v

    def __call__(self, z):
        return self.v * z


class Derived(Base):
    K = 4

    def __init__(self, v):
        super().__init__(v)
        self.extra = 1


def p1(u):
    return Derived.make(1).v * u
def p2(u):
    return (Derived(5) + Derived(2)).v * u
def p3(u):
    b = Derived(7)
    return len(b) * u
def p4(u):
    b = Derived(7)
    return b[2] * u
def p5(u):
    b = Derived(7)
    return sum([x for x in b]) * u
def p6(u):
    b = Derived(7)
    return (1 if 7 in b else 0) * u
def p7(u):
    b = Derived(7)
    return b(2) * u
def p8(u):
    return (1 if Derived(5) == Derived(5) else 0) * u
def p9(u):
    return len({Derived(5): 1}) * u
def p10(u):
    return (1 if isinstance(Derived(1), Base) else 0) * u
