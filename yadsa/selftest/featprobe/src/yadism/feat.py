import collections
import dataclasses
import enum
import functools
import itertools
import math
import operator
from typing import NamedTuple

import numpy as np


@dataclasses.dataclass
class DC:
    a: int
    b: float = 2.0

    def total(self):
        return self.a + self.b


class NT(NamedTuple):
    x: float
    y: float


PT = collections.namedtuple("PT", ["x", "y"])


class Color(enum.Enum):
    RED = 1
    BLUE = 2


class Slots:
    __slots__ = ("p", "q")

    def __init__(self, p, q):
        self.p = p
        self.q = q

    @property
    def s(self):
        return self.p + self.q

    @s.setter
    def s(self, v):
        self.p = v - self.q


def t_dataclass(u):
    d = DC(1, u)
    return d.total()


def t_dataclass_replace(u):
    d = dataclasses.replace(DC(1, u), a=3)
    return d.a + d.b


def t_namedtuple(u):
    n = NT(u, 2.0)
    p = PT(x=u, y=3)
    return n.x + n[1] + p.y


def t_enum(u):
    return u * Color.BLUE.value + (1 if Color(1) is Color.RED else 0)


def t_slots_property(u):
    s = Slots(u, 1)
    s.s = 10
    return s.p + s.s


def t_closure_nonlocal(u):
    acc = 0

    def add(v):
        nonlocal acc
        acc += v

    for k in range(3):
        add(u * k)
    return acc


def t_while_forelse(u):
    i = 0
    while i < 3:
        i += 1
    for k in range(2):
        if k == 5:
            break
    else:
        i += 10
    return i * u


def t_walrus_fstring(u):
    if (n := 3) > 2:
        s = f"{n:02d}-{'a'!r}-{1.5:.2f}"
    return len(s) * u + len("{}-{}".format(1, 2))


def t_itertools(u):
    tot = 0
    for a, b in itertools.product([1, 2], [3, 4]):
        tot += a * b
    for c in itertools.chain([1], (2, 3)):
        tot += c
    for a, b in zip(*[(1, 2), (3, 4)]):
        tot += a + b
    tot += sum(x for x, _ in itertools.combinations([1, 2, 3], 2))
    return tot * u


def t_functools(u):
    f = functools.partial(operator.mul, 3)
    r = functools.reduce(operator.add, [1, 2, 3], 0)
    g = operator.itemgetter(1)
    return f(u) + r + g([5, 6])


@functools.lru_cache(maxsize=None)
def _cached(n):
    return n * 2


def t_lru(u):
    return _cached(3) * u


def t_math(u):
    return math.pi * 0 + math.floor(2.5) + math.ceil(2.5) + math.factorial(3) + math.comb(4, 2) + u * math.sqrt(4.0) + math.log(1.0) + math.exp(0.0)


def t_numpy_basic(u):
    a = np.array([1.0, 2.0, 3.0]) * u
    b = np.zeros((2, 3))
    b[0, :] = a
    b[1] = 2 * a
    c = np.sum(b, axis=0)
    d = np.concatenate([a, a])
    e = np.stack([a, a])
    f = np.outer(a, a)
    g = np.dot(a, a)
    h = np.einsum("ij,j->i", b, a)
    i = np.where(np.array([True, False, True]), a, 0 * a)
    j = np.linspace(0.0, 1.0, 3)
    k = np.arange(3)
    l = np.ones(3) + np.full(3, 2.0) + np.empty(3) * 0
    m = np.eye(2)
    return c[0] + d[3] + e[1, 2] + f[1, 1] + g + h[0] + i[1] + j[1] + k[2] + l[0] + m[1, 1] + b.T[2, 1] + a[-1] + a[1:][0] + np.max(a) + np.mean(a) + np.prod(k + 1) + np.cumsum(a)[1] + np.abs(-u) + a.shape[0] + np.sign(-2.0) + np.isfinite(1.0) + np.log10(10.0) + np.diag(m)[0] + np.transpose(b)[0, 1] + len(np.unique([1, 1, 2])) + np.append(a, 1.0)[-1] + np.vstack([a, a])[1, 0] + np.hstack([a, a])[4] + np.minimum(u, 1.0) * 0 + np.clip(2.0, 0, 1) + np.atleast_1d(u)[0] + np.asarray([u])[0] + np.sqrt(4.0) + np.power(2, 3) + np.square(3) + np.exp(0) + np.pi * 0


def t_dict_set_ops(u):
    d = {"a": 1, "b": 2}
    d2 = {**d, "c": 3}
    d3 = d | {"z": 1}
    s = {1, 2} | {3} - {2}
    ks = sorted(d2, key=lambda k: -d2[k])
    inv = {v: k for k, v in d2.items()}
    d.update(b=5)
    d.setdefault("q", []).append(1)
    x = d.pop("a") + d.get("zz", 0) + len(s) + len(inv) + len(d3)
    first, *rest = [1, 2, 3]
    a, (b, c) = 1, (2, 3)
    return (x + len(ks) + len(rest) + a + b + c) * u


def t_string_ops(u):
    s = "F2_charm"
    k, f = s.split("_")
    ok = s.startswith("F2") and s.endswith("charm") and "char" in s and s.upper().lower() == s.lower()
    t = "-".join([k, f]) + s[1:3] + s.replace("F2", "FL") + "%s_%d" % ("a", 3) + str(3) + repr("x") + s.strip().title()
    return (len(t) + (1 if ok else 0) + s.find("c") + s.count("c") + int("12") + ord("a") - ord("a")) * u


def t_try_finally(u):
    r = 0
    try:
        try:
            raise KeyError("k")
        except (KeyError, ValueError) as e:
            r += 1
            raise RuntimeError("again") from e
        finally:
            r += 10
    except RuntimeError:
        r += 100
    else:
        r += 1000
    return r * u


def t_class_features(u):
    class Base:
        K = 3

        def __init__(self, v):
            self.v = v

        @classmethod
        def make(cls, v):
            return cls(v + cls.K)

        @staticmethod
        def twice(v):
            return 2 * v

        def __add__(self, o):
            return type(self)(self.v + o.v)

        def __eq__(self, o):
            return self.v == o.v

        def __hash__(self):
            return hash(self.v)

        def __repr__(self):
            return f"B({self.v})"

        def __len__(self):
            return 2

        def __getitem__(self, i):
            return self.v * i

        def __iter__(self):
            return iter([self.v, self.v])

        def __contains__(self, x):
            return x == self.v

        def __bool__(self):
            return True

        def __call__(self, z):
            return self.v * z

    class Derived(Base):
        K = 4

        def __init__(self, v):
            super().__init__(v)
            self.extra = 1

    a = Derived.make(1)
    b = a + Derived(2)
    lst = [x for x in b]
    return (b.v + Base.twice(2) + len(b) + b[2] + sum(lst) + (1 if 7 in b else 0) + b(2) + (1 if isinstance(b, Base) else 0) + (1 if a == Derived(5) else 0) + len({a: 1})) * u


def t_match(u):
    v = ("NC", 3)
    match v:
        case ("CC", n):
            r = n
        case ("NC", n) if n > 2:
            r = 10 * n
        case _:
            r = 0
    return r * u


def t_star_kwargs(u):
    def f(a, b=2, *args, c=3, **kw):
        return a + b + sum(args) + c + sum(kw.values())

    args = (1, 2, 3, 4)
    kw = {"c": 5, "d": 6}
    return f(*args, **kw) * u


def t_global_state(u):
    return u * len(_TABLE) + _TABLE["k"]


_TABLE = {"k": 1}


def t_sorted_minmax(u):
    xs = [3, 1, 2]
    return (sorted(xs, reverse=True)[0] + min(xs, default=0) + max(xs, key=lambda v: -v) + min(4, 5) + sum(xs, 10) + abs(-3) + round(2.6) + divmod(7, 2)[1] + pow(2, 3) + list(reversed(xs))[0] + list(map(lambda v: v + 1, xs))[0] + list(filter(None, [0, 1]))[0] + (1 if any(v > 2 for v in xs) else 0) + (1 if all(xs) else 0) + list(enumerate(xs, 1))[0][0] + len(range(0, 10, 3)) + int(True) + bool(0) + float("1.5") + int(2.7)) * u


def t_comprehensions(u):
    m = [[i * j for j in range(3)] for i in range(3)]
    flat = [v for row in m for v in row if v % 2 == 0]
    d = {i: [j for j in range(i)] for i in range(3)}
    s = {v % 3 for v in flat}
    g = sum(v for v in flat)
    return (len(flat) + len(d[2]) + len(s) + g) * u


def t_conditional_expr_chain(u):
    x = 3
    a = 1 if 0 < x <= 3 else 2
    b = x or 5
    c = None
    d = c if c is not None else 7
    e = not (x == 3 and x != 4) or x in (1, 2, 3)
    return (a + b + d + (1 if e else 0)) * u


def t_lazy_interleave(u):
    def gen(xs):
        for x in xs:
            if x < 3:
                yield x + 1

    lst = [1]
    lst.extend(gen(lst))  # the generator re-reads the list it feeds: [1, 2, 3]
    lst2 = [1]
    lst2.extend(x + 1 for x in lst2 if x < 3)
    lst3 = [1]
    lst3.extend(filter(lambda v: v < 4, (x + 1 for x in lst3)))
    f = filter(None, [0, 1, 2])
    a = list(f)
    b = list(f)  # a filter object is exhausted after one pass

    def countdown(n):
        while n > 0:
            yield n
            n -= 1
        return

    def chain2():
        yield from countdown(2)
        yield from [10]

    return (sum(lst) + sum(lst2) + sum(lst3) + len(a) * 10 + len(b) + sum(chain2())) * u
