"""Feature probe part 4: idioms a moderniser reaches for."""
import abc
import dataclasses
import enum
import functools
import itertools
import operator
import typing

import numpy as np


class Pt(typing.NamedTuple):
    x: float
    q: float = 2.0

    def norm(self):
        return self.x + self.q


def t_namedtuple_methods(u):
    p = Pt(1.0)
    q = p._replace(x=5.0)
    d = q._asdict()
    a, b = q
    return (p.norm() + q.norm() * 10 + d["x"] * 100 + a * 1000 + len(p) * 10000 + (p == Pt(1.0, 2.0)) * 100000 + p[1] * 1000000 + Pt._fields.index("q") * 10000000) * u


@dataclasses.dataclass(frozen=True)
class Rec:
    a: int
    b: list = dataclasses.field(default_factory=list)
    c: int = dataclasses.field(default=7, compare=False)

    @property
    def total(self):
        return self.a + self.c + len(self.b)


def t_dataclass_frozen(u):
    r = Rec(1)
    s = Rec(1, c=9)
    r.b.append(5)
    n = 0
    try:
        r.a = 3
    except dataclasses.FrozenInstanceError:
        n = 1000
    t = dataclasses.replace(r, a=4)
    return (r.total + 10 * s.total + n + 10000 * (r == s) + 100000 * (t.b is r.b) + 1000000 * len(dataclasses.asdict(t)) + 10000000 * (Rec(2) == Rec(2, [1]))) * u


class Col(enum.Enum):
    RED = 1
    GREEN = 2
    BLUE = 4

    @property
    def double(self):
        return 2 * self.value


def t_enum_features(u):
    total = sum(c.value for c in Col)
    names = "".join(c.name[0] for c in Col)
    return (total + 10 * Col.GREEN.double + 100 * (Col(4) is Col.BLUE) + 1000 * (Col["RED"] is Col.RED) + 10000 * len(Col) + 100000 * (names == "RGB")
            + 1000000 * (Col.RED in {Col.RED: 1}) + 10000000 * (Col.RED == 1)) * u


class Base(abc.ABC):
    scale = 2

    def __init__(self, v):
        self.v = v

    @abc.abstractmethod
    def raw(self):
        ...

    def value(self):
        return self.scale * self.raw()

    def __getattr__(self, name):
        if name.startswith("times_"):
            return self.v * int(name.split("_")[1])
        raise AttributeError(name)


class Left(Base):
    def raw(self):
        return self.v + 1


class Right(Base):
    scale = 3

    def raw(self):
        return self.v + 2


class Both(Left, Right):
    def raw(self):
        return super().raw() * 10


def t_abc_mro_getattr(u):
    b = Both(1)
    n = 0
    try:
        Base(1)
    except TypeError:
        n = 100000
    try:
        b.missing
    except AttributeError:
        n += 1000000
    return (b.value() + 1000 * b.times_7 + 10000 * [c.__name__ for c in Both.__mro__].index("Right") + n + 10000000 * hasattr(b, "times_3") + 100000000 * isinstance(b, (Right, int))) * u


class MyErr(ValueError):
    def __init__(self, msg, code):
        super().__init__(msg)
        self.code = code


def t_exceptions(u):
    order = []

    def f(k):
        try:
            if k == 0:
                raise MyErr("boom", 7)
            if k == 1:
                raise KeyError("k")
            order.append("body")
        except MyErr as e:
            order.append("my%d" % e.code)
            return 1
        except (KeyError, IndexError):
            order.append("key")
            raise RuntimeError("wrapped") from None
        else:
            order.append("else")
        finally:
            order.append("fin")
        return 2

    a = f(0)
    try:
        b = f(1)
    except RuntimeError as e:
        b = 30 + len(str(e))
    c = f(2)
    try:
        raise MyErr("z", 1)
    except ValueError as e:
        d = isinstance(e, MyErr) + 2 * (e.args == ("z",))
    return (a + 10 * b + 1000 * c + 10000 * d + 100000 * len(order) + 1000000 * (order == ["my7", "fin", "key", "fin", "body", "else", "fin"])) * u


def t_functools_itertools(u):
    add3 = functools.partial(operator.add, 3)
    get = operator.itemgetter(1)
    att = operator.attrgetter("q")
    pts = [Pt(3.0, 1.0), Pt(1.0, 5.0), Pt(2.0, 5.0)]
    s = sorted(pts, key=operator.attrgetter("q", "x"), reverse=True)
    groups = [(k, len(list(g))) for k, g in itertools.groupby(sorted(pts, key=att), key=att)]
    acc = list(itertools.accumulate([1, 2, 3, 4], operator.mul))
    pairs = list(itertools.combinations([1, 2, 3], 2))
    z = list(itertools.zip_longest([1, 2, 3], [4], fillvalue=0))
    ch = list(itertools.chain.from_iterable([[1], [2, 3], []]))
    st = list(itertools.starmap(pow, [(2, 3), (3, 2)]))
    isl = list(itertools.islice(itertools.count(5, 2), 3))
    red = functools.reduce(lambda a, b: a * 10 + b, [1, 2, 3], 9)
    return (add3(4) + 10 * get((5, 6)) + 100 * s[0].x + 1000 * groups[1][1] + 10000 * acc[-1] + 1000000 * len(pairs) + 10000000 * z[2][1] + sum(ch) + sum(st) + sum(isl) + red) * u


class Lazy:
    calls = 0

    def __init__(self, v):
        self.v = v

    @functools.cached_property
    def heavy(self):
        Lazy.calls += 1
        return self.v * 2

    def __setattr__(self, name, value):
        object.__setattr__(self, name, value if name != "w" else value * 100)

    __slots__ = ()


class Lazy2:
    calls = 0

    def __init__(self, v):
        self.v = v

    @functools.cached_property
    def heavy(self):
        Lazy2.calls += 1
        return self.v * 2


def t_cached_property_setattr(u):
    Lazy2.calls = 0
    l2 = Lazy2(4)
    a = l2.heavy + l2.heavy
    l2.v = 10
    b = l2.heavy

    class W:
        def __setattr__(self, name, value):
            object.__setattr__(self, name, value if name != "w" else value * 100)

    w = W()
    w.w = 3
    w.z = 3
    return (a + 100 * b + 10000 * Lazy2.calls + 100000 * w.w + 100000000 * w.z) * u


def t_args_forwarding(u):
    def inner(a, b=2, /, c=3, *args, d, e=5, **kw):
        return a + 10 * b + 100 * c + 1000 * len(args) + 10000 * d + 100000 * e + 1000000 * len(kw) + 10000000 * sum(kw.values())

    def outer(*args, **kwargs):
        return inner(*args, **kwargs)

    r1 = outer(1, d=4)
    r2 = outer(1, 2, 3, 4, 5, d=1, z=2)
    opts = {"d": 1, "e": 2}
    r3 = inner(*[7, 8], **opts, c=9)
    n = 0
    try:
        inner(1, b=2, d=1)
    except TypeError:
        n = 1
    try:
        inner(1)
    except TypeError:
        n += 2
    return (r1 + r2 + r3 + n) * u


def t_dict_str_misc(u):
    d = {"a": 1} | {"b": 2}
    d |= {"a": 5}
    s = "F2_total"
    pre = s.removeprefix("F2_") + s.removesuffix("_total")
    parts = s.rpartition("_")
    zs = 0
    try:
        list(zip([1, 2], [1], strict=True))
    except ValueError:
        zs = 1
    big = [y for x in range(4) if (y := x * x) > 2]
    fs = f"{3.14159:.2f}|{42:>5}|{'a':<3}|{1e-3:.1e}|{7:03d}|{0.5:%}"
    rev = list(reversed({"x": 1, "y": 2}))
    e = list(enumerate("ab", start=3))
    srt = sorted(["b", "A", "c"], key=str.lower)
    anyall = any(x > 2 for x in [1, 2, 3]) + 2 * all(x > 2 for x in [1, 2, 3]) + 4 * all([])
    mx = max([(1, "b"), (1, "a")])[1] + min("zebra")
    return (d["a"] + 10 * len(d) + 100 * len(pre) + 1000 * len(parts[0]) + 10000 * zs + 100000 * sum(big) + 1000000 * len(fs) + 10000000 * (rev[0] == "y") + e[1][0]
            + 100000000 * (srt == ["A", "b", "c"]) + 1000000000 * anyall + 10000000000 * (mx == "be")) * u


def t_numpy_more(u):
    a = np.array([[1.0, 2.0, 3.0], [4.0, 5.0, 6.0]])
    b = np.where(a > 2, a, 0.0)
    c = a[a > 4]
    d = np.argmax(a, axis=1)
    e = np.concatenate([a[0], a[1, ::-1]])
    f = np.einsum("ij,j->i", a, np.array([1.0, 0.0, 2.0]))
    g = a.copy()
    g[g < 3] = -1
    h = np.isclose(a, 2.0000000001)
    k = np.stack([a[0], a[1]], axis=1)
    m = np.linspace(0, 1, 5)[1:-1].sum()
    n = np.array([1, 2, 3]) @ np.array([4, 5, 6])
    o = np.outer([1, 2], [3, 4]).sum()
    p = np.zeros((2, 2), dtype=int)
    p[0] += 1
    q = np.array([3.0, 1.0, 2.0])
    q.sort()
    r = np.sort(np.array([3.0, 1.0]))[0] + np.argsort(np.array([3.0, 1.0, 2.0]))[0]
    return (b.sum() + 10 * c.sum() + 1000 * d.sum() + 10000 * e[-1] + 100000 * f[1] + 10000000 * g.sum() + h.sum() + k.shape[0] + m + n + o + p.sum() + q[0] + r) * u



def t_numpy_vectorised(u):
    """Idioms of a vectorising refactoring: fromiter + reshape columns, matmul of a column slice, stack on the last axis, Ellipsis
    indexing, a ufunc over an integer range (scipy.special.binom), where on a parity mask."""
    from scipy.special import binom

    col = np.fromiter((k * k for k in range(1, 4)), dtype=float).reshape(-1, 1)  # [[1], [4], [9]]
    proj = np.array([[1.0, 2.0], [0.0, 1.0], [3.0, 0.0]])
    v = col[:, 0] @ proj  # [28, 6]
    ve = np.stack((np.array([1.0, 2.0]), np.array([3.0, 4.0])), axis=-1)  # [[1, 3], [2, 4]]
    m = np.array([[1.0, 1.0], [0.0, 2.0]]) @ ve  # [[3, 7], [4, 8]]
    js = np.arange(4)
    signed = np.where(js % 2 == 0, 1.0, -1.0) * binom(3, js)  # [1, -3, 3, -1]
    return (v[0] + 10 * v[1] + 100 * m[..., 0].sum() + 1000 * m[..., 1].sum() + 10000 * (signed * np.array([1.0, 2.0, 3.0, 4.0])).sum()
            + 100000 * len(js.tolist())) * u
