"""Python / numpy semantics traps (feature probe, part 3): every function returns (number) * u."""
import numpy as np


def t_late_binding(u):
    fs = []
    for k in range(3):
        fs.append(lambda v: v * k)
    gs = [lambda v, k=k: v * k for k in range(3)]
    hs = [(lambda v: v * j) for j in range(4)]
    return sum(f(u) for f in fs) + sum(g(u) for g in gs) + sum(h(u) for h in hs)


def t_mutable_default(u):
    def acc(x, store=[]):
        store.append(x)
        return len(store)

    a = acc(u)
    b = acc(u)
    c = acc(u, [])
    d = acc(u)
    return (a + 10 * b + 100 * c + 1000 * d) * u


class _Shared:
    items = []
    count = 0

    def add(self, x):
        self.items.append(x)
        self.count += 1
        return len(self.items) + 10 * self.count


def t_class_level_mutable(u):
    p, q = _Shared(), _Shared()
    a = p.add(1)
    b = q.add(2)
    c = p.add(3)
    n = len(_Shared.items) + 100 * _Shared.count
    del _Shared.items[:]
    return (a + 100 * b + 10000 * c + 1000000 * n) * u


def t_truthiness(u):
    total = 0
    for v in (0, 0.0, "", [], {}, None, (), set(), 1, "a", [0], (0,), {0: 0}, np.float64(0.0), np.zeros(1), np.ones(1), 0j, -1, "0", range(0), range(2)):
        total = total * 2 + (1 if v else 0)
    return total * u


def t_or_default(u):
    def f(x=None, scale=None):
        scale = scale or 2
        x = x if x is not None else 7
        return x * scale

    def g(opts, key):
        return opts.get(key) or 5

    return (f(1, 0) + f(0, 3) + f(None, 1) + f() + g({"a": 0}, "a") + g({"a": 3}, "a") + g({}, "a") + (0 and 9) + (2 and 9) + ([] or 4)) * u


def t_int_arith(u):
    a = 7 // 2 + (-7) // 2 + 7 % 3 + (-7) % 3 + int(3.9) + int(-3.9) + round(2.5) + round(3.5) + round(-0.5) + 7 / 2
    b = 2 ** -1 + (-2) ** 2 + -2 ** 2 + 2 ** 3 ** 2 % 5
    c = divmod(-7, 2)[0] + divmod(-7, 2)[1] + 7.5 // 2 + 7.5 % 2 + (-7.5) // 2
    d = int("12") + int(True) + True + True + float("1.5") + abs(-3) + 10 // 3 * 3 + 10 % 3 + 1_000 // 7
    return (a + b + c + d) * u


def t_precedence(u):
    vals = [
        1 < 2 < 3, 3 > 2 > 2, not 1 in [1], 1 == 1.0 == True, 1 & 2 == 2, (1 & 2) == 2, 1 | 2 == 2, -1 ** 2 == -1,
        1 if 0 else 2 + 1, (1 if 0 else 2) + 1, 1 == 1 or 2, 0 == 1 or 2, not 0 == 1, 1 < 2 == True, 2 in [1, 2] == True,
        (1 + 1) != None, "a" "b" == "ab", 1 if [] else 0, 5 - 2 - 1, 2 ** 2 ** 0, 8 / 2 / 2, -7 // 2 * 2, ~1 + 1, 3 ^ 1 | 4, 1 << 2 + 1,
    ]
    total = 0
    for i, v in enumerate(vals):
        total += (i + 1) * (v if not isinstance(v, bool) else int(v))
    return total * u


def t_dict_keys_order(u):
    d = {1: 10}
    d[1.0] = 20
    d[True] = 30
    n = len(d)
    k = list(d)[0]
    e = {"b": 1, "a": 2, "c": 3}
    e["b"] = 9
    e["d"] = e.pop("a")
    e.update({"c": 7, "e": 5})
    order = "".join(e)
    f = dict.fromkeys(["x", "y"], [])
    f["x"].append(1)
    g = {}
    g.setdefault("k", []).append(1)
    g.setdefault("k", []).append(2)
    h = {**e, "b": 0}
    m = {k2: v for k2, v in zip("abc", range(5))}
    z = list(zip([1, 2, 3], [4, 5]))
    return (n + (10 if type(k) is int else 0) + d[1] + (100 if order == "bcde" else 0) + 1000 * len(f["y"]) + 10000 * len(g["k"]) + 100000 * list(h).index("b") + len(m) + len(z)) * u


def t_views(u):
    a = np.arange(6.0)
    b = a[1:4]
    b[0] = 10
    c = a.reshape(2, 3)
    c[1, 0] = 20
    e = np.asarray(a)
    e[5] = 30
    f = np.array(a)
    f[0] = 99
    g = a[[0, 1]]
    g[0] = 77
    h = a.copy()
    h += 1
    a2 = a
    a2 += 1
    a3 = a
    a3 = a3 + 1
    r = c[0]
    r *= 2
    t = c.T
    t[2, 1] = -5
    return (a.sum() + b.sum() + 1000 * (a3 is not a)) * u


def t_inplace_alias(u):
    w = [1, 2]
    v = w
    v += [3]
    x = w
    x = x + [4]
    tup = (1, 2)
    tt = tup
    tt += (3,)
    d = {"a": [1]}
    e = dict(d)
    e["a"].append(2)
    e["b"] = 1
    import copy

    f = copy.copy(d)
    f["a"].append(3)
    g = copy.deepcopy(d)
    g["a"].append(4)
    rows = [[0] * 2] * 2
    rows[0][0] = 5
    rows2 = [[0] * 2 for _ in range(2)]
    rows2[0][0] = 5
    s = sorted(w, reverse=True)
    w2 = list(w)
    r = w2.sort()
    return (len(w) + 10 * len(x) + 100 * len(tup) + 1000 * len(d["a"]) + 10000 * len(d) + 100000 * (rows[1][0] + rows2[1][0]) + s[0] + (1000000 if r is None else 0)) * u


def t_numpy_dtype(u):
    a = np.array([1, 2, 3])
    b = a / 2
    c = a // 2
    d = np.array([1, 2, 3.0])
    e = np.zeros(3)
    e[:] = [1, 2, 3]
    e2 = np.ones((2, 3)) * np.array([1, 2, 3])
    e3 = np.ones((3, 1)) + np.ones(3)
    m = np.array([[1, 2], [3, 4]])
    return (b.sum() + c.sum() + d.sum() + e2.sum() + e3.size + e3.sum() + (m * m).sum() + (m @ m).sum() + m.sum(axis=0)[1] + m[:, 0].sum() + m[-1, -1] + len(m) + m.T[0, 1]) * u


def t_shadow_and_scope(u):
    x = 10
    ys = [x for x in range(3)]
    total = x + len(ys)
    for i in range(4):
        pass
    total += i
    try:
        raise ValueError("boom")
    except ValueError as err:
        msg = str(err)
    total += len(msg)
    k = 5
    sq = [k * k for k in range(3)]
    total += k + sq[-1]

    def inner():
        return k + 1

    k = 7
    total += inner()
    return total * u


def t_broad_except(u):
    def risky(d, key):
        try:
            return d[key] / d["den"]
        except Exception:
            return -1

    def narrow(d, key):
        try:
            return d[key]
        except KeyError:
            return -2
        finally:
            d["seen"] = d.get("seen", 0) + 1

    d = {"a": 4, "den": 2}
    z = {"a": 4, "den": 0}
    r = risky(d, "a") + 10 * risky(d, "b") + 100 * risky(z, "a") + 1000 * narrow(d, "zz") + narrow(d, "a")
    return (r + d["seen"]) * u


def t_string_names(u):
    names = ["F2_light", "F2_charm", "FL_total", "XSHERANC", "g1_bottom", "F2", "XSCHORUSCC_charm"]
    n = 0
    for nm in names:
        kind = nm.split("_")[0]
        fl = nm.split("_")[1] if "_" in nm else "total"
        n += ("t" in fl) + 10 * nm.startswith("F2") + 100 * (kind in "F2FL") + 1000 * (kind in ["F2", "FL"]) + 10000 * ("XS" in nm) + 100000 * (nm.strip("F2_") == "light")
        n += 1000000 * (nm.rstrip("_total") != nm) + 10000000 * (nm.partition("_")[2] == "")
    return n * u


def t_views_rows_cols(u):
    c = np.arange(6.0).reshape(2, 3)
    r = c[0]
    r *= 2
    t = c.T
    t[2, 1] = -5
    col = c[:, 1]
    col += 100
    return c.sum() * u


def t_views_iter_flat(u):
    c = np.zeros((2, 3))
    for row in c:
        row += 1
    d = c[0, :2]
    d[:] = 7
    e = c.flatten()
    e[0] = 100
    f = c.ravel()
    f[5] = 50
    return c.sum() * u


def t_views_containers(u):
    x = np.ones(3)
    store = {"k": x}
    y = store["k"]
    y *= 3
    z = store["k"] * 2
    z += 1
    lst = [x, x]
    lst[0][0] = 0
    return (store["k"].sum() + lst[1].sum() + z.sum()) * u


def t_bool_masks(u):
    table = {"a": np.array([[1, 0], [0, 0]], dtype=bool), "b": np.array([[0, 0], [0, 1]], dtype=bool)}
    op = table["a"]
    op |= table["b"]
    fresh = table["a"] | table["b"]
    m = np.array([[1.0, 2.0], [3.0, 4.0]])
    return ((m * table["a"]).sum() + 10 * (m * fresh).sum() + 100 * (m * ~table["b"]).sum()) * u


import functools

_STATE = {"k": 1}


@functools.lru_cache(maxsize=None)
def _cached(n):
    return n * _STATE["k"]


@functools.cache
def _cached2(n, m=2):
    return n * m + _STATE["k"]


def t_lru_cache(u):
    a = _cached(3)
    _STATE["k"] = 10
    b = _cached(3)
    c = _cached(4)
    d = _cached2(1) + _cached2(1, 2) + _cached2(n=1)
    _STATE["k"] = 1
    try:
        _cached([1])
        e = 0
    except TypeError:
        e = 5
    return (a + 10 * b + 100 * c + 1000 * d + 10000 * e) * u


def t_ravel_contiguity(u):
    many = np.arange(8.0).reshape(4, 2)
    a = many[:, :1].ravel()      # strided: a copy
    a[0] = 100
    one = np.arange(4.0).reshape(1, 4)
    b = one[:, :2].ravel()       # one row: contiguous, a view
    b[0] = 100
    c = many.T.reshape(8)        # transposed: a copy
    c[1] = -50
    d = many[1:3].ravel()        # whole rows: a view
    d[0] = 1000
    return (many.sum() + one.sum()) * u


def _twice(v):
    return 2 * v


def _method_like(self, v):
    return self.k * v


class _Desc:
    k = 5
    plain = _method_like
    static = staticmethod(_twice)
    made = classmethod(lambda cls, v: cls.k + v)
    prop = property(lambda self: self.k * 100)


def t_descriptor_calls(u):
    d = _Desc()
    return (d.plain(1) + d.static(10) + d.made(1000) + d.prop + _Desc.static(1)) * u


def t_numpy_bool(u):
    masses = np.power([2.0, 3.0], 2)
    m = masses[0]                       # np.float64
    below = 3.0 <= 4 * m                # np.bool_
    n = 0
    n += 1 if below else 0
    n += 10 if below is True else 0     # np.True_ is not True
    n += 100 if below == True else 0
    n += 1000 if (2.0 <= 3.0) is True else 0
    n += 10000 if isinstance(below, bool) else 0
    n += 100000 if bool(below) is True else 0
    n += 1000000 if (float(m) < 5.0) is True else 0
    n += 10000000 if (np.sqrt(4.0) == 2.0) is True else 0
    return n * u


def _classify(v):
    match v:
        case str() as s_:
            return 1 + len(s_)
        case list() | tuple() as seq:
            return 10 + len(seq)
        case int() | float():
            return 100
        case {"k": val}:
            return 1000 + val
        case [a, b]:
            return 5
        case _:
            return -1


def t_match_class_patterns(u):
    return (_classify("ab") + _classify([1, 2, 3]) + _classify((1,)) + _classify(7) + _classify(2.5) + _classify({"k": 4}) + _classify(None)) * u


import contextlib


@contextlib.contextmanager
def _opened(log, name):
    log.append("open " + name)
    try:
        yield len(name)
    finally:
        log.append("close " + name)


def t_contextmanager(u):
    log = []
    with _opened(log, "abc") as n:
        log.append("body")
        total = n
    try:
        with _opened(log, "zz") as n2:
            total += n2
            raise ValueError("x")
    except ValueError:
        total += 100
    return (total + 1000 * len(log) + (10000 if log[-1] == "close zz" and log[2] == "close abc" else 0)) * u
