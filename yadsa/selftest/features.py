"""Self-test of the partial evaluator on Python / numpy features (not a property check).

`featprobe/src/yadism/feat.py` holds small functions t_*(u) written in the idioms a refactoring may introduce
(dataclasses, NamedTuple, Enum, properties with setters, nonlocal, match, generators, itertools/functools/operator,
star unpacking, try/finally, numpy stores with slices and broadcasting, einsum ...).  Each must fold to the normal form
below (obtained once from the real interpreter at development time: slope/intercept of the exact result).  A construct
the evaluator cannot fold must raise Undecided - never produce another value.
"""

import os
import pathlib
import subprocess
import sys

EXPECTED = {
    "t_class_features": "59*u", "t_closure_nonlocal": "3*u", "t_comprehensions": "21*u", "t_conditional_expr_chain": "12*u",
    "t_dataclass": "1 + u", "t_dataclass_replace": "3 + u", "t_dict_set_ops": "21*u", "t_enum": "1 + 2*u", "t_functools": "12 + 3*u",
    "t_global_state": "1 + u", "t_itertools": "41*u", "t_lru": "6*u", "t_match": "30*u", "t_math": "18 + 2*u", "t_namedtuple": "5 + u",
    "t_numpy_basic": "83/2 + abs(-u) + max(u, 2*u, 3*u) + 30*u + 32*u^2", "t_slots_property": "19", "t_sorted_minmax": "117/2*u",
    # feat3.py: Python / numpy semantics traps (late-binding closures, defaults evaluated once, class-level mutables, truthiness,
    # integer arithmetic, precedence, dict keys and order, views versus copies, in-place versus out-of-place, broadcasting, lru_cache)
    "t_bool_masks": "655*u", "t_broad_except": "-2102*u", "t_class_level_mutable": "3231211*u", "t_dict_keys_order": "21146*u",
    "t_inplace_alias": "1513246*u", "t_int_arith": "183*u", "t_late_binding": "21*u", "t_lru_cache": "90033*u", "t_mutable_default": "3121*u",
    "t_numpy_dtype": "153*u", "t_or_default": "49*u", "t_precedence": "416*u", "t_shadow_and_scope": "37*u", "t_string_names": "22124435*u",
    "t_truthiness": "7981*u", "t_views": "1100*u", "t_views_containers": "33*u", "t_views_iter_flat": "67*u", "t_views_rows_cols": "208*u",
    "t_ravel_contiguity": "1132*u", "t_descriptor_calls": "1532*u", "t_numpy_bool": "1101101*u", "t_match_class_patterns": "1230*u", "t_contextmanager": "15105*u",
    # feat4.py: idioms a moderniser reaches for (NamedTuple methods, frozen dataclasses and their equality, Enum iteration / lookup, ABCs with
    # MRO and __getattr__, exception classes of the project with attributes, functools / itertools / operator pipelines, cached_property and
    # __setattr__, positional-only / keyword-only forwarding, dict | and str.removeprefix, numpy comparisons / masks / where / sort)
    "t_abc_mro_getattr": "111127060*u", "t_args_forwarding": "22263631*u", "t_cached_property_setattr": "330010816*u", "t_dataclass_frozen": "3101109*u",
    "t_dict_str_misc": "5148312729*u", "t_enum_features": "1131147*u", "t_exceptions": "1732371*u", "t_functools_itertools": "3251434*u",
    "t_namedtuple_methods": "12125573*u", "t_numpy_more": "323288383/2*u", "t_numpy_vectorised": "415788*u",
    "t_star_kwargs": "21*u", "t_lazy_interleave": "51*u", "t_string_ops": "50*u", "t_try_finally": "111*u", "t_walrus_fstring": "3 + 11*u", "t_while_forelse": "13*u",
}

_CHILD = r'''
import sys
sys.path.insert(0, %r)
from yadsa import model, symeval as S, algebra as A
from yadsa.selftest.features import EXPECTED
proj = model.project()
mods = [proj.module("yadism.feat"), proj.module("yadism.feat3"), proj.module("yadism.feat4")]
u = A.sym("u", True)
bad = 0
for name, exp in sorted(EXPECTED.items()):
    ev = S.Evaluator(proj, lenient_ext=False)
    m = [m_ for m_ in mods if name in m_.functions][0]
    try:
        got = A.canon(S.num_norm(ev.call(S.FuncVal(ev, m.functions[name]), [u], {})))
        if got != exp:
            bad += 1
            print(f"WRONG VALUE {name}: {got} (expected {exp})")
    except A.Undecided as e:
        print(f"undecided {name}: {e}")
    except S.Raised as e:
        bad += 1
        print(f"RAISED {name}: {e}")
print(f"feature probe: {len(EXPECTED)} functions, {bad} wrong")
sys.exit(1 if bad else 0)
'''


def main():
    here = pathlib.Path(__file__).resolve().parent
    verif = here.parent.parent
    env = dict(os.environ, YADSA_REPO=str(here / "featprobe"))
    p = subprocess.run([sys.executable, "-c", _CHILD % str(verif)], env=env, cwd=str(verif))
    return p.returncode
