"""Mutant ("M": the named check must fire, naming the construct) and benign-twin
("B": the check must stay silent) corpus.  Paths are relative to src/yadism."""

CORPUS = []

CFD = "coefficient_functions/"


def M(id, prop, file, old, new, expect=None, more=()):
    CORPUS.append(dict(id=id, prop=prop, kind="M", edits=[(file, old, new), *more], expect=expect))


def B(id, prop, file, old, new, more=()):
    CORPUS.append(dict(id=id, prop=prop, kind="B", edits=[(file, old, new), *more], expect=None))


# ----------------------------------------------------------------------------- C03
M("c03-c2nn2c-coeff", "C03", CFD + "light/nnlo/xc2ns2p.py", "- 338.531 + 0.485 + nf", "- 348.531 + 0.485 + nf * 1.5", expect="NNLO")
M("c03-c3ns2b-power", "C03", CFD + "light/nnlo/xc3ns2p.py", "+ 14.2222 * dl1**3 - 61.3333", "+ 14.2222 * dl1**2 - 61.3333", expect="NNLO")
M("c03-pqq-local-sign", "C03", CFD + "splitting_functions/lo.py", "constants.CF * (3.0 + 4.0 * np.log(1.0 - x))", "constants.CF * (3.0 - 4.0 * np.log(1.0 - x))", expect="P_qq_0")
M("c03-pqq0_2-revert", "C03", CFD + "splitting_functions/nlo/convolutions.py", "27 - 8*np.pi**2 + 24*(3 + 2*np.log(1 - z))*np.log(1 - z) + 48*li2(1 - z)",
  "27 + 8*np.pi**2 + 12*(3 - 4*np.log(1 - z))*np.log(1 - z) - 48*li2(1 - z)", expect="pqq0_2")
M("c03-n3lo-revert", "C03", CFD + "light/n3lo/xc2ns3p.py", "7.67505 * 5.0e-1 * dl1**2", "7.67505 * 1 / 5.0 * dl1**2", expect="N3LO")
M("c03-distr-helper", "C03", CFD + "partonic_channel.py", "res += coeff * log_ ** (k + 1) / (k + 1)", "res += coeff * log_ ** (k + 1) / (k + 2)", expect="NLO")
M("c03-distr-slice", "C03", CFD + "partonic_channel.py", 'args={"reg": reg_args, "sing": coeffs[1:], "loc": coeffs}', 'args={"reg": reg_args, "sing": coeffs, "loc": coeffs}', expect="NLO")
M("c03-asy-intrinsic-loc", "C03", CFD + "asy/partonic_channel.py", "-x * 2.0\n                    + np.log(1.0 - x)", "-x * 3.0\n                    + np.log(1.0 - x)", expect="AsyNLLIntrinsicMatching")
M("c03-asy-ll-sing", "C03", CFD + "asy/f2_nc.py", "return raw_nc.c2ns2bm0_aq2(z) * L**2", "return raw_nc.c2ns2bm0_aq2(z) * L", expect="AsyLLNonSinglet")
B("c03-reorder-terms", "C03", CFD + "splitting_functions/lo.py", "constants.CF * (3.0 + 4.0 * np.log(1.0 - x))", "(4.0 * np.log(1.0 - x) + 3.0) * constants.CF")
B("c03-dm-division", "C03", CFD + "light/n3lo/xc2ns3p.py", "    res = dm * res\n    return res\n\n\n@nb.njit(\"f8(f8,f8[:])\", cache=True)\ndef c2np3c_fl2", "    res = res / (1.0 - y)\n    return res\n\n\n@nb.njit(\"f8(f8,f8[:])\", cache=True)\ndef c2np3c_fl2")
B("c03-rational-literal", "C03", CFD + "light/nnlo/xc3ns2p.py", "+ 14.2222 * dl1**3 - 61.3333", "+ (128.0 / 9.0) * dl1**3 - 61.3333")
B("c03-inline-log", "C03", CFD + "splitting_functions/lo.py", "return 4.0 * constants.CF / (1.0 - z)", "omz = 1.0 - z\n    return 2.0 * constants.CF * 2.0 / omz")

# ----------------------------------------------------------------------------- C18
M("c18-swap-L-nf", "C18", CFD + "asy/f2_nc.py", "return RSL(cg_LL_N3LO, args=[self.L, self.nf])", "return RSL(cg_LL_N3LO, args=[self.nf, self.L])", expect="AsyLLGluon.N3LO")
M("c18-args-none", "C18", CFD + "light/f2_nc.py", "return RSL(nlo.f2.gluon_reg, args=[self.nf])", "return RSL(nlo.f2.gluon_reg)", expect="f2_nc::Gluon.NLO")
M("c18-flcc-revert", "C18", CFD + "light/fl_cc.py", "args=dict(reg=[self.nf], loc=[self.nf]),", "args=dict(reg=[self.nf]),", expect="NonSingletOdd.N3LO")
M("c18-scipy-in-njit", "C18", CFD + "splitting_functions/lo.py", "    return -2.0 * constants.CF * (1.0 + z)", "    return -2.0 * constants.CF * (1.0 + z) + 0 * scipy.special.spence(z)",
  expect="pqq_reg", more=[(CFD + "splitting_functions/lo.py", "import numba as nb\n", "import numba as nb\nimport scipy.special\n")])
M("c18-pyhelper-in-njit", "C18", CFD + "splitting_functions/lo.py", "    return 4.0 * constants.CF / (1.0 - z)", "    return 4.0 * constants.CF / _omz(z)",
  expect="pqq_sing", more=[(CFD + "splitting_functions/lo.py", "@nb.njit(\"f8(f8,f8[:])\", cache=True)\ndef pqq_reg", "def _omz(z):\n    return 1.0 - z\n\n\n@nb.njit(\"f8(f8,f8[:])\", cache=True)\ndef pqq_reg")])
M("c18-sig-arity", "C18", "esf/tmc.py", '@nb.njit("f8(f8,f8[:])", cache=True)\ndef g2_ker', '@nb.njit("f8(f8)", cache=True)\ndef g2_ker', expect="g2_ker")
M("c18-frozen-global", "C18", CFD + "special/zeta.py", None, "\n\ndef _retune(v):\n    global zeta2\n    zeta2 = v\n", expect="zeta2")
M("c18-tmc-kernel-args", "C18", "esf/tmc.py", "    xi = args[0]\n    return 1 / xi * z", "    xi = args[1]\n    return 1 / xi * z", expect="h2_ker")
B("c18-rename-local", "C18", CFD + "asy/f2_nc.py", "        def cg_LL_NLO(z, args):\n            L = args[0]\n            return raw_nc.c2g1am0_aq(z) * L", "        def cg_LL_NLO(z, args):\n            return raw_nc.c2g1am0_aq(z) * args[0]")
B("c18-args-dict-form", "C18", CFD + "light/f2_nc.py", "return RSL(nlo.f2.gluon_reg, args=[self.nf])", "return RSL(nlo.f2.gluon_reg, args=dict(reg=[self.nf]))")

# ----------------------------------------------------------------------------- C16
M("c16-delete-class", "C16", CFD + "light/gl_nc.py", "class Valence(epc.EmptyPartonicChannel):\n    pass\n", "", expect="Valence")
M("c16-rename-heavy-ns", "C16", CFD + "heavy/f3_nc.py", "class NonSinglet(", "class NonSingletX(", expect="NonSinglet")
M("c16-theory-key", "C16", "runner.py", "            pto_evol=pto_evol,\n            scheme=", "            ptoevol=pto_evol,\n            scheme=", expect="pto_evol")
M("c16-weights-key", "C16", CFD + "heavy/kernels.py", 'weights["gVV"],', 'weights["gV"],', expect="gV")
M("c16-kin-guard", "C16", "esf/esf.py", "        if x > 1 or x <= 0:", "        if x > 1.5 or x <= 0:", expect="C16.kin")
M("c16-grid-guard", "C16", "esf/esf.py", "        if x < min(configs.interpolator.xgrid.raw):\n            raise ValueError(f\"x outside xgrid - cannot convolve starting from x={x}\")\n", "", expect="C16.kin")
M("c16-nan-bypass", "C16", "runner.py", "        out = self.replace_nans_with_0(out)\n        return out", "        self.replace_nans_with_0(out)\n        return out", expect="C16.nan")
M("c16-nan-first-only", "C16", "runner.py", "                    for tup in range(2):", "                    for tup in range(1):", expect="C16.nan")
M("c16-nan-filter-revert", "C16", "runner.py", "                not observable_name.ObservableName.is_valid(observable)\n                or points is None", "                observable not in observable_name.kinds\n                or points is None", expect="C16.nan")
M("c16-wodd-revert", "C16", CFD + "kernels.py", '{k: c / (nf) for k, c in w_odd["v"].items()},', '{k: np.sign(k) * c / (nf) for k, c in w_odd["s"].items()},', expect="generate_single_flavor_light")
M("c16-channel-name", "C16", CFD + "intrinsic/f2_nc.py", "class Splus(", "class Spl(", expect=None)
M("c16-tmc-kin-revert", "C16", "esf/tmc.py", '        if kinematics["x"] > 1 or kinematics["x"] <= 0:\n            raise ValueError("Kinematics \'x\' must be in the range (0,1]")\n', "", expect="C16.kin")
M("c16-asy-name", "C16", CFD + "asy/kernels.py", 'name = "Asy" + ("N" * res) + "LL" + "NonSinglet"', 'name = "Asy" + ("N" * res) + "LL" + "Nonsinglet"', expect="generate_missing_asy")
B("c16-guard-spelling", "C16", "esf/esf.py", "        if x > 1 or x <= 0:", "        if not (0 < x <= 1):")
B("c16-nan-inline", "C16", "runner.py", "        out = self.replace_nans_with_0(out)\n        return out", "        return self.replace_nans_with_0(out)")

# ----------------------------------------------------------------------------- C12
M("c12-matrix-rows", "C12", CFD + "__init__.py", "np.array([[z, a - z], [a - z, z]]) / a", "np.array([[z, a - z], [z, a - z]]) / a", expect="C12.rotation")
M("c12-writeback-swapped", "C12", CFD + "__init__.py", "ker.partons[sign * 1], ker.partons[sign * 2] = nucl_factors @ ps", "ker.partons[sign * 2], ker.partons[sign * 1] = nucl_factors @ ps", expect="C12.rotation")
M("c12-alias-revert", "C12", CFD + "__init__.py", "            ker.partons = dict(ker.partons)\n", "", expect="C12")
M("c12-lead-z", "C12", "input/compatibility.py", '{"Z": 82.0, "A": 208.0}', '{"Z": 28.0, "A": 208.0}', expect="lead")
M("c12-isospin-after-drop", "C12", CFD + "__init__.py", '        self.apply_isospin(full, self.target["Z"], self.target["A"])\n', "", expect="C12.rotation")
M("c12-share-ns-partons", "C12", CFD + "kernels.py", "        Kernel(s_partons, light_cfs.Singlet(esf, nf)),\n    ]", "        Kernel(ns_partons, light_cfs.Singlet(esf, nf)),\n    ]",
  expect="C12", more=[(CFD + "__init__.py", "            ker.partons = dict(ker.partons)\n", "")])
B("c12-matrix-spelling", "C12", CFD + "__init__.py", "np.array([[z, a - z], [a - z, z]]) / a", "np.array([[z / a, 1 - z / a], [1 - z / a, z / a]])")
B("c12-copy-spelling", "C12", CFD + "__init__.py", "            ker.partons = dict(ker.partons)\n", "            ker.partons = ker.partons.copy()\n")

# ----------------------------------------------------------------------------- C07
M("c07-massive-only", "C07", CFD + "__init__.py", 'if family in ["heavy", "total"] and self.fonllparts in ["massive", "full"]:', 'if family in ["heavy", "total"] and self.fonllparts in ["massive"]:', expect="C07.parts")
M("c07-heavy-family", "C07", CFD + "__init__.py", 'if family in ["heavy", "total"] and self.fonllparts in ["massive", "full"]:', 'if family == "heavy" and self.fonllparts in ["massive", "full"]:', expect="C07.ffns")
M("c07-light-massless", "C07", CFD + "__init__.py", 'if family in ["light", "total"] and self.fonllparts in ["massless", "full"]:', 'if family in ["light", "total"] and self.fonllparts in ["massless", "full", "massive"]:', expect="C07.parts")
M("c07-pos-guard-fl11", "C07", CFD + "coupling_constants.py",
  '            pos = self.obs_config["nc_pos_charge"][0]\n            pos_pid = 1 + br.quark_names.index(pos)\n            if abs(pid) != pos_pid:\n                return 0.0\n\n        w_phph = (\n            self.leptonic_coupling("phph", quark_coupling_type)\n            * self.propagator_factor("phph", Q2)\n            * self.partonic_coupling_fl11(',
  '            pos = self.obs_config["nc_pos_charge"][0]\n            pos_pid = 1 + br.quark_names.index(pos)\n\n        w_phph = (\n            self.leptonic_coupling("phph", quark_coupling_type)\n            * self.propagator_factor("phph", Q2)\n            * self.partonic_coupling_fl11(',
  expect="C07.pos")
M("c07-total-drops-heavy", "C07", CFD + "__init__.py", "            if hq not in (0, sfh):\n                continue", "            if hq != sfh:\n                continue", expect="C07.ffns")
M("c07-zm-extra", "C07", CFD + "__init__.py", "            if not masses[sfh]:\n                continue\n\n            heavy_comps[sfh] = Component(sfh)", "            heavy_comps[sfh] = Component(sfh)", expect="C07")
B("c07-list-to-tuple", "C07", CFD + "__init__.py", 'if family in ["heavy", "total"] and self.fonllparts in ["massive", "full"]:', 'if family in ("total", "heavy") and self.fonllparts != "massless":')

# ----------------------------------------------------------------------------- C02
CCF = CFD + "coupling_constants.py"
M("c02-ckm-string-unsquared", "C02", CFD + "coupling_constants.py", "        return cls(np.power(np.array(elems, dtype=float), 2))", "        return cls(np.array(elems, dtype=float))", expect="CKM given as string")
M("c02-ckm-string-columnwise", "C02", CFD + "coupling_constants.py", "        return cls(np.power(np.array(elems, dtype=float), 2))", "        return cls(np.power(np.array(elems, dtype=float), 2).reshape(3, 3).T)", expect="CKM given as string")
B("c02-ckm-string-square-by-product", "C02", CFD + "coupling_constants.py", "        return cls(np.power(np.array(elems, dtype=float), 2))", "        values = np.array([float(e) for e in elems])\n        return cls(values * values)")
M("c02-pol-sign", "C02", CCF, "                    projectile_v + pol * projectile_a\n", "                    projectile_v - pol * projectile_a\n", expect="C02.weight")
M("c02-interference-factor", "C02", CCF, "            w_phZ = (\n                2\n                * self.leptonic_coupling", "            w_phZ = (\n                1\n                * self.leptonic_coupling", expect="C02.weight")
M("c02-eta-zz", "C02", CCF, "            return eta_phZ**2\n", "            return eta_phZ\n", expect="C02.weight")
M("c02-cos2", "C02", CCF, "* (1.0 - self.theory_config[\"sin2theta_weak\"])", "* (1.0 + self.theory_config[\"sin2theta_weak\"])", expect="C02.weight")
M("c02-mask-c", "C02", CCF, "op += np.array([[0, 0, 0], [1, 1, 0], [0, 0, 0]])", "op += np.array([[0, 0, 0], [1, 0, 1], [0, 0, 0]])", expect="C02.ckm")
M("c02-rest-list", "C02", CFD + "kernels.py",
  "    weights = {\"ns\": {}, \"g\": {}, \"s\": {}}\n    # determine couplings\n    projectile_pid = coupling_constants.obs_config[\"projectilePID\"]\n    if projectile_pid in [-11, 12]:\n        rest = 1\n    else:\n        rest = 0\n    # quark couplings\n    tot_ch_sq = 0\n    norm = len(cc_mask)\n    # iterate: include the heavy quark itself, since it can run in the singlet sector diagrams\n    for q in range(1, min(nf + 2, 6 + 1)):\n        sign = 1 if q % 2 == rest else -1\n        w = coupling_constants.get_weight(q, Q2, None, cc_mask=cc_mask)\n        # the heavy quark can not be in the input\n        # NOTE: intrinsic abuse this statement with nf -> nf + 1\n        if q <= nf:\n            # @F3-sign@\n            weights[\"ns\"][sign * q] = w / 2 * (1 if not is_pv else sign)\n            weights[\"ns\"][-sign * q] = w / 2 * (1 if not is_pv else sign)",
  "    weights = {\"ns\": {}, \"g\": {}, \"s\": {}}\n    # determine couplings\n    projectile_pid = coupling_constants.obs_config[\"projectilePID\"]\n    if projectile_pid in [11, 12]:\n        rest = 1\n    else:\n        rest = 0\n    # quark couplings\n    tot_ch_sq = 0\n    norm = len(cc_mask)\n    # iterate: include the heavy quark itself, since it can run in the singlet sector diagrams\n    for q in range(1, min(nf + 2, 6 + 1)):\n        sign = 1 if q % 2 == rest else -1\n        w = coupling_constants.get_weight(q, Q2, None, cc_mask=cc_mask)\n        # the heavy quark can not be in the input\n        # NOTE: intrinsic abuse this statement with nf -> nf + 1\n        if q <= nf:\n            # @F3-sign@\n            weights[\"ns\"][sign * q] = w / 2 * (1 if not is_pv else sign)\n            weights[\"ns\"][-sign * q] = w / 2 * (1 if not is_pv else sign)",
  expect="C02.lo")
M("c02-up-charge", "C02", CCF, "self.electric_charge[q] = 2 / 3 if q % 2 == 0 else -1 / 3", "self.electric_charge[q] = 1 / 3 if q % 2 == 0 else -1 / 3", expect="C02.tables")
M("c02-antiquark-sign", "C02", CFD + "light/kernels.py", "        ns_partons[-q] = w if not is_pv else -w\n        tot_ch_sq += w", "        ns_partons[-q] = w\n        tot_ch_sq += w", expect="C02.lo")
M("c02-odd-sign", "C02", CFD + "kernels.py", "            weights[\"ns\"][-sign * q] = -w / 2 * (1 if not is_pv else sign)", "            weights[\"ns\"][-sign * q] = w / 2 * (1 if not is_pv else sign)", expect="C02.lo")
M("c02-ww-lepton", "C02", CCF, "        if mode == \"WW\":\n            return 2\n", "        if mode == \"WW\":\n            return 1\n", expect="C02")
M("c02-pol-flip-both", "C02", CCF, "        if (projectile_pid % 2 == 1 and projectile_pid > 0) or (\n            projectile_pid % 2 == 0 and projectile_pid < 0\n        ):", "        if projectile_pid % 2 == 1 or (\n            projectile_pid % 2 == 0 and projectile_pid < 0\n        ):", expect="C02.weight")
M("c02-vectorial", "C02", CCF, "            - 2.0 * self.electric_charge[pid] * self.theory_config[\"sin2theta_weak\"]", "            - 4.0 * self.electric_charge[pid] * self.theory_config[\"sin2theta_weak\"]", expect="C02.weight")
M("c02-ckm-call", "C02", CCF, "        if pid % 2 == 0:\n            return self[pid]\n        return self[:, pid]", "        if pid % 2 == 1:\n            return self[pid]\n        return self[:, pid]", expect="C02.ckm")
B("c02-zz-expanded", "C02", CCF, "                    projectile_v**2\n                    + projectile_a**2\n                    + 2.0 * pol * projectile_v * projectile_a", "                    (projectile_v + pol * projectile_a) ** 2\n                    + (1.0 - pol**2) * projectile_a**2")
B("c02-hoist-eta", "C02", CCF, "        eta_phZ /= 1 - self.obs_config[\"propagatorCorrection\"]", "        corr = 1 - self.obs_config[\"propagatorCorrection\"]\n        eta_phZ = eta_phZ / corr")

# ----------------------------------------------------------------------------- C13
M("c13-pol-flip-both", "C13", CCF, "        if (projectile_pid % 2 == 1 and projectile_pid > 0) or (\n            projectile_pid % 2 == 0 and projectile_pid < 0\n        ):", "        if projectile_pid % 2 == 1 or (\n            projectile_pid % 2 == 0 and projectile_pid < 0\n        ):", expect="C13.pol")
M("c13-gluon-sign", "C13", CFD + "kernels.py", "    if rest == 0 and is_pv:\n        tot_ch_sq *= -1\n", "", expect="C13.cc")
M("c13-odd-pv-sign", "C13", CFD + "kernels.py", "            weights[\"ns\"][sign * q] = w / 2 * (1 if not is_pv else sign)\n            weights[\"ns\"][-sign * q] = -w / 2 * (1 if not is_pv else sign)", "            weights[\"ns\"][sign * q] = w / 2\n            weights[\"ns\"][-sign * q] = -w / 2 * (1 if not is_pv else sign)", expect="C13.cc")
M("c13-z-without-propagator", "C13", CCF, "            return w_phph + w_phZ + w_ZZ\n        raise ValueError(f\"Unknown process: {self.obs_config['process']}\")\n\n    def get_fl11_weight", "            return w_phph + w_phZ + w_ZZ + 0.01 * self.partonic_coupling(\"ZZ\", pid, quark_coupling_type)\n        raise ValueError(f\"Unknown process: {self.obs_config['process']}\")\n\n    def get_fl11_weight", expect="C13.em")
M("c13-skip-last-quark", "C13", CFD + "light/kernels.py", "        if skip_heavylight and q == nf:\n            continue\n        if is_pv:", "        if q == nf:\n            continue\n        if is_pv:", expect="C13.flavour")
M("c13-eta-constant", "C13", CCF, "        eta_phZ = (Q2 / (self.theory_config[\"MZ2\"] + Q2)) / (", "        eta_phZ = (1.0 / (self.theory_config[\"MZ2\"] + 1.0)) / (", expect="C13.em")
M("c13-projectile-sign-nc", "C13", CCF, "                return self.electric_charge[abs(projectile_pid)] * (\n                    projectile_v + pol * projectile_a\n                )", "                return np.sign(projectile_pid) * self.electric_charge[abs(projectile_pid)] * (\n                    projectile_v + pol * projectile_a\n                )", expect="C13.pol")
B("c13-rename-rest", "C13", CFD + "kernels.py", "    if rest == 0 and is_pv:\n        tot_ch_sq *= -1\n", "    if is_pv and not rest:\n        tot_ch_sq = -tot_ch_sq\n")

# ----------------------------------------------------------------------------- C05
SVF = "esf/scale_variations.py"
SPF = CFD + "splitting_functions/__init__.py"
M("c05-ren-2beta0", "C05", SVF, "(3, 1, 2): +2 * beta0,", "(3, 1, 2): +beta0,", expect="C05.rge")
M("c05-ren-beta0sq", "C05", SVF, "(3, 2, 1): +(beta0**2),", "(3, 2, 1): +(beta0),", expect="C05.rge")
M("c05-ren-beta1", "C05", SVF, "(3, 1, 1): +beta.beta_qcd_as3(nf),", "(3, 1, 1): +beta.beta_qcd_as2(nf),", expect="C05.rge")
M("c05-binom-sign", "C05", SVF, "binomial = binom(n, j) * (-1) ** j", "binomial = binom(n, j)", expect="C05.rge")
M("c05-binom-key", "C05", SVF, "((o[0], o[1], j, n - j + o[3]), (binomial * k[0], k[1], k[2]))", "((o[0], o[1], n - j, j + o[3]), (binomial * k[0], k[1], k[2]))", expect="C05.rge")
M("c05-swap-nsp-nsm", "C05", SPF, '(br.non_singlet_pids_map["ns+"], 0): matrices["P_nsp_1", nf],\n                    (br.non_singlet_pids_map["ns-"], 0): matrices["P_nsm_1", nf],', '(br.non_singlet_pids_map["ns+"], 0): matrices["P_nsm_1", nf],\n                    (br.non_singlet_pids_map["ns-"], 0): matrices["P_nsp_1", nf],', expect="C05.rge")
M("c05-c211-beta0", "C05", SPF, "    return matrices[lab, nf] - beta0\n", "    return matrices[lab, nf]\n", expect="C05.rge")
M("c05-c220-half", "C05", SPF, "    return 0.5 * (\n        sum(matrices[lab, nf] for lab in labs[0])", "    return 1.0 * (\n        sum(matrices[lab, nf] for lab in labs[0])", expect="C05.rge")
M("c05-c220-sign", "C05", SPF, "        - beta.beta_qcd_as2(nf) * matrices[labs[1], nf]", "        + beta.beta_qcd_as2(nf) * matrices[labs[1], nf]", expect="C05.rge")
M("c05-filter-swap", "C05", SVF, "        if not self.activate_ren:\n            return filter(lambda e: e[0][2] == 0, ren_kers)", "        if not self.activate_ren:\n            return filter(lambda e: e[0][3] == 0, ren_kers)", expect="C05.rge")
M("c05-intrinsic-common", "C05", "esf/esf.py", '            if cfe.channel != "intrinsic":', '            if cfe.channel != "intrinsicX":', expect="C05.rge")
M("c05-qg-c211", "C05", SPF, '    if lab in ["P_gq_0", "P_qg_0"]:', '    if lab in ["P_gq_0"]:', expect="C05.rge")
M("c05-singlet-label", "C05", SPF, '(("P_qq_0^2", "P_qg_0P_gq_0"), "P_qq_0"), matrices, nf', '(("P_qq_0^2", "P_qq_0P_qg_0"), "P_qq_0"), matrices, nf', expect="C05.rge")
M("c05-registry-crosswire", "C05", CFD + "splitting_functions/nlo/__init__.py", '    "P_nsp_1": pnsp1,\n    "P_nsm_1": pnsm1,', '    "P_nsp_1": pnsm1,\n    "P_nsm_1": pnsp1,', expect="C05.labels")
M("c05-nf-source", "C05", "esf/esf.py", "sv_manager.apply_common_scale_variations(ker_orders, cfc.nf)", "sv_manager.apply_common_scale_variations(ker_orders, self.info.nf_ff)", expect="C05.rge")
M("c05-proj-transpose", "C05", SVF, "                        ((target, oqed, 0, lnf), (partons_proj.T, val_sv, err_sv))", "                        ((target, oqed, 0, lnf), (partons_proj.T[::-1], val_sv, err_sv))", expect="C05.rge")
B("c05-dict-ctor", "C05", SVF, "        ren_coeffs = {\n            (2, 1, 1): +beta0,\n            (3, 1, 2): +2 * beta0,\n            (3, 1, 1): +beta.beta_qcd_as3(nf),\n            (3, 2, 1): +(beta0**2),\n        }", "        ren_coeffs = dict([((2, 1, 1), beta0), ((3, 1, 2), beta0 + beta0), ((3, 1, 1), beta.beta_qcd_as3(nf)), ((3, 2, 1), beta0 * beta0)])")
B("c05-rename-c211", "C05", SPF, "def c211(lab, matrices, nf):", "def c211(lab, matrices, nf, _unused=None):")

# ----------------------------------------------------------------------------- C11
EXF = "esf/exs.py"
M("c11-f3sign", "C11", EXF, "    return np.array([yp, -yL, f3sign * ym]) * norm", "    return np.array([yp, -yL, -f3sign * ym]) * norm", expect="C11.coeffs")
M("c11-yL", "C11", EXF, "    ym = 1.0 - (1.0 - y) ** 2\n    yL = y**2", "    ym = 1.0 - (1.0 - y) ** 2\n    yL = y", expect="C11.coeffs")
M("c11-heracc-norm", "C11", EXF, "        norm = 1.0 / 4.0", "        norm = 1.0 / 2.0", expect="XSHERACC")
M("c11-basis-order", "C11", EXF, 'sf1, sf2, sf3 = "F2", "FL", "F3"', 'sf1, sf2, sf3 = "FL", "F2", "F3"', expect="C11.combo")
M("c11-flavour-mix", "C11", EXF, '            ObservableName(f"{sf2}_{flavor}"), self.kin\n        ).get_result()', '            ObservableName(f"{sf2}_total"), self.kin\n        ).get_result()', expect="C11.combo")
M("c11-kind-fallthrough", "C11", EXF, '        if kind == "XSNUTEVNU":', '        if kind == "XSNUTEVNu":', expect="XSNUTEVNU")
M("c11-f3sign-predicate", "C11", EXF, '    f3sign = -1 if params["projectilePID"] < 0 else 1', '    f3sign = -1 if params["projectilePID"] % 2 == 0 else 1', expect="C11.coeffs")
M("c11-chorus-mass", "C11", EXF, "        yp -= 2.0 * (mn * x * y) ** 2 / Q2  # = ypc", "        yp -= 2.0 * (mn * x * y) / Q2  # = ypc", expect="C11.coeffs")
M("c11-skip-f3-always", "C11", EXF, "        if linear_coeffs[2] != 0.0:", "        if linear_coeffs[2] != 0.0 and self.info.obs_name.kind == \"XSHERANC\":", expect="C11.combo")
M("c11-order-shift", "C11", EXF, "            sigma.orders[(o[0], o[1] + self.alpha_qed_power(), o[2], o[3])] = v", "            sigma.orders[(o[0], o[1] + self.alpha_qed_power(), o[3], o[2])] = v", expect="C11.combo")
M("c11-xs-raw", "C11", "xs.py", "return self.runner.get_sf(obs_name).get_esf(obs_name, kin, use_raw=False)", "return self.runner.get_sf(obs_name).get_esf(obs_name, kin, use_raw=True)", expect="C11.combo")
B("c11-hoist-prop", "C11", EXF, "        norm *= 1.0 / (2.0 * x * (1.0 + Q2 / params[\"M2W\"]) ** 2)", "        prop = (1.0 + Q2 / params[\"M2W\"]) ** 2\n        norm = norm / (2.0 * x * prop)")

# ----------------------------------------------------------------------------- C10
TMF = "esf/tmc.py"
M("c10-rho-power", "C10", TMF, "        self._factor_shifted = self.x**2 / (self.xi**2 * self.rho**3)\n        # h2 comes with a seperate factor\n        self._factor_h2 = 6.0", "        self._factor_shifted = self.x**2 / (self.xi**2 * self.rho**2)\n        # h2 comes with a seperate factor\n        self._factor_h2 = 6.0", expect="ESFTMC_F2")
M("c10-h2-coeff", "C10", TMF, "self._factor_h2 = 6.0 * self.mu * self.x**3 / (self.rho**4)", "self._factor_h2 = 4.0 * self.mu * self.x**3 / (self.rho**4)", expect="ESFTMC_F2")
M("c10-swap-kernels", "C10", TMF, '        return self._convolve_FX("F2", g2_ker)', '        return self._convolve_FX("F2", h2_ker)', expect="exact")
M("c10-k2-over-f2", "C10", TMF, '        return self._convolve_FX("g1", k2_ker)', '        return self._convolve_FX("F2", k2_ker)', expect="ESFTMC_g1")
M("c10-h3-revert", "C10", TMF, '        return self._convolve_FX("F3", h2_ker)', '        return self._convolve_FX("F3", h3_ker)', expect="ESFTMC_F3")
M("c10-k1-revert", "C10", TMF, '        return self._convolve_FX("g1", h2_ker)', '        return self._h2()', expect="ESFTMC_g1")
M("c10-xi-def", "C10", TMF, "        self.xi = 2 * self.x / (1 + self.rho)", "        self.xi = 2 * self.x / (1 + self.rho**2)", expect="C10.vars")
M("c10-h2-kernel-body", "C10", TMF, "    xi = args[0]\n    return 1 / xi * z", "    xi = args[0]\n    return 1 / xi * z * z", expect="C10.form")
M("c10-fl-approx", "C10", TMF, "            (4 * self.mu * self.x * self.xi) / self.rho * (1 - self.xi)\n", "            (4 * self.mu * self.x * self.xi) / self.rho * (1 - self.xi) ** 2\n", expect="ESFTMC_FL")
M("c10-mode-dispatch", "C10", TMF, "        elif self.sf.runner.configs.TMC == 2:  # approx\n            out = self._get_result_approx()", "        elif self.sf.runner.configs.TMC == 2:  # approx\n            out = self._get_result_exact()", expect="approx")
M("c10-restore-x", "C10", TMF, "        out.x = self.x\n", "        out.x = self.xi\n", expect=None)
M("c10-tmc-map-g1", "C10", TMF, 'ESFTMCmap = {"F2": ESFTMC_F2, "FL": ESFTMC_FL, "F3": ESFTMC_F3, "g1": ESFTMC_g1}', 'ESFTMCmap = {"F2": ESFTMC_F2, "FL": ESFTMC_FL, "F3": ESFTMC_F3}', expect="rejected")
M("c10-g1-2xi-revert", "C10", TMF, "    def _get_result_exact(self):\n        # Collect g1 result.\n        g1out = self.sf.get_esf(self.sf.obs_name, self._shifted_kinematics).get_result()\n\n        # Call to the raw integrals\n        k1out = self._k1()\n        k2out = self._k2()\n\n        # Combine the expressions and putting back `2x`\n        return (\n            2\n            * self.x", "    def _get_result_exact(self):\n        # Collect g1 result.\n        g1out = self.sf.get_esf(self.sf.obs_name, self._shifted_kinematics).get_result()\n\n        # Call to the raw integrals\n        k1out = self._k1()\n        k2out = self._k2()\n\n        # Combine the expressions and putting back `2x`\n        return (\n            2\n            * self.xi", expect="ESFTMC_g1")
B("c10-ratio-squared", "C10", TMF, "        self._factor_shifted = self.x**2 / (self.xi**2 * self.rho**3)\n        # h2 comes with a seperate factor\n        self._factor_h2 = 6.0", "        self._factor_shifted = (self.x / self.xi) ** 2 / self.rho**3\n        # h2 comes with a seperate factor\n        self._factor_h2 = 6.0")
B("c10-kernel-spelling", "C10", TMF, "    xi = args[0]\n    return 1 / xi * z", "    return z / args[0]")

# ----------------------------------------------------------------------------- C06
M("c06-sv-nfff", "C06", "esf/esf.py", "sv_manager.apply_diff_scale_variations(ker_orders, cfc.nf)\n                )\n            else:", "sv_manager.apply_diff_scale_variations(ker_orders, self.info.nf_ff)\n                )\n            else:", expect="C06.flow")
M("c06-light-literal-nf", "C06", CFD + "__init__.py", "    def light_component(self):\n        \"\"\"Collect massless kernels.\"\"\"\n        nf = self.nf", "    def light_component(self):\n        \"\"\"Collect massless kernels.\"\"\"\n        nf = self.esf.info.nf_ff", expect="C06.flow")
M("c06-mass-order", "C06", "runner.py", 'masses = np.power([new_theory["mc"], new_theory["mb"], new_theory["mt"]], 2)', 'masses = np.power([new_theory["mb"], new_theory["mc"], new_theory["mt"]], 2)', expect="C06.atlas")
M("c06-ratio-not-squared", "C06", "runner.py", '            [new_theory["kcThr"], new_theory["kbThr"], new_theory["ktThr"]], 2\n', '            [new_theory["kcThr"], new_theory["kbThr"], new_theory["ktThr"]], 1\n', expect="C06.atlas")
M("c06-ffns-offbyone", "C06", "input/compatibility.py", '    elif fns == "FFNS" or fns == "FFN0":\n        # enforce correct settings moving all thresholds to 0 or oo\n        for k, fl in enumerate(hqfl):\n            if k + 4 <= nf:', '    elif fns == "FFNS" or fns == "FFN0":\n        # enforce correct settings moving all thresholds to 0 or oo\n        for k, fl in enumerate(hqfl):\n            if k + 4 < nf:', expect="C06.fns")
M("c06-fonll-two-massive", "C06", "input/compatibility.py", "            elif k + 4 > nf + 1:\n                theory[f\"k{fl}Thr\"] = np.inf\n                theory[f\"ZM{fl}\"] = True", "            elif k + 4 > nf + 1:\n                theory[f\"k{fl}Thr\"] = np.inf\n                theory[f\"ZM{fl}\"] = False", expect="C06.fns")
M("c06-nf-twice", "C06", CFD + "__init__.py", "        nf = self.nf\n        hq = self.obs_name.hqnumber\n        masses = self.masses\n\n        comps = []\n\n        heavy_comps = {}", "        nf = nf_default(self.esf.Q2 * 4, self.esf.info.threshold)\n        hq = self.obs_name.hqnumber\n        masses = self.masses\n\n        comps = []\n\n        heavy_comps = {}", expect="C06.single")
M("c06-nf-scale", "C06", CFD + "__init__.py", "        self.nf = nf_default(esf.Q2, esf.info.threshold)", "        self.nf = nf_default(esf.Q2 / 4.0, esf.info.threshold)", expect="C06.single")
M("c06-zm-rewrites-thr", "C06", "input/compatibility.py", "        for fl in hqfl:\n            theory[f\"ZM{fl}\"] = True\n", "        for fl in hqfl:\n            theory[f\"ZM{fl}\"] = True\n            theory[f\"k{fl}Thr\"] = 1.0\n", expect="C06.fns")
B("c06-fns-membership", "C06", "input/compatibility.py", '    elif fns == "FFNS" or fns == "FFN0":', '    elif fns in ("FFNS", "FFN0"):')

# ----------------------------------------------------------------------------- C09
HPF = CFD + "heavy/partonic_channel.py"
M("c09-lt", "C09", HPF, "        return shat <= 4 * self.m2hq", "        return shat < 4 * self.m2hq", expect="C09.cmp")
M("c09-mass-factor", "C09", HPF, "        return shat <= 4 * self.m2hq", "        return shat <= self.m2hq", expect="C09.cmp")
M("c09-shat", "C09", HPF, "        shat = self.ESF.Q2 * (1 - z) / z", "        shat = self.ESF.Q2 * (1 - z)", expect="C09.cmp")
M("c09-delete-guard", "C09", CFD + "heavy/fl_nc.py", "        def cg(z, _args):\n            if self.is_below_pair_threshold(z):\n                return 0.0\n            return (\n                self._FHprefactor / z * LeProHQ.cg0(\"FL\", \"VV\"", "        def cg(z, _args):\n            return (\n                self._FHprefactor / z * LeProHQ.cg0(\"FL\", \"VV\"", expect="fl_nc::GluonVV.NLO")
M("c09-guard-wrong-var", "C09", CFD + "heavy/f2_nc.py", "        def dq(z, _args):\n            if self.is_below_pair_threshold(z):", "        def dq(z, _args):\n            if self.is_below_pair_threshold(self.ESF.x):", expect="f2_nc::NonSinglet.NNLO")
M("c09-decorator-bypass", "C09", CFD + "heavy/g4_nc.py", "class NonSinglet(pc.NeutralCurrentBase):\n", "class NonSinglet(pc.NeutralCurrentBase):\n    def decorator(self, f):\n        return f\n\n", expect="g4_nc::NonSinglet")
M("c09-decorator-condition", "C09", HPF, "        if self.is_below_pair_threshold(self.ESF.x):\n            return lambda: pc.RSL()\n        return f", "        if self.is_below_pair_threshold(self.ESF.x) and self.nf > 9:\n            return lambda: pc.RSL()\n        return f", expect="C09.hadronic")
M("c09-cc-point", "C09", HPF, "        return self.x / self.labda", "        return self.x * self.labda", expect="C09.cc")
M("c09-conv-guard-order", "C09", "esf/conv.py", "    # empty domain?\n    if x >= (1 - eps_integration_border):\n        return 0.0, 0.0\n", "", expect="C09.cc")
M("c09-new-unguarded-closure", "C09", CFD + "heavy/f2_nc.py", "class SingletAA(pc.NeutralCurrentBase):\n    \"\"\"Axial-vector-axial-vector singlet component.\"\"\"\n", "class SingletAA(pc.NeutralCurrentBase):\n    \"\"\"Axial-vector-axial-vector singlet component.\"\"\"\n\n    def NLO(self):\n        def cq(z, _args):\n            return self._FHprefactor / z * LeProHQ.cq1(\"F2\", \"AA\", self._xi, self._eta(z))\n\n        return RSL(cq)\n", expect="SingletAA.NLO")
B("c09-not-gt", "C09", HPF, "        return shat <= 4 * self.m2hq", "        return not shat > 4 * self.m2hq")
B("c09-rename-eta", "C09", HPF, "        self._eta = lambda z: self._xi / 4.0 * (1.0 / z - 1.0) - 1.0", "        self._eta = lambda zz: self._xi / 4.0 * (1.0 / zz - 1.0) - 1.0")

# ----------------------------------------------------------------------------- C01
CVF = "esf/conv.py"
M("c01-drop-local", "C01", CVF, "    res += pdf_at_x * local_at_x\n", "", expect="C01.integrand")
M("c01-loc-args-sing", "C01", CVF, '        local_at_x = rsl.loc(x, rsl.args["loc"])', '        local_at_x = rsl.loc(x, rsl.args["sing"])', expect="C01.integrand")
M("c01-pack-swap", "C01", CVF, "            sing_args = (\n                rsl.sing,\n                pdf_at_x,\n                rsl.args[\"sing\"],\n            )", "            sing_args = (\n                rsl.sing,\n                rsl.args[\"sing\"],\n                pdf_at_x,\n            )", expect="C01.integrand")
M("c01-breakpoints", "C01", CVF, "        breakpoints = x / area_borders", "        breakpoints = area_borders / x", expect="C01.integrand")
M("c01-zmax", "C01", CVF, "        z_max = min(max(breakpoints), 1)", "        z_max = max(breakpoints)", expect="C01.integrand")
M("c01-no-subtraction", "C01", CVF, "def quad_ker_sing(z, x, is_log, areas, sing, pdf_at_x, sing_args):\n    if is_log:\n        pdf_at_x_ov_z_div_z = interpolation.log_evaluate_x(x / z, areas) / z\n    else:\n        pdf_at_x_ov_z_div_z = interpolation.evaluate_x(x / z, areas) / z\n    # compute\n    sing_integrand = sing(z, sing_args) * (pdf_at_x_ov_z_div_z - pdf_at_x)", "def quad_ker_sing(z, x, is_log, areas, sing, pdf_at_x, sing_args):\n    if is_log:\n        pdf_at_x_ov_z_div_z = interpolation.log_evaluate_x(x / z, areas) / z\n    else:\n        pdf_at_x_ov_z_div_z = interpolation.evaluate_x(x / z, areas) / z\n    # compute\n    sing_integrand = sing(z, sing_args) * (pdf_at_x_ov_z_div_z)", expect="C01.integrand")
M("c01-missing-jacobian", "C01", CVF, "def quad_ker_reg(z, x, is_log, areas, reg, reg_args):\n    if is_log:\n        pdf_at_x_ov_z_div_z = interpolation.log_evaluate_x(x / z, areas) / z", "def quad_ker_reg(z, x, is_log, areas, reg, reg_args):\n    if is_log:\n        pdf_at_x_ov_z_div_z = interpolation.log_evaluate_x(x / z, areas)", expect="C01.integrand")
M("c01-log-borders", "C01", CVF, "        if pdf_func._mode_log:  # pylint: disable=protected-access\n            area_borders = np.exp(area_borders)\n", "", expect="C01.integrand")
M("c01-kernel-choice", "C01", CVF, "        if rsl.reg is not None and rsl.sing is not None:\n            quad_ker = quad_ker_reg_sing", "        if rsl.reg is not None and rsl.sing is not None:\n            quad_ker = quad_ker_sing", expect="C01.integrand")
M("c01-point-x", "C01", "esf/esf.py", "                    rsl, self.info.configs.managers[\"interpolator\"], convolution_point\n", "                    rsl, self.info.configs.managers[\"interpolator\"], self.x\n", expect="C01.point")
M("c01-factor-val-only", "C01", "esf/esf.py", "                val, err = convolution_point * val, convolution_point * err", "                val, err = self.x * val, convolution_point * err", expect="C01.point")
M("c01-no-factor-x", "C01", "esf/esf.py", "                val, err = convolution_point * val, convolution_point * err\n", "", expect="C01.point")
M("c01-vector-skip-first", "C01", CVF, "    for polynomial_f in interpolator:\n        c, e = convolution(cf, convolution_point, polynomial_f)", "    for polynomial_f in list(interpolator)[1:]:\n        c, e = convolution(cf, convolution_point, polynomial_f)", expect="C01")
M("c01-operator-transposed", "C01", CVF, "            op_res[l, k] = res\n            op_err[l, k] = err", "            op_res[k, l] = res\n            op_err[k, l] = err", expect="C01.vector")
M("c01-err-val-swap", "C01", CVF, "        ls.append(c)\n        els.append(e)", "        ls.append(e)\n        els.append(c)", expect="C01")
M("c01-intrinsic-point", "C01", CFD + "intrinsic/partonic_channel.py", "        return self.x / self.eta", "        return self.x", expect=None)
B("c01-inplace-factor", "C01", "esf/esf.py", "                val, err = convolution_point * val, convolution_point * err", "                val = val * convolution_point\n                err = err * convolution_point")
B("c01-rename-quad-args", "C01", CVF, "            quad_args = (*quad_args, *reg_args)\n            quad_ker = quad_ker_reg", "            quad_args = quad_args + reg_args\n            quad_ker = quad_ker_reg")

# ----------------------------------------------------------------------------- C17
RSF = "esf/result.py"
OUF = "output.py"
M("c17-entry-wrong-card", "C17", "output.py", "        return self.apply_pdf_theory(lhapdf_like, self.theory)", "        return self.apply_pdf_theory(lhapdf_like, self.observables)", expect="C17.entry")
M("c17-masked-inverted", "C17", "output.py", "return self.parent.xfxQ2(pid, x, Q2) if pid in self.active_pids else 0.0", "return self.parent.xfxQ2(pid, x, Q2) if abs(pid) in self.active_pids else 0.0", expect="C17.entry")
B("c17-masked-early-return", "C17", "output.py", "        return self.parent.xfxQ2(pid, x, Q2) if pid in self.active_pids else 0.0", "        if pid not in self.active_pids:\n            return 0.0\n        return self.parent.xfxQ2(pid, x, Q2)")
M("c17-swap-log-index", "C17", RSF, "            lnF = 1.0 if o[3] == 0 else (np.log((1 / xiF) ** 2)) ** o[3]\n            lnR = 1.0 if o[2] == 0 else (np.log((1 / xiR) ** 2)) ** o[2]", "            lnF = 1.0 if o[2] == 0 else (np.log((1 / xiF) ** 2)) ** o[2]\n            lnR = 1.0 if o[3] == 0 else (np.log((1 / xiR) ** 2)) ** o[3]", expect="C17.formula")
M("c17-no-over-z", "C17", RSF, "lhapdf_like.xfxQ2(pid, z, muF2) / z for z in xgrid", "lhapdf_like.xfxQ2(pid, z, muF2) for z in xgrid", expect="C17.formula")
M("c17-muf-xir", "C17", RSF, "        muF2 = self.Q2 * xiF**2", "        muF2 = self.Q2 * xiR**2", expect="C17.formula")
M("c17-as-norm", "C17", RSF, "        a_s = alpha_s(np.sqrt(self.Q2) * xiR) / (4 * np.pi)", "        a_s = alpha_s(np.sqrt(self.Q2) * xiR) / (2 * np.pi)", expect="C17.formula")
M("c17-as-scale", "C17", RSF, "        a_s = alpha_s(np.sqrt(self.Q2) * xiR) / (4 * np.pi)", "        a_s = alpha_s(np.sqrt(self.Q2) * xiF) / (4 * np.pi)", expect="C17.formula")
M("c17-log-sign", "C17", RSF, "(np.log((1 / xiF) ** 2)) ** o[3]", "(np.log((xiF) ** 2)) ** o[3]", expect="C17.formula")
M("c17-err-uses-values", "C17", RSF, '            err += prefactor * np.einsum("aj,aj", e, pdfs, optimize="optimal")', '            err += prefactor * np.einsum("aj,aj", v, pdfs, optimize="optimal")', expect="C17.formula")
M("c17-missing-flavor-queried", "C17", RSF, "            if not lhapdf_like.hasFlavor(pid):\n                continue\n", "", expect="C17.formula")
M("c17-xs-drops-y", "C17", RSF, '        res["y"] = self.y\n', "", expect="EXSResult")
M("c17-args-swapped", "C17", OUF, '            lhapdf_like, alpha_s, alpha_qed, theory["XIR"], theory["XIF"]', '            lhapdf_like, alpha_s, alpha_qed, theory["XIF"], theory["XIR"]', expect="C17.alphas")
M("c17-ffns-nf", "C17", OUF, 'alpha_s = lambda muR: sc.a_s(muR**2, nf_to=theory["NfFF"]) * 4.0 * np.pi', 'alpha_s = lambda muR: sc.a_s(muR**2, nf_to=theory["nfref"]) * 4.0 * np.pi', expect="C17.alphas")
M("c17-scheme-substring", "C17", OUF, '        if "FFNS" in fns or "FFN0" in fns:', '        if fns == "FFNS" or fns == "FFN0":', expect="FONLL")
M("c17-4pi", "C17", OUF, 'alpha_s = lambda muR: sc.a_s(muR**2, nf_to=theory["NfFF"]) * 4.0 * np.pi', 'alpha_s = lambda muR: sc.a_s(muR**2, nf_to=theory["NfFF"]) * 2.0 * np.pi', expect="C17.alphas")
M("c17-routing-order", "C17", OUF, '                        lhapdf_like, self["pids"], xgrid, alpha_s, alpha_qed, xiR, xiF\n', '                        lhapdf_like, self["pids"], xgrid, alpha_s, alpha_qed, xiF, xiR\n', expect="C17.args")
M("c17-atlas-origin", "C17", OUF, '            origin=(theory["Qref"] ** 2, theory["nfref"]),', '            origin=(theory["Qref"], theory["nfref"]),', expect="C17.alphas")
B("c17-power-spelling", "C17", RSF, "            lnF = 1.0 if o[3] == 0 else (np.log((1 / xiF) ** 2)) ** o[3]", "            lnF = (-2.0 * np.log(xiF)) ** o[3]")
B("c17-prefactor-order", "C17", RSF, "            prefactor = (a_s ** o[0]) * (alph_qed ** o[1]) * lnR * lnF", "            prefactor = lnF * lnR * (alph_qed ** o[1]) * (a_s ** o[0])")

# ----------------------------------------------------------------------------- C20
CPF = "input/compatibility.py"
M("c20-no-copy", "C20", CPF, "    new_theory = theory.copy()", "    new_theory = theory", expect="C20.inputs")
M("c20-obs-no-copy", "C20", CPF, "    new_obs = observables.copy()", "    new_obs = observables", expect="C20.inputs")
M("c20-nested-target-write", "C20", "runner.py", "        self.observables = {}\n        for obs_name, kins in", "        new_observables[\"TargetDIS\"][\"Z\"] = float(new_observables[\"TargetDIS\"][\"Z\"]) * 1.0\n        observables[\"prDIS\"] = new_observables[\"prDIS\"].upper()\n        self.observables = {}\n        for obs_name, kins in", expect="C20.inputs")
M("c20-kin-sort", "C20", "sf.py", "        self.esfs = []\n        # iterate F* configurations\n        for kinematics in kinematic_configs:", "        self.esfs = []\n        kinematic_configs.sort(key=lambda k: k[\"Q2\"])\n        # iterate F* configurations\n        for kinematics in kinematic_configs:", expect="C20.inputs")
M("c20-kin-write", "C20", "esf/esf.py", "        self.x = x\n        self.Q2 = kinematics[\"Q2\"]\n        self.nf = None", "        self.x = x\n        self.Q2 = kinematics[\"Q2\"]\n        kinematics[\"nf\"] = None\n        self.nf = None", expect="C20.inputs")
M("c20-kin-pop-y", "C20", "esf/exs.py", "        self.y = kin[\"y\"]", "        self.y = kin.pop(\"y\")", expect="C20.inputs")
M("c20-echo-upgraded", "C20", "runner.py", "        self._output.theory = theory\n", "        self._output.theory = new_theory\n", expect="C20.inputs")
M("c20-echo-obs-upgraded", "C20", "runner.py", "        self._output.observables = observables\n", "        self._output.observables = new_observables\n", expect="C20.inputs")
M("c20-results-sorted-order", "C20", "runner.py", "                    results[idx] = elem.get_result()", "                    results[results.index(None)] = elem.get_result()", expect="C20.inputs")
M("c20-not-idempotent", "C20", CPF, '    if "QED" in new_theory:\n        new_theory["order"] = (new_theory["PTO"] + 1, new_theory.pop("QED"))', '    if "QED" in new_theory:\n        new_theory["order"] = (new_theory["PTO"] + 1, new_theory.pop("QED"))\n    new_theory["PTO"] = new_theory["PTO"] + 0\n    new_theory["kcThr"] = new_theory["kcThr"] * 2', expect="idempotent")
M("c20-projectile-echo", "C20", "runner.py", '        self._output["projectilePID"] = coupling_constants.obs_config["projectilePID"]', '        self._output["projectilePID"] = abs(coupling_constants.obs_config["projectilePID"])', expect="projectilePID")
B("c20-deepcopy-then-mutate", "C20", CPF, "    new_theory = theory.copy()", "    import copy as _copy\n\n    new_theory = _copy.deepcopy(theory)")
B("c20-rename-newobs", "C20", CPF, "    new_obs = observables.copy()\n    update_fns(new_theory)\n    update_scale_variations(new_theory)\n    update_target(new_obs)", "    upgraded = dict(observables)\n    update_fns(new_theory)\n    update_scale_variations(new_theory)\n    update_target(upgraded)\n    new_obs = upgraded")

# ----------------------------------------------------------------------------- C14
M("c14-key-no-tmc-flag", "C14", "sf.py", "            key.append(use_tmc_if_available)\n", "", expect="C14.history")
M("c14-key-x-only", "C14", "sf.py", "            key = list(kinematics.values())\n", "            key = [kinematics[\"x\"]]\n", expect="C14.history")
B("c14-no-drop-cache", "C14", "runner.py", "                    if Q2 is not None and Q2 != elem.Q2:\n                        self.drop_cache()\n", "")
M("c14-no-deepcopy-esf", "C14", "esf/esf.py", "        return copy.deepcopy(self.res)", "        return self.res", expect="C14.history")
M("c14-append-sorted", "C14", "runner.py", "                    results[idx] = elem.get_result()", "                    results[results.index(None)] = elem.get_result()", expect="C14.history")
M("c14-sv-cache-label-only", "C14", "esf/scale_variations.py", "                if (l, nf) in self.operators:\n                    logger.debug(\"using cached %s\", l)\n                    continue", "                if any(k[0] == l for k in self.operators):\n                    logger.debug(\"using cached %s\", l)\n                    continue", expect=None)
M("c14-module-accumulator", "C14", "esf/esf.py", "        self._computed = True\n", "        self._computed = True\n        _SEEN.append(self.x)\n        for o in self.res.orders:\n            self.res.orders[o][0] = self.res.orders[o][0] * len(_SEEN)\n", expect="C14.history",
  more=[("esf/esf.py", "logger = logging.getLogger(__name__)\n", "logger = logging.getLogger(__name__)\n_SEEN = []\n")])
M("c01-res-shared-zeros", "C01", "esf/esf.py", "        for o in full_orders:\n            self.res.orders[o] = [self.zeros, self.zeros]", "        z = self.zeros\n        for o in full_orders:\n            self.res.orders[o] = [z, z]", expect=None)
B("c14-key-tuple-direct", "C14", "sf.py", "            key = list(kinematics.values())\n            use_tmc_if_available = not use_raw and self.runner.configs.TMC != 0\n            key.append(use_tmc_if_available)\n            key = tuple(key)", "            use_tmc_if_available = not use_raw and self.runner.configs.TMC != 0\n            key = (*kinematics.values(), use_tmc_if_available)")

# ----------------------------------------------------------------------------- C04
NLF = CFD + "light/nlo/"
M("c04-f2-reg-4z", "C04", NLF + "f2.py", "        + 6 + 4 * z\n", "        + 6 + 2 * z\n", expect="C04")
M("c04-ns-omx-sign", "C04", NLF + "f2.py", "ns_omx = -3 * CF", "ns_omx = 3 * CF", expect="C04.nlo")
M("c04-ns-logomx", "C04", NLF + "f2.py", "ns_logomx = 4 * CF", "ns_logomx = 2 * 4 * CF", expect="C04.nlo")
M("c04-ns-delta", "C04", NLF + "f2.py", "ns_delta = -CF * (9 + 4 * zeta_2)", "ns_delta = -CF * (9 + 2 * zeta_2)", expect="C04")
M("c04-fl-gluon", "C04", NLF + "fl.py", "    return nf * TR * 16 * z * (1.0 - z)", "    return nf * TR * 8 * z * (1.0 - z)", expect="fl_nc::Gluon")
M("c04-f3-shift", "C04", NLF + "f3.py", "    return f2.ns_reg(z, args) - 2 * CF * (1 + z)", "    return f2.ns_reg(z, args) - 2 * CF * (1 - z)", expect="f3_nc::NonSinglet")
M("c04-g1-gluon", "C04", NLF + "g1.py", "((2.0 * z - 1.0) * np.log((1.0 - z) / z) - 4.0 * z + 3.0)", "((2.0 * z - 1.0) * np.log((1.0 - z) / z) - 4.0 * z + 2.0)", expect="g1_nc::Gluon")
M("c04-f2-gluon", "C04", NLF + "f2.py", "            + 16.0 * z * (1.0 - z)\n", "            + 8.0 * z * (1.0 - z)\n", expect="f2_nc::Gluon")
M("c04-c3ns3b-only", "C04", CFD + "light/n3lo/xc3ns3p.py", "        + 5.01099e2 * dl1**3", "        + 5.11099e2 * dl1**3", expect="C04.soft")
M("c04-nnlo-reg-digit", "C04", CFD + "light/nnlo/xc3ns2p.py", "res = - 206.1 - 576.8 * y - 3.922 * dl**3", "res = - 206.1 - 567.8 * y - 3.922 * dl**3", expect="C04.mom")
M("c04-n3lo-reg-digit", "C04", CFD + "light/n3lo/xc3ns3p.py", "        - 496.95 * dl**3\n        - 1488.0 * dl**2", "        - 469.95 * dl**3\n        - 1488.0 * dl**2", expect="C04.mom")
M("c04-adler-nnlo", "C04", CFD + "light/nnlo/xc2ns2p.py", "- 338.531 + 0.537 + nf", "- 338.531 + 0.637 + nf", expect="Adler")
B("c04-reorder", "C04", NLF + "f2.py", "        + 6 + 4 * z\n", "        + 4 * z + 6\n")
B("c04-f3-inline", "C04", NLF + "f3.py", "    return f2.ns_reg(z, args) - 2 * CF * (1 + z)", "    shift = 2 * CF * (1 + z)\n    return f2.ns_reg(z, args) - shift")

# ----------------------------------------------------------------------------- C08
M("c08-delete-asy-nnlo", "C08", CFD + "asy/f2_nc.py", "class AsyNLLGluon(AsyGluon):\n    def NLO(self):\n        def cg_NLL_NLO(z, _args):\n            return raw_nc.c2g1am0_a0(z)\n\n        return RSL(cg_NLL_NLO, args=[self.L])\n\n    def NNLO(self):", "class AsyNLLGluon(AsyGluon):\n    def NLO(self):\n        def cg_NLL_NLO(z, _args):\n            return raw_nc.c2g1am0_a0(z)\n\n        return RSL(cg_NLL_NLO, args=[self.L])\n\n    def NNLO_disabled(self):", expect=None)
M("c08-fl-adler-back", "C08", CFD + "heavy/fl_nc.py", "        return RSL(dq)\n", "        return RSL(dq, loc=lambda _x, _args: -LeProHQ.Adler(\"FL\", \"VV\", self._xi))\n", expect="C08.local")
M("c08-f2-adler-gone", "C08", CFD + "heavy/f2_nc.py", "        return RSL(dq, loc=Adler)", "        return RSL(dq)", expect="C08.local")
B("c08-f2-adler-named", "C08", CFD + "heavy/f2_nc.py", "        return RSL(dq, loc=Adler)", "        virtual = Adler\n        return RSL(dq, None, virtual)")
M("c08-rename-asy-class", "C08", CFD + "asy/f2_nc.py", "class AsyNNLLSinglet(AsySinglet):", "class AsyN2LLSinglet(AsySinglet):", expect="C08.support")
M("c08-asy-ll-only", "C08", CFD + "asy/kernels.py", "                for res in range(pto_evol + 1):\n                    name = \"Asy\" + (\"N\" * res) + \"LL\" + channel", "                for res in range(1):\n                    name = \"Asy\" + (\"N\" * res) + \"LL\" + channel", expect=None)
M("c08-asy-weights", "C08", CFD + "asy/kernels.py", "        asy_weights = heavy.kernels.nc_weights(\n            esf.info.coupling_constants,\n            esf.Q2,\n            nf,\n            ihq,\n            is_pv,\n        )", "        asy_weights = heavy.kernels.nc_weights(\n            esf.info.coupling_constants,\n            esf.Q2,\n            nf,\n            ihq + 1 if ihq < 6 else ihq,\n            is_pv,\n        )", expect="C08.support")
M("c08-asy-cc-gluon-dropped", "C08", CFD + "asy/kernels.py", "            kernels.Kernel(wa[\"g\"], asy_cfs.AsyGluon(esf, nf, m2hq=m2hq)),\n", "", expect="C08.support")
M("c08-asy-intrinsic-missing", "C08", CFD + "__init__.py", "            if \"FFN0\" in self.scheme:\n                heavy_comps[sfh].extend(\n                    asy.kernels.generate_intrinsic_asy(\n                        self.esf, nf, self.esf.info.theory[\"pto_evol\"], ihq=sfh\n                    ),\n                )\n            else:", "            if \"FFN0\" in self.scheme:\n                pass\n            else:", expect="C08.support")
M("c08-missing-asy-skipped", "C08", CFD + "__init__.py", "                if \"FFN0\" in self.scheme:\n                    comp.extend(\n                        asy.kernels.generate_missing_asy(\n                            self.esf,\n                            nf,\n                            ihq,\n                            self.esf.info.theory[\"pto_evol\"],\n                        )\n                    )\n                else:", "                if \"FFN0\" in self.scheme:\n                    pass\n                else:", expect="C08.support")
M("c08-asy-extra-singlet-lo", "C08", CFD + "asy/f2_nc.py", "class AsyLLSinglet(AsySinglet):\n    def NNLO(self):", "class AsyLLSinglet(AsySinglet):\n    def NLO(self):\n        def cps_LL_NLO(z, args):\n            return raw_nc.c2g1am0_aq(z) * args[0]\n\n        return RSL(cps_LL_NLO, args=[self.L])\n\n    def NNLO(self):", expect="C08.support")
B("c08-rename-local", "C08", CFD + "asy/kernels.py", "    asys = []\n    for res in range(pto_evol + 1):\n        name = \"Asy\" + (\"N\" * res) + \"LL\" + \"NonSinglet\"", "    asys = []\n    for res in range(pto_evol + 1):\n        name = \"\".join([\"Asy\", \"N\" * res, \"LL\", \"NonSinglet\"])")
M("c08-skip-heavylight-revert", "C08", CFD + "asy/kernels.py", "        nf,\n        esf.info.obs_name.is_parity_violating,\n    )\n    if icoupl is not None:\n        weights[\"ns\"] = {k: v for k, v in weights[\"ns\"].items() if abs(k) == icoupl}\n\n    kind = esf.info.obs_name.kind\n    asy_cfs", "        nf,\n        esf.info.obs_name.is_parity_violating,\n        skip_heavylight=True,\n    )\n    if icoupl is not None:\n        weights[\"ns\"] = {k: v for k, v in weights[\"ns\"].items() if abs(k) == icoupl}\n\n    kind = esf.info.obs_name.kind\n    asy_cfs", expect="C08.support")

# ----------------------------------------------------------------------------- C15
M("c15-drop-errors", "C15", RSF, '                np.array(e["values"]),\n                np.array(e["errors"]),', '                np.array(e["values"]),\n                np.array(e["values"]),', expect="C15.roundtrip")
M("c15-rename-q2", "C15", RSF, "        d = dict(x=float(self.x), Q2=float(self.Q2), nf=nf, orders=[])", "        d = dict(x=float(self.x), q2=float(self.Q2), nf=nf, orders=[])", expect="C15.roundtrip")
M("c15-tar-vals-key", "C15", OUF, '                    for kin, val, err in zip(kinematics, op["values"], op["errors"]):', '                    for kin, val, err in zip(kinematics, op["errors"], op["values"]):', expect="C15.roundtrip")
M("c15-float32", "C15", OUF, "                        values=np.array(values),\n", "                        values=np.array(values, dtype=np.float32),\n", expect="C15.roundtrip")
M("c15-round", "C15", RSF, "                dict(order=list(o), values=v.tolist(), errors=e.tolist())", "                dict(order=list(o), values=[[round(c, 12) for c in r] for r in v.tolist()], errors=e.tolist())", expect="C15.roundtrip")
M("c15-xs-loses-y", "C15", RSF, '        d["y"] = float(self.y)\n', "", expect="C15.roundtrip")
M("c15-empty-revert", "C15", OUF, '                ESFResult if len(obj[obs]) == 0 or "y" not in obj[obs][0] else EXSResult', '                ESFResult if "y" not in obj[obs][0] else EXSResult', expect="C15.roundtrip")
M("c15-grid-revert", "C15", OUF, '            out[k]["grid"] = np.array(self[k]["grid"]).tolist()', '            out[k]["grid"] = self[k]["grid"]', expect="C15.roundtrip")
M("c15-tar-order-sort", "C15", OUF, "                    metadata[metafield] = dict(\n                        orders=orders_first, kinematics=kinematics\n                    )", "                    metadata[metafield] = dict(\n                        orders=sorted(orders_first, reverse=True), kinematics=kinematics\n                    )", expect="C15.roundtrip")
M("c15-yaml-drops-theory", "C15", OUF, '        out["theory"] = self.theory\n', '        out["theory"] = None\n', expect="C15.roundtrip")
M("c15-tar-runcards-swapped", "C15", OUF, '            out.theory = yaml.safe_load((runcards / "theory.yaml").read_text())\n            out.observables = yaml.safe_load(\n                (runcards / "observables.yaml").read_text()\n            )', '            out.observables = yaml.safe_load((runcards / "theory.yaml").read_text())\n            out.theory = yaml.safe_load(\n                (runcards / "observables.yaml").read_text()\n            )', expect="C15.roundtrip")
M("c15-nf-float", "C15", RSF, "            nf = int(self.nf)", "            nf = int(self.nf) + 1", expect="C15.roundtrip")
M("c15-none-dropped", "C15", OUF, "        for f in self:\n            out[f] = copy.copy(self[f])\n", "        for f in self:\n            if self[f] is None:\n                continue\n            out[f] = copy.copy(self[f])\n", expect="C15.roundtrip")
M("c15-filter-asym", "C15", OUF, "            for metafield, metavalue in metadata.items():\n                if not on.ObservableName.is_valid(metafield) or metavalue is None:", "            for metafield, metavalue in metadata.items():\n                if metafield not in on.kinds or metavalue is None:", expect="C15.roundtrip")
B("c15-listcomp", "C15", RSF, "        for o, (v, e) in self.orders.items():\n            d[\"orders\"].append(\n                dict(order=list(o), values=v.tolist(), errors=e.tolist())\n            )\n        return d", "        d[\"orders\"] = [dict(order=list(o), values=v.tolist(), errors=e.tolist()) for o, (v, e) in self.orders.items()]\n        return d")


# ----------------------------------------------------------------------------- independently seeded regressions (/verif/seeded/<id>/patch.diff)
def _hunks(diff_text):
    """Unified diff -> [(file relative to src/yadism, old block, new block, first line of the hunk)] per hunk."""
    import re

    out, file, old, new, start = [], None, None, None, None

    def flush():
        if file and old is not None and (old or new) and old != new:
            out.append((file, "".join(old), "".join(new), start))

    for line in diff_text.splitlines(keepends=True):
        if line.startswith("+++ "):
            flush()
            path = line[4:].strip()
            path = path[2:] if path.startswith("b/") else path
            file = path.split("src/yadism/", 1)[1] if "src/yadism/" in path else None
            old = new = None
        elif line.startswith("--- ") or line.startswith("diff ") or line.startswith("index "):
            continue
        elif line.startswith("@@"):
            flush()
            old, new = [], []
            m = re.match(r"@@ -(\d+)", line)
            start = int(m.group(1)) if m else None
        elif old is not None:
            if line.startswith("-"):
                old.append(line[1:])
            elif line.startswith("+"):
                new.append(line[1:])
            elif line.startswith(" ") or line == "\n":
                old.append(line[1:] if line.startswith(" ") else line)
                new.append(line[1:] if line.startswith(" ") else line)
    flush()
    return out


def _seeded():
    import json
    import pathlib

    root = pathlib.Path(__file__).resolve().parent.parent.parent / "seeded"
    for d in sorted(root.glob("*/")):
        meta, patch = d / "meta.json", d / "patch.diff"
        if not (meta.exists() and patch.exists()):
            continue
        m = json.loads(meta.read_text())
        if m.get("kind") == "benign":
            # a behaviour-preserving refactoring delivered by an independent agent: every listed check must stay silent on it
            edits = _hunks(patch.read_text())
            for prop in m.get("selftest_properties", []):
                CORPUS.append(dict(id=f"refactor-{d.name}-{prop}", prop=prop, kind="B", edits=edits, expect=None))
            continue
        if m.get("selftest") == "excluded":
            continue  # a recorded miss (see meta.json / DESIGN.md): kept for the record, not part of the kill count
        edits = _hunks(patch.read_text())
        if edits:
            CORPUS.append(dict(id=f"seeded-{d.name}", prop=m.get("selftest_property", m["property"]), kind="M", edits=edits, expect=m.get("expect")))


_seeded()


# ----------------------------------------------------------------------------- twins / mutants added with the round-2 strengthenings
B("c09-zmax-form", "C09", CFD + "heavy/partonic_channel.py", "        shat = self.ESF.Q2 * (1 - z) / z\n        return shat <= 4 * self.m2hq",
  "        zmax = self.ESF.Q2 / (self.ESF.Q2 + 4.0 * self.m2hq)\n        return z >= zmax")
B("c18-float-negative-power", "C18", CFD + "special/nielsen.py", "    return (B0-H*B2)*X**M/(FCT[M]*M**N)", "    return (B0-H*B2)*X**M*float(M)**(-N)/FCT[M]")
B("c06-nf-local-alias", "C06", CFD + "__init__.py", "            heavylight.extend(kernels.generate_single_flavor_light(self.esf, nf, hq))",
  "            active = nf\n            heavylight.extend(kernels.generate_single_flavor_light(self.esf, active, hq))")
M("c06-light-nf-minus-one", "C06", CFD + "__init__.py", "        comp.extend(light.kernels.generate(self.esf, nf))", "        comp.extend(light.kernels.generate(self.esf, nf - 1))", expect="C06.flow")
B("c20-get-with-default", "C20", CFD + "coupling_constants.py", '        MW = theory.get("MW")', '        MW = theory.get("MW", None)')
M("c20-pop-optional", "C20", CFD + "coupling_constants.py", '            "MZ2": theory.get("MZ", 91.1876)', '            "MZ2": theory.pop("MZ", 91.1876)', expect="C20.inputs")
B("c15-xs-test-by-list", "C15", "output.py", 'ESFResult if len(obj[obs]) == 0 or "y" not in obj[obs][0] else EXSResult',
  'EXSResult if len(obj[obs]) > 0 and "y" in obj[obs][0] else ESFResult')
M("c08-asy-missing-mass", "C08", CFD + "asy/kernels.py", "    m2hq = esf.info.m2hq[ihq - 4]\n    asys = []\n    for res in range(pto_evol + 1):\n        name = \"Asy\" + (\"N\" * res) + \"LL\" + \"NonSinglet\"",
  "    m2hq = esf.info.m2hq[nf - 3]\n    asys = []\n    for res in range(pto_evol + 1):\n        name = \"Asy\" + (\"N\" * res) + \"LL\" + \"NonSinglet\"", expect="C08.mass")
M("c09-missing-mass", "C09", CFD + "heavy/kernels.py", "    m2hq = esf.info.m2hq[ihq - 4]\n    return (kernels.Kernel(weights[\"ns\"], pcs.NonSinglet(esf, nf, m2hq=m2hq)),)",
  "    m2hq = esf.info.m2hq[nf - 3]\n    return (kernels.Kernel(weights[\"ns\"], pcs.NonSinglet(esf, nf, m2hq=m2hq)),)", expect="C09.mass")
M("c10-shared-shift", "C10", "esf/tmc.py", '        self._shifted_kinematics = {"x": self.xi, "Q2": self.Q2}', '        self._shifted_kinematics = kinematics\n        self._shifted_kinematics["x"] = self.xi', expect="C10.shared")


# ----------------------------------------------------------------------------- process-state rule (memo keys), twins
B("state-complete-instance-memo", "C02", CFD + "coupling_constants.py", "    def get_weight(self, pid, Q2, quark_coupling_type, cc_mask=None):",
  "    def get_weight_cached(self, pid, Q2, quark_coupling_type, cc_mask=None):\n        key = (pid, Q2, quark_coupling_type, cc_mask)\n        if not hasattr(self, \"_memo\"):\n            self._memo = {}\n        if key not in self._memo:\n            self._memo[key] = self.get_weight(pid, Q2, quark_coupling_type, cc_mask)\n        return self._memo[key]\n\n    def get_weight(self, pid, Q2, quark_coupling_type, cc_mask=None):")
M("state-class-level-operators", "C14", "esf/scale_variations.py", "        self.operators = {}\n", "        pass\n", expect="C14.state",
  more=[("esf/scale_variations.py", "class ScaleVariations:\n", "class ScaleVariations:\n    operators = {}\n")])
B("state-module-memo-complete", "C14", CFD + "heavy/n3lo/__init__.py", "    grid_name = f\"{coeff}_nf{int(nf)}_var{int(variation)}.npy\"", "    grid_name = \"%s_nf%d_var%d.npy\" % (coeff, int(nf), int(variation))")
M("state-module-memo-stale", "C14", CFD + "heavy/n3lo/__init__.py", "    if grid_name in interpolators:\n        return interpolators[grid_name]", "    key = f\"{coeff}_nf{int(nf)}\"\n    if key in interpolators:\n        return interpolators[key]", expect="C14.state",
  more=[(CFD + "heavy/n3lo/__init__.py", "    interpolators[grid_name] = grid_interpolator", "    interpolators[key] = grid_interpolator")])
M("c15-pids-revert", "C15", OUF, '        out["pids"] = np.array(self["pids"]).tolist()', '        out["pids"] = list(self["pids"])', expect="C15.roundtrip")
M("c15-tar-dict-revert", "C15", OUF, "                    if isinstance(metavalue, dict):\n                        # e.g. the grid of an output loaded from YAML is an array\n                        metadata[metafield] = {\n                            k: np.array(v).tolist() for k, v in metavalue.items()\n                        }\n                    else:\n                        metadata[metafield] = np.array(metavalue).tolist()", "                    metadata[metafield] = np.array(metavalue).tolist()", expect="C15.roundtrip")

# ----------------------------------------------------------------------------- twins for the round-5 strengthenings
B("c04-series-near-one-correct", "C04", CFD + "light/nlo/f2.py",
  "    return CF*(\n        - 2 * (1 + z) * np.log((1 - z) / z)\n        - 4 * np.log(z) / (1 - z)\n        + 6 + 4 * z\n    )",
  "    omz = 1.0 - z\n    if omz < 1e-5:\n        lnz_omz = -(1.0 + omz / 2.0 + omz**2 / 3.0)\n    else:\n        lnz_omz = np.log(z) / omz\n    return CF*(\n        - 2 * (1 + z) * np.log(omz / z)\n        - 4 * lnz_omz\n        + 6 + 4 * z\n    )")
B("c06-inlined-count-right", "C06", CFD + "__init__.py", "        self.nf = nf_default(esf.Q2, esf.info.threshold)",
  "        self.nf = 2 + int(np.searchsorted(esf.info.threshold.walls, esf.Q2, side=\"right\"))")
M("c06-inlined-count-left", "C06", CFD + "__init__.py", "        self.nf = nf_default(esf.Q2, esf.info.threshold)",
  "        self.nf = 2 + int(np.searchsorted(esf.info.threshold.walls, esf.Q2))", expect="C06.boundary")
B("c02-drop-empty-exact", "C02", CFD + "__init__.py", "if w != 0}", "if not (w == 0)}")
B("c18-callers-empty-array", "C18", CFD + "asy/f2_cc.py", "split.lo.pqg_single(z, np.array([], dtype=float))", "split.lo.pqg_single(z, np.zeros(0))")
