"""Static model of a whole yadism run, obtained by *folding the repository's own
source* (Runner.__init__, compatibility.update, SF/XS.load, Combiner, generators)
for one cell of the documented configuration lattice.

Configuration values (FNS, NfFF, PTO, process, observable name, TMC, ...) are
the literals of the cell; numeric inputs (masses, couplings, kinematics, grid
nodes) are symbols.  eko/rich/logging objects are inert records.
"""

from __future__ import annotations

import ast
from fractions import Fraction

from . import algebra as A
from . import symeval as S
from .algebra import Undecided

GRID_N = 2  # number of symbolic grid nodes of the model interpolator


class Cell:
    """One configuration of the lattice."""

    def __init__(self, obs="F2_total", process="NC", fns="ZM-VFNS", nfff=4, pto=1, pto_evol=None, tmc=0,
                 projectile="electron", target="proton", fonllparts=None, nf=None, ren_sv=True, fact_sv=True,
                 n3lo_var=0, pos_charge=None, kin_y=False, legacy_ptodis=True, kin_x=None, shared_before=(), kin_q2=None, theory_overrides=None, kin_order=None, points=None):
        self.obs = obs
        self.process = process
        self.fns = fns
        self.nfff = nfff
        self.pto = pto
        self.pto_evol = pto if pto_evol is None else pto_evol
        self.tmc = tmc
        self.projectile = projectile
        self.target = target
        self.fonllparts = fonllparts
        self.nf = nf  # flavour number used where thresholds are symbolic (ZM-VFNS)
        self.ren_sv = ren_sv
        self.fact_sv = fact_sv
        self.n3lo_var = n3lo_var
        self.pos_charge = pos_charge
        self.kin_y = kin_y
        self.legacy_ptodis = legacy_ptodis
        self.kin_x = kin_x  # override of the requested x (a normal form), default the symbol xB
        self.shared_before = tuple(shared_before)  # observables requested before cell.obs with the *same* kinematics list object
        self.kin_q2 = kin_q2  # override of the requested Q2 (a concrete number), default the symbol Q2
        self.theory_overrides = dict(theory_overrides or {})  # concrete theory-card entries (e.g. masses for threshold-boundary cells)
        self.kin_order = kin_order  # order in which the keys of a kinematic point are written (a mapping: any order is the same request)
        self.points = points  # explicit (concrete) kinematic points of cell.obs, evaluated in the runner's order; the LAST one is the point folded

    def label(self):
        return (f"{self.obs}|{self.process}|{self.fns}|NfFF={self.nfff}|PTO={self.pto}|PTOevol={self.pto_evol}|TMC={self.tmc}"
                f"|{self.projectile}|{self.target}|parts={self.fonllparts}|nf={self.nf}" + ("|real weights" if getattr(self, "full_weights", False) else ""))


def theory_card(cell):
    s = A.sym
    t = {
        "PTO": cell.pto_evol,
        "PTODIS": cell.pto,
        "FNS": cell.fns,
        "NfFF": cell.nfff,
        "nf0": 3,
        "Q0": s("Q0", True),
        "mc": s("mc", True),
        "mb": s("mb", True),
        "mt": s("mt", True),
        "kcThr": s("kcThr", True),
        "kbThr": s("kbThr", True),
        "ktThr": s("ktThr", True),
        "MP": s("MP", True),
        "TMC": cell.tmc,
        "RenScaleVar": cell.ren_sv,
        "FactScaleVar": cell.fact_sv,
        "CKM": [s(f"V{r}{c}", True) for r in "uct" for c in "dsb"],
        "MW": s("MW", True),
        "MZ": s("MZ", True),
        "SIN2TW": s("s2w", True),
        "GF": s("GF", True),
        "FONLLParts": cell.fonllparts,
        "n3lo_cf_variation": cell.n3lo_var,
        "ModEv": "EXA",
        "XIR": s("xiR", True),
        "XIF": s("xiF", True),
        "alphaqed": s("alphaqed", True),
        "Qref": s("Qref", True),
        "nfref": 5,
        "alphas": s("alphas_ref", True),
    }
    t.update(cell.theory_overrides)
    return t


def observables_card(cell, n_points=1):
    s = A.sym
    kins = []
    for i in range(n_points):
        k = {"x": s("xB" if i == 0 else f"xB{i}", True), "Q2": s("Q2" if i == 0 else f"Q2_{i}", True)}
        if i == 0 and cell.kin_x is not None:
            k["x"] = cell.kin_x
        if i == 0 and cell.kin_q2 is not None:
            k["Q2"] = cell.kin_q2
        if cell.kin_y:
            k["y"] = s("y" if i == 0 else f"y{i}", True)
        if cell.kin_order:
            k = {name: k[name] for name in cell.kin_order if name in k}
        kins.append(k)
    if cell.points:
        kins = [dict(p_) for p_ in cell.points]
    o = {
        "interpolation_xgrid": [s(f"xg{j}", True) for j in range(GRID_N)],
        "interpolation_is_log": True,
        "interpolation_polynomial_degree": 2,
        "prDIS": cell.process,
        "TargetDIS": cell.target,
        "ProjectileDIS": cell.projectile,
        "PolarizationDIS": s("pol"),
        "PropagatorCorrection": s("dprop"),
        "NCPositivityCharge": cell.pos_charge,
        "observables": {**{name: kins for name in cell.shared_before}, cell.obs: kins},
    }
    return o


# ---- inert records for eko objects -------------------------------------------
def _xgrid(ev, xgrid, log=True, **kw):  # parameter names are eko's: callers may pass keywords
    grid = xgrid
    """eko.interpolation.XGrid: the points are passed through np.unique (sorted, duplicates rejected, fewer than two rejected).
    Concrete grids are sorted here as eko does; symbolic nodes xg0 < xg1 < ... are ascending by assumption."""
    pts = [S.num_norm(g) for g in (grid.data if isinstance(grid, S.Arr) else grid)]
    if all(isinstance(g, (int, Fraction)) for g in pts):
        u = sorted(set(pts))
        if len(u) != len(pts):
            raise S.Raised("ValueError", f"xgrid is not unique: {pts}", None)
        pts = u
    if len(pts) < 2:
        raise S.Raised("ValueError", f"xgrid needs at least 2 points, received {len(pts)}", None)
    o = S.record("XGrid", raw=list(pts), log=log, size=len(pts))
    o.store["__list__"] = list(pts)
    return o


def _interpolator(ev, xgrid, polynomial_degree, mode_N=True, **kw):
    degree = polynomial_degree
    below_calls = []

    def mk_below(j):
        def is_below_x(x):
            below_calls.append((j, S.num_norm(x)))
            return False  # the analysed path is the one on which the basis function contributes

        return S._NativeFn(is_below_x)

    # a basis function is callable: its value at a point is the inert atom basis_at(j, point)
    basis = [S.record(f"bf{j}", poly_number=j, is_below_x=mk_below(j), __call__=S._NativeFn(lambda x, j=j: A.opaque("basis_at", (j, S.num_norm(x)))))
             for j in range(len(xgrid.attrs["raw"]))]
    o = S.record("InterpolatorDispatcher", xgrid=xgrid, degree=degree, _below_calls=below_calls)
    o.store["__list__"] = basis
    o.attrs["to_dict"] = S._NativeFn(lambda: {"xgrid": {"grid": list(xgrid.attrs["raw"]), "log": xgrid.attrs["log"]},
                                               "polynomial_degree": degree, "is_log": xgrid.attrs["log"]})
    return o


def _matching_scales(ev, scales):
    return list(scales.data if isinstance(scales, S.Arr) else scales)


def _atlas(ev, matching_scales=None, origin=None, **kw):
    # eko.matchings.Atlas: walls = [0] + matching scales + [inf]
    scales = list(matching_scales.data if isinstance(matching_scales, S.Arr) else matching_scales or [])
    return S.record("Atlas", matching_scales=matching_scales, origin=origin, walls=[0] + scales + [S.INF])


def _count_walls(cell, walls, value, counts_equal):
    """Number of walls w with w < value (or w <= value if counts_equal) for an ascending wall list; symbolic walls
    (ZM-VFNS cells keep the matching scales symbolic) are resolved through the cell's number of flavours."""
    ws = [S.num_norm(w) for w in (walls.data if isinstance(walls, S.Arr) else walls)]
    v = S.num_norm(value)
    n = 0
    symbolic = False
    for w in ws:
        if S.is_inf(w):
            continue
        if isinstance(w, A.Rat):
            symbolic = True
        elif isinstance(v, A.Rat):
            if w == 0:
                n += 1  # the scale is a positive Q2: the wall at 0 is always passed (as in nf_default above)
            else:
                symbolic = True
        elif w < v or (counts_equal and w == v):
            n += 1
    if symbolic:
        if cell.nf is not None and ws and ws[0] == 0 and S.is_inf(ws[-1]):
            return cell.nf - 2  # walls [0, c, b, t, inf]: nf = 2 + count
        raise Undecided("position of a symbolic scale among symbolic walls")
    return n


def make_searchsorted(cell):
    def searchsorted(ev, a, v, side="left", **kw):
        # index i with a[i-1] < v <= a[i] (left) or a[i-1] <= v < a[i] (right)
        return _count_walls(cell, a, v, counts_equal=(side == "right"))

    return searchsorted


def make_digitize(cell):
    def digitize(ev, x, bins, right=False, **kw):
        # right=False: bins[i-1] <= x < bins[i]
        return _count_walls(cell, bins, x, counts_equal=not right)

    return digitize


def make_nf_default(cell):
    def nf_default(ev, mu2, atlas):
        q2 = mu2
        scales = atlas.attrs["matching_scales"]
        nf = 3
        symbolic = False
        q2n = S.num_norm(q2)
        for sc in scales:
            sc = S.num_norm(sc)
            if S.is_inf(sc):
                continue
            if isinstance(sc, A.Rat):
                symbolic = True
                continue
            if sc == 0:
                nf += 1
            elif not isinstance(q2n, A.Rat):
                if sc <= q2n:  # eko: digitize(Q2, [0]+scales+[inf]) with right=False
                    nf += 1
            else:
                symbolic = True
        if symbolic:
            if cell.nf is None:
                raise Undecided("nf_default on symbolic thresholds without a cell nf")
            return cell.nf
        return nf

    return nf_default


def in_rejection_guard(node):
    """Is this comparison (part of) the test of an `if` whose body only raises?  Returns the If or None."""
    n = node
    p = getattr(n, "_parent", None)
    while isinstance(p, (ast.BoolOp, ast.UnaryOp, ast.Compare)):
        n, p = p, getattr(p, "_parent", None)
    if isinstance(p, ast.If) and p.test is n and p.body and isinstance(p.body[-1], ast.Raise) and not p.orelse:
        return p
    return None


def guard_not_triggered(node):
    """Truth value for one symbolic comparison so that the enclosing rejection guard is not taken.
    The required value is propagated from the test's root (must be False) through not/and/or;
    ambiguous positions (an `or` that must be true, an `and` that must be false) give None."""
    g = in_rejection_guard(node)
    if g is None:
        return None

    def want(t, value):
        if t is node:
            return value
        if isinstance(t, ast.UnaryOp) and isinstance(t.op, ast.Not):
            return want(t.operand, not value)
        if isinstance(t, ast.BoolOp):
            forced = (isinstance(t.op, ast.Or) and value is False) or (isinstance(t.op, ast.And) and value is True)
            for i, v in enumerate(t.values):
                if _contains_node(v, node):
                    if forced:
                        return want(v, value)
                    # an `and` that must be false / an `or` that must be true: one operand suffices; the analysed path is the one on which the
                    # FIRST operand decides (short circuit: later operands - e.g. a tolerance test softening the bound - are not evaluated).
                    # That is the path of a point inside the documented domain; what the softened bound lets through is C16.kin's business.
                    # An operand further right is only ever evaluated when the operands before it did not decide (short circuit), and the
                    # first *symbolic* operand is always decided here - so the earlier ones were concrete (`not use_raw and x < xmin`): this
                    # operand is then the first one that can keep the guard from being taken.
                    return want(v, value)
        return None

    return want(g.test, False)


def _contains_node(tree, node):
    return any(n is node for n in ast.walk(tree))


UNIT_SYMBOLS = ("y", "xB")  # 0 < y < 1, 0 < x < 1 on the analysed (accepted) path


def make_compare(assume_valid_kin=True):
    def on_compare(op, a, b, node):
        """The analysed path is the one on which symbolic kinematics pass the rejection guards
        (the guards themselves are decided on concrete orderings by C16.kin)."""
        if not assume_valid_kin or node is None:
            return None
        g = guard_not_triggered(node)
        if g is not None:
            return g
        # outside rejection guards: a comparison whose difference has an evident sign on the physical domain
        # (positive symbols, 0 < x, y < 1) is decided; anything else stays undecided
        try:
            sg = A.definite_sign(A.to_rat(a) - A.to_rat(b), unit=UNIT_SYMBOLS)
        except (A.Undecided, TypeError, ValueError, ZeroDivisionError):
            return None
        if sg is None:
            return None
        return {"Lt": sg < 0, "LtE": sg <= 0, "Gt": sg > 0, "GtE": sg >= 0, "Eq": sg == 0, "NotEq": sg != 0}.get(type(op).__name__)

    return on_compare


def opaque_weights(ev):
    """Keep the electroweak weights as opaque atoms w(pid, type[, mask]) (rules that only need the
    linear structure of the operator use this; C02/C13 fold the real expressions)."""

    def get_weight(ev_, self_, pid, Q2, quark_coupling_type, cc_mask=None):
        pid = S.num_norm(pid)
        a = (abs(pid) if isinstance(pid, int) else pid, quark_coupling_type)
        if cc_mask is not None:
            a = a + (cc_mask,)
        return A.opaque("w", a)

    def get_fl11_weight(ev_, self_, pid, Q2, nf, quark_coupling_type):
        pid = S.num_norm(pid)
        return A.opaque("wfl11", (abs(pid) if isinstance(pid, int) else pid, S.num_norm(nf), quark_coupling_type))

    cc = "yadism.coefficient_functions.coupling_constants::CouplingConstants."
    ev.summaries[cc + "get_weight"] = get_weight
    ev.summaries[cc + "get_fl11_weight"] = get_fl11_weight


def semi_opaque_weights(ev):
    """Keep get_weight / get_fl11_weight real (process switch, positivity guard, sum over bosons) but make
    their three factors opaque."""
    cc = "yadism.coefficient_functions.coupling_constants::CouplingConstants."
    ev.summaries[cc + "leptonic_coupling"] = lambda ev_, self_, mode, t: A.opaque("lep", (mode, t))
    ev.summaries[cc + "propagator_factor"] = lambda ev_, self_, mode, Q2: A.opaque("eta", (mode,))
    ev.summaries[cc + "partonic_coupling"] = lambda ev_, self_, mode, pid, t, cc_mask=None: A.opaque(
        "had", (mode, abs(S.num_norm(pid)), t) + ((cc_mask,) if cc_mask is not None else ())
    )
    ev.summaries[cc + "partonic_coupling_fl11"] = lambda ev_, self_, mode, pid, nf, t: A.opaque(
        "hadfl11", (mode, abs(S.num_norm(pid)), S.num_norm(nf), t)
    )


def fold_runner(proj, cell, n_points=1, on_call=None, assume_valid_kin=True, extra_ext=None):
    """Fold Runner(theory, observables) for the cell. Returns (ev, runner ObjVal, theory, observables)."""
    ext = {
        "eko.interpolation.XGrid": _xgrid,
        "eko.interpolation.InterpolatorDispatcher": _interpolator,
        "eko.quantities.heavy_quarks.MatchingScales": _matching_scales,
        "eko.matchings.Atlas": _atlas,
        "eko.matchings.nf_default": make_nf_default(cell),
        "numpy.searchsorted": make_searchsorted(cell),
        "numpy.digitize": make_digitize(cell),
    }
    ext.update(extra_ext or {})
    overrides = {}
    ev = S.Evaluator(proj, on_call=on_call, on_compare=make_compare(assume_valid_kin), lenient_ext=True, ext_calls=ext)
    # eko names imported with `from eko.x import Y` resolve to parsed eko modules; route them to the records
    _install_eko_overrides(ev, proj, ext)
    theory = theory_card(cell)
    obs = observables_card(cell, n_points)
    if not cell.legacy_ptodis:
        pass
    runner_cls = proj.cls("yadism.runner", "Runner")
    runner = ev.instantiate(S.ClassVal(ev, runner_cls), [theory, obs], {})
    return ev, runner, theory, obs


def _install_eko_overrides(ev, proj, ext):
    """`from eko.matchings import nf_default` binds a *parsed* eko function; replace those bindings
    (in every project module that imports them) by the inert summaries."""
    for m in proj.modules.values():
        for name, sym in m.symbols.items():
            if sym.kind == "from":
                full = f"{sym.target}.{sym.attr}"
                if full in ext:
                    ev.overrides[f"{m.name}::{name}"] = S._NativeFn(lambda *a, _h=ext[full], **k: _h(ev, *a, **k))


def esf_of(ev, runner, obs_name):
    """The first per-point object of an observable of the folded runner."""
    observables = runner.attrs["observables"]
    o = observables[obs_name]
    elems = ev.getattr(o, "elements", None)
    return o, elems


# ---- folding a per-point result ------------------------------------------------
def _closure_signature(fv, _depth=0):
    """Canonical text of the numeric state a kernel closure captured (distinguishes charm from bottom...)."""
    items = []
    seen = set()
    e = fv.closure
    depth = 0
    while e is not None and depth < 4:
        for k, v in e.vars.items():
            if isinstance(v, (S.FuncVal, S.PartialVal, S.ClassVal)) and v is not fv:
                try:
                    items.append(f"{k}={callable_key(v, _depth + 1)}")  # a captured function selects what the kernel computes
                except Undecided:
                    pass
                continue
            v = S.num_norm(v)
            if isinstance(v, (int, Fraction, A.Rat)) and not isinstance(v, bool):
                items.append(f"{k}={A.canon(v)}")
            elif isinstance(v, (str, bool)):
                items.append(f"{k}={v!r}")  # e.g. mkNLO(kind, RS): the strings select the raw function
        so = e.self_obj
        if so is not None and id(so) not in seen:
            seen.add(id(so))
            for k, v in so.attrs.items():
                v = S.num_norm(v)
                if isinstance(v, (int, Fraction, A.Rat)) and not isinstance(v, bool):
                    items.append(f"self.{k}={A.canon(v)}")
        e = e.parent
        depth += 1
    return ";".join(sorted(set(items)))


def _state_signature(obj):
    items = []
    for k, v in sorted(obj.attrs.items()):
        v = S.num_norm(v)
        if isinstance(v, (int, Fraction, A.Rat)) and not isinstance(v, bool):
            items.append(f"{k}={A.canon(v)}")
        elif isinstance(v, (str, bool)):
            items.append(f"{k}={v!r}")
    return ";".join(items)


def callable_key(f, _depth=0):
    """A name for a callable that depends only on what it is made of (function, captured numbers and functions, bound state, partial
    arguments) - the same in every fold of the same tree, never an address.  Unknown kinds of callables are undecided."""
    if _depth > 4:
        return "..."
    if isinstance(f, S.PartialVal):
        inner = callable_key(f.func, _depth + 1)
        args = [A.canon(S.num_norm(x)) if isinstance(S.num_norm(x), (int, Fraction, A.Rat)) and not isinstance(x, bool) else
                (repr(x) if isinstance(x, (str, bool)) or x is None else (callable_key(x, _depth + 1) if isinstance(x, (S.FuncVal, S.PartialVal, S.ClassVal)) else type(x).__name__))
                for x in f.args]
        kws = [f"{k}=" + (A.canon(S.num_norm(v)) if isinstance(S.num_norm(v), (int, Fraction, A.Rat)) and not isinstance(v, bool) else
                          (repr(v) if isinstance(v, (str, bool)) or v is None else (callable_key(v, _depth + 1) if isinstance(v, (S.FuncVal, S.PartialVal, S.ClassVal)) else type(v).__name__)))
               for k, v in sorted(f.keywords.items())]
        return f"partial({inner};{_short_hash(','.join(args + kws))})"
    if isinstance(f, S.FuncVal):
        sig = _closure_signature(f, _depth) if f.closure is not None else ""
        if f.bound is not None and isinstance(f.bound, S.ObjVal):
            sig = (sig + "|" if sig else "") + "self:" + _state_signature(f.bound)
        return f.finfo.fq + (f"{{{_short_hash(sig)}}}" if sig else "")
    if isinstance(f, S.ClassVal):
        return f.cinfo.fq
    if isinstance(f, S.ObjVal) and f.cinfo is not None and f.cinfo.find_method("__call__") is not None:
        return f"{f.cinfo.fq}(){{{_short_hash(_state_signature(f))}}}"
    raise Undecided(f"identity of a kernel that is a {type(f).__name__}")


def rsl_key(rsl):
    parts = []
    for p in ("reg", "sing", "loc"):
        f = rsl.attrs.get(p)
        if f is None:
            parts.append("-")
            continue
        if isinstance(f, S.FuncVal) and f.bound is None:
            sig = _closure_signature(f) if f.closure is not None else ""
            args = rsl.attrs["args"][p]
            a = ",".join(A.canon(S.num_norm(x)) for x in (args.data if isinstance(args, S.Arr) else []))
            parts.append(f"{f.finfo.fq}[{a}]" + (f"{{{_short_hash(sig)}}}" if sig else ""))
        else:
            args = rsl.attrs["args"][p]
            a = ",".join(A.canon(S.num_norm(x)) for x in (args.data if isinstance(args, S.Arr) else []))
            parts.append(f"{callable_key(f)}[{a}]")
    owner = rsl.attrs.get("_owner")
    return "|".join(parts) + (f"@{owner}" if owner else "")


def _short_hash(txt):
    import hashlib

    return hashlib.sha1(txt.encode()).hexdigest()[:10]


RSL_REGISTRY = {}


def _is_empty_rsl(rsl):
    return all(rsl.attrs.get(p) is None for p in ("reg", "sing", "loc"))


def _extras_given(extra, kw):
    return [v for v in list(extra) + list(kw.values()) if v is not None]


def _convolve_vector(ev, cf, interpolator, convolution_point, *extra, **kw):
    if _extras_given(extra, kw):
        # the routine is handed more than (kernel, basis, point) - e.g. basis values the caller has already evaluated: nothing can be said
        # about the result without walking the routine's own body (its convolution(...) calls arrive at the summary below)
        fi = ev.proj.func("yadism.esf.conv", "convolve_vector")
        summ = ev.summaries.pop(fi.fq)
        try:
            return ev.call(S.FuncVal(ev, fi), [cf, interpolator, convolution_point, *extra], dict(kw))
        finally:
            ev.summaries[fi.fq] = summ
    if _is_empty_rsl(cf):
        # conv.convolution of a distribution without any part: no integral, no local term -> exactly (0, 0) (decided in C01.integrand)
        n = len(interpolator.store["__list__"])
        return (S.Arr([0] * n), S.Arr([0] * n))
    key = rsl_key(cf)
    RSL_REGISTRY[key] = cf
    n = len(interpolator.store["__list__"])
    vals = [A.opaque("conv", (key, S.num_norm(convolution_point), j)) for j in range(n)]
    errs = [A.opaque("converr", (key, S.num_norm(convolution_point), j), positive=True) for j in range(n)]
    return (S.Arr(vals), S.Arr(errs))


def _convolve_operator(ev, fnc, interpolator):
    key = rsl_key(fnc)
    RSL_REGISTRY[key] = fnc
    n = len(interpolator.store["__list__"])
    res = [[A.opaque("convop", (key, l, k)) for k in range(n)] for l in range(n)]
    err = [[A.opaque("convoperr", (key, l, k), positive=True) for k in range(n)] for l in range(n)]
    return (S.Arr(res), S.Arr(err))


def _ad_projectors_factory(ev):
    """eko.basis_rotation.ad_projectors(nf, qed=False), recomputed natively from the constants in eko's
    parsed source (trusted base: eko)."""
    br = S._ext_module("eko.basis_rotation")
    if br is None:
        raise Undecided("eko.basis_rotation not found")
    g = lambda name: ev.module_global(br, name)
    rot = g("rotate_flavor_to_evolution")
    rot = rot.data if isinstance(rot, S.Arr) else rot
    mp = g("map_ad_to_evolution")
    basis = list(g("evol_basis"))
    adb = list(g("anomalous_dimensions_basis"))

    def ad_projectors(ev_, nf, qed=False):
        if qed:
            raise Undecided("QED projectors")
        nf = int(nf)
        projs = []
        n = len(rot)
        for ad in adb:
            proj = [[Fraction(0)] * n for _ in range(n)]
            for el in mp[ad][: nf - 1]:
                o_name, i_name = el.split(".")
                out = list(rot[basis.index(o_name)])
                in_ = list(rot[basis.index(i_name)])
                cut = 1 + (6 - nf)
                for v in (out, in_):
                    for i in range(cut):
                        v[i] = 0
                    for i in range(len(v) - (6 - nf), len(v)):
                        v[i] = 0
                norm = sum(x * x for x in out)
                for i in range(n):
                    for j in range(n):
                        proj[i][j] += Fraction(out[i] * in_[j], norm)
            projs.append([[S.num_norm(x) for x in row] for row in proj])
        return S.Arr(projs)

    return ad_projectors


def _convolution(ev, rsl, x, pdf_func, *extra, **kw):
    if _is_empty_rsl(rsl):
        return (0, 0)
    key = rsl_key(rsl)
    RSL_REGISTRY[key] = rsl
    j = pdf_func.attrs.get("poly_number")
    given = _extras_given(extra, kw)
    if given:
        # the only thing a caller can usefully hand over is the basis function's value at the convolution point (the local and the
        # subtraction terms need it): it must be the value of THIS basis function at THIS point, otherwise the result is another quantity
        own = A.canon(A.opaque("basis_at", (j, S.num_norm(x))))
        tags = []
        for v in given:
            try:
                c = A.canon(S.num_norm(v))
            except Exception:
                raise Undecided(f"convolution(...) receives an extra argument of type {type(v).__name__}")
            if not c.startswith("basis_at("):
                raise Undecided(f"convolution(...) receives an extra argument {c[:60]}")
            if c != own:
                tags.append(c)
        if tags:
            ev.__dict__.setdefault("mixed_points", []).append(f"a convolution at the point {A.canon(S.num_norm(x))[:60]} takes its local and subtraction terms "
                                                              f"from {tags[0][:80]} (kernel {key[:80]})")
            key = key + "|local and subtraction terms use " + ",".join(tags) + " instead of " + own
    return (A.opaque("conv", (key, S.num_norm(x), j)), A.opaque("converr", (key, S.num_norm(x), j), positive=True))


def manager(runner, name):
    """runner.configs.managers[name], whether the bundle is a dict or an object with the managers as attributes (a mapping-like record)."""
    m = runner.attrs["configs"].attrs["managers"]
    if isinstance(m, dict):
        return m[name]
    if isinstance(m, S.ObjVal):
        if name in m.attrs:
            return m.attrs[name]
        if name in m.store:
            return m.store[name]
    raise Undecided(f"the runner's managers bundle is a {type(m).__name__} without an entry {name!r}")


def install_result_summaries(ev):
    ev.summaries["yadism.esf.conv::convolution"] = _convolution
    ev.summaries["yadism.esf.conv::convolve_vector"] = _convolve_vector
    ev.summaries["yadism.esf.conv::convolve_operator"] = _convolve_operator
    adp = _ad_projectors_factory(ev)
    ev.ext_calls["eko.basis_rotation.ad_projectors"] = adp
    br = S._ext_module("eko.basis_rotation")
    ev.mod_cache[(br.name, "ad_projectors")] = S._NativeFn(lambda nf, qed=False: adp(ev, nf, qed))
    ev.ext_calls["eko.beta.beta_qcd_as2"] = lambda ev_, nf: A.opaque("beta0", (S.num_norm(nf),))
    ev.ext_calls["eko.beta.beta_qcd_as3"] = lambda ev_, nf: A.opaque("beta1", (S.num_norm(nf),))
    beta = S._ext_module("eko.beta")
    if beta is not None:
        ev.mod_cache[(beta.name, "beta_qcd_as2")] = S._NativeFn(lambda nf: A.opaque("beta0", (S.num_norm(nf),)))
        ev.mod_cache[(beta.name, "beta_qcd_as3")] = S._NativeFn(lambda nf: A.opaque("beta1", (S.num_norm(nf),)))
    ev.ext_calls["time.perf_counter"] = lambda ev_: 0


def fold_point_result(ev, elem):
    """elem.get_result() folded -> ESFResult/EXSResult ObjVal."""
    return ev.call(ev.getattr(elem, "get_result", None), [], {})
