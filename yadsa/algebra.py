"""Normal forms for closed-form arithmetic written in the source.

A value is a quotient N/D of multivariate polynomials with exact rational
coefficients over *atoms* (formal parameters, symbolic constants, opaque calls,
log/li2/sqrt of another normal form).  D is kept factorised.  Two values are
compared coefficient by coefficient over the common denominator with a relative
tolerance per monomial (relative to the largest contribution that monomial
received), which absorbs the 5-7 digit transcription of the published
parametrisations but nothing larger.

Nothing here evaluates code from the repository; no solver or CAS is involved.
"""

from __future__ import annotations

import math
from fractions import Fraction

TOL = Fraction(5, 100000)


class Undecided(Exception):
    """The construct is outside the translatable fragment."""


class _Budget:
    left = None  # None = unlimited


def set_budget(n):
    """Bound the work (term multiplications) of the following normalisations;
    exceeding it makes the instance undecided ("expression too large")."""
    _Budget.left = n


# --------------------------------------------------------------------------
# atoms
# --------------------------------------------------------------------------
class AtomDef:
    __slots__ = ("name", "kind", "arg", "positive", "payload")

    def __init__(self, name, kind, arg=None, positive=False, payload=None):
        self.name = name
        self.kind = kind  # 'sym' | 'log' | 'li2' | 'sqrt' | 'opaque' | 'exp'
        self.arg = arg  # Rat for log/li2/sqrt/exp
        self.positive = positive
        self.payload = payload  # for opaque: (callee, args tuple)


ATOMS: dict[str, AtomDef] = {}


def sym(name, positive=False):
    a = ATOMS.get(name)
    if a is None:
        ATOMS[name] = AtomDef(name, "sym", positive=positive)
    elif positive and not a.positive:
        a.positive = True
    return Rat(Poly.atom(name))


LONG_TEXT = 600
LONG_NAMES = {}  # "<expr#digest>" -> full canonical text (diagnostics)


def short(text):
    """Canonical texts beyond LONG_TEXT characters are interned under a digest: atom names stay small (names are compared and
    concatenated all the time), identity of text <-> identity of digest is kept."""
    if len(text) <= LONG_TEXT:
        return text
    import hashlib

    key = f"<expr#{hashlib.sha1(text.encode()).hexdigest()[:14]}>"
    LONG_NAMES.setdefault(key, text)
    return key


def opaque(callee, args=(), positive=False):
    name = f"{callee}({', '.join(short(canon(a)) for a in args)})"
    if name not in ATOMS:
        ATOMS[name] = AtomDef(name, "opaque", positive=positive, payload=(callee, tuple(args)))
    return Rat(Poly.atom(name))


def canon(v):
    if isinstance(v, Rat):
        return v.canon()
    if isinstance(v, Fraction):
        return str(v)
    return repr(v)


# --------------------------------------------------------------------------
# polynomials
# --------------------------------------------------------------------------
def _mono_mul(a, b):
    if not a:
        return b
    if not b:
        return a
    d = dict(a)
    for k, p in b:
        d[k] = d.get(k, 0) + p
    return tuple(sorted(d.items()))


class Poly:
    """dict monomial -> (coefficient, magnitude); monomial = sorted tuple of (atom, power)."""

    __slots__ = ("t",)

    def __init__(self, t=None):
        self.t = t or {}

    @staticmethod
    def const(c):
        c = Fraction(c)
        if c == 0:
            return Poly()
        return Poly({(): (c, abs(c))})

    @staticmethod
    def atom(name, power=1):
        return Poly({((name, power),): (Fraction(1), Fraction(1))})

    def is_zero(self):
        return not self.t

    def is_const(self):
        return all(m == () for m in self.t)

    def const_value(self):
        if not self.t:
            return Fraction(0)
        if self.is_const():
            return self.t[()][0]
        return None

    def __add__(self, o):
        t = dict(self.t)
        for m, (c, g) in o.t.items():
            if m in t:
                c0, g0 = t[m]
                t[m] = (c0 + c, g0 + g)
            else:
                t[m] = (c, g)
        return Poly(_clean(t))

    def __neg__(self):
        return Poly({m: (-c, g) for m, (c, g) in self.t.items()})

    def __sub__(self, o):
        return self + (-o)

    def scale(self, k):
        k = Fraction(k)
        if k == 0:
            return Poly()
        return Poly({m: (c * k, g * abs(k)) for m, (c, g) in self.t.items()})

    def __mul__(self, o):
        if not self.t or not o.t:
            return Poly()
        if _Budget.left is not None:
            _Budget.left -= len(self.t) * len(o.t)
            if _Budget.left < 0:
                _Budget.left = None
                raise Undecided("expression too large for the normaliser's work budget")
        t = {}
        for m1, (c1, g1) in self.t.items():
            for m2, (c2, g2) in o.t.items():
                m = _mono_mul(m1, m2)
                c = c1 * c2
                g = g1 * g2
                if m in t:
                    c0, g0 = t[m]
                    t[m] = (c0 + c, g0 + g)
                else:
                    t[m] = (c, g)
        return Poly(_clean(t))

    def __pow__(self, n):
        if n < 0:
            raise ValueError
        r = Poly.const(1)
        b = self
        while n:
            if n & 1:
                r = r * b
            n >>= 1
            if n:
                b = b * b
        return r

    def atoms(self):
        s = set()
        for m in self.t:
            for a, _ in m:
                s.add(a)
        return s

    def exact(self):
        """Drop magnitudes of exactly-cancelled terms (already done) - returns self."""
        return self

    def canon(self):
        if not self.t:
            return "0"
        parts = []
        for m in sorted(self.t):
            c = self.t[m][0]
            ms = "*".join(a if p == 1 else f"{a}^{p}" for a, p in m)
            if not ms:
                parts.append(f"{c}")
            elif c == 1:
                parts.append(ms)
            elif c == -1:
                parts.append(f"-{ms}")
            else:
                parts.append(f"{c}*{ms}")
        return " + ".join(parts).replace("+ -", "- ")

    def common_monomial(self):
        """Largest monomial dividing every term."""
        it = iter(self.t)
        try:
            first = dict(next(it))
        except StopIteration:
            return ()
        for m in it:
            d = dict(m)
            for a in list(first):
                p = min(first[a], d.get(a, 0))
                if p:
                    first[a] = p
                else:
                    del first[a]
            if not first:
                break
        return tuple(sorted(first.items()))

    def div_monomial(self, mono):
        if not mono:
            return self
        dm = dict(mono)
        t = {}
        for m, v in self.t.items():
            d = dict(m)
            for a, p in dm.items():
                q = d[a] - p
                if q:
                    d[a] = q
                else:
                    del d[a]
            t[tuple(sorted(d.items()))] = v
        return Poly(t)

    def max_mag(self):
        return max((g for _, g in self.t.values()), default=Fraction(0))


def _clean(t):
    return {m: v for m, v in t.items() if v[0] != 0 or _keep_zero(v)}


def _keep_zero(v):
    # exact cancellations vanish entirely; this keeps the representation canonical
    return False


def poly_close(p, q, tol=TOL):
    """Coefficient-wise comparison; returns list of (monomial, c_p, c_q, scale) that differ."""
    diffs = []
    for m in set(p.t) | set(q.t):
        cp, gp = p.t.get(m, (Fraction(0), Fraction(0)))
        cq, gq = q.t.get(m, (Fraction(0), Fraction(0)))
        scale = max(gp, gq)
        if abs(cp - cq) > tol * scale:
            diffs.append((m, cp, cq, scale))
    return diffs


# --------------------------------------------------------------------------
# rational functions with factorised denominator
# --------------------------------------------------------------------------
class Rat:
    __slots__ = ("n", "d")

    def __init__(self, n, d=None):
        self.n = n if isinstance(n, Poly) else Poly.const(n)
        self.d = d or {}  # canon string -> (Poly, power)

    # -- construction helpers
    @staticmethod
    def const(c):
        return Rat(Poly.const(c))

    def is_const(self):
        return not self.d and self.n.is_const()

    def const_value(self):
        if self.d:
            return None
        return self.n.const_value()

    def den_poly(self):
        r = Poly.const(1)
        for f, k in self.d.values():
            r = r * (f**k)
        return r

    def canon(self):
        n = self.n.canon()
        if not self.d:
            return n
        ds = "*".join(f"({k})" if p == 1 else f"({k})^{p}" for k, (f, p) in sorted(self.d.items()))
        return f"({n})/{ds}"

    def __repr__(self):
        s = self.canon()
        return s if len(s) < 400 else s[:400] + "..."

    # -- arithmetic
    def __neg__(self):
        return Rat(-self.n, dict(self.d))

    def __add__(self, o):
        o = to_rat(o)
        if self.d == o.d or (not self.d and not o.d):
            return Rat(self.n + o.n, dict(self.d))._zero_norm()
        lcd = dict(self.d)
        for k, (f, p) in o.d.items():
            if k not in lcd or lcd[k][1] < p:
                lcd[k] = (f, p)
        return Rat(self._lift(lcd) + o._lift(lcd), lcd)._zero_norm()

    __radd__ = __add__

    def _zero_norm(self):
        if self.n.is_zero():
            return Rat(Poly())
        return self

    def _lift(self, lcd):
        n = self.n
        for k, (f, p) in lcd.items():
            have = self.d[k][1] if k in self.d else 0
            if p > have:
                n = n * (f ** (p - have))
        return n

    def __sub__(self, o):
        return self + (-to_rat(o))

    def __rsub__(self, o):
        return to_rat(o) + (-self)

    def __mul__(self, o):
        o = to_rat(o)
        n = self.n * o.n
        if n.is_zero():
            return Rat(Poly())
        d = dict(self.d)
        for k, (f, p) in o.d.items():
            if k in d:
                d[k] = (f, d[k][1] + p)
            else:
                d[k] = (f, p)
        return Rat(n, d)._cancel()._sqrt_norm()

    __rmul__ = __mul__

    def _cancel(self):
        """Cancel single-atom denominator factors and exact whole-numerator matches."""
        if not self.d:
            return self
        n, d = self.n, dict(self.d)
        changed = False
        cm = dict(n.common_monomial())
        for k, (f, p) in list(d.items()):
            if len(f.t) == 1:
                (m, (c, _)), = f.t.items()
                if len(m) == 1 and m[0][1] == 1 and c == 1:
                    a = m[0][0]
                    have = cm.get(a, 0)
                    if have:
                        q = min(have, p)
                        n = n.div_monomial(((a, q),))
                        cm[a] = have - q
                        if p - q:
                            d[k] = (f, p - q)
                        else:
                            del d[k]
                        changed = True
        # numerator equal to +-c * one factor
        for k, (f, p) in list(d.items()):
            if len(n.t) == len(f.t) and len(f.t) > 1:
                ratio = None
                ok = True
                for m, (c, _) in f.t.items():
                    if m not in n.t:
                        ok = False
                        break
                    r = n.t[m][0] / c
                    if ratio is None:
                        ratio = r
                    elif r != ratio:
                        ok = False
                        break
                if ok and ratio is not None:
                    n = Poly.const(ratio)
                    if p - 1:
                        d[k] = (f, p - 1)
                    else:
                        del d[k]
                    changed = True
                    break
        return Rat(n, d) if changed else self

    def _sqrt_norm(self):
        """sqrt(u)**2 -> u."""
        todo = None
        for m in self.n.t:
            for a, p in m:
                if p >= 2 and ATOMS.get(a) is not None and ATOMS[a].kind == "sqrt" and ATOMS[a].payload != "nested":
                    todo = a
                    break
            if todo:
                break
        if not todo:
            return self
        u = ATOMS[todo].arg
        res = Rat(Poly())
        for m, (c, g) in self.n.t.items():
            p = dict(m).get(todo, 0)
            rest = tuple((a, q) for a, q in m if a != todo)
            term = Rat(Poly({rest: (c, g)}))
            if p >= 2:
                term = term * rat_pow(u, p // 2)
                if p % 2:
                    term = term * Rat(Poly.atom(todo))
            elif p == 1:
                term = term * Rat(Poly.atom(todo))
            res = res + term
        out = Rat(res.n, _merge_den(res.d, self.d))
        return out._sqrt_norm()

    def inv(self):
        if self.n.is_zero():
            raise Undecided("division by a value that is identically zero")
        # numerator becomes a denominator factor (split off common monomial and content)
        d = {}
        cm = self.n.common_monomial()
        rest = self.n.div_monomial(cm)
        coef = Fraction(1)
        for a, p in cm:
            f = Poly.atom(a)
            d[f.canon()] = (f, p)
        cv = rest.const_value()
        if cv is not None:
            coef = cv
        else:
            lead = _lead_coeff(rest)
            coef = lead
            rest = rest.scale(1 / lead)
            d[rest.canon()] = (rest, 1)
        n = self.den_poly().scale(1 / coef)
        return Rat(n, d)._cancel()

    def __truediv__(self, o):
        return self * to_rat(o).inv()

    def __rtruediv__(self, o):
        return to_rat(o) * self.inv()

    def atoms(self):
        s = set(self.n.atoms())
        for f, _ in self.d.values():
            s |= f.atoms()
        return s

    def all_atoms(self):
        """Transitive closure through log/li2/sqrt arguments."""
        seen = set()
        todo = list(self.atoms())
        while todo:
            a = todo.pop()
            if a in seen:
                continue
            seen.add(a)
            ad = ATOMS.get(a)
            if ad is not None:
                if ad.arg is not None:
                    todo.extend(ad.arg.atoms())
                if ad.kind == "opaque" and ad.payload:
                    for x in ad.payload[1]:
                        if isinstance(x, Rat):
                            todo.extend(x.atoms())
        return seen


def _merge_den(a, b):
    d = dict(a)
    for k, (f, p) in b.items():
        if k in d:
            d[k] = (f, d[k][1] + p)
        else:
            d[k] = (f, p)
    return d


def _lead_coeff(p):
    """Normalising coefficient: that of the constant term if present (sign kept
    positive so that log arguments keep their sign), else of the first monomial."""
    if () in p.t:
        c = p.t[()][0]
    else:
        c = p.t[min(p.t)][0]
    return c


def to_rat(v):
    if isinstance(v, Rat):
        return v
    if isinstance(v, bool):
        return Rat.const(int(v))
    if isinstance(v, (int, Fraction)):
        return Rat.const(v)
    if isinstance(v, float):
        return Rat.const(frac(v))
    raise Undecided(f"not a number: {v!r}")


def frac(x):
    """Exact decimal reading of a float literal (7.67505 -> 767505/100000)."""
    if isinstance(x, Fraction):
        return x
    if isinstance(x, int):
        return Fraction(x)
    if isinstance(x, float):
        if math.isinf(x) or math.isnan(x):
            raise Undecided("non-finite literal")
        return Fraction(repr(x))
    raise Undecided(f"not a number: {x!r}")


def rat_pow(b, e):
    b = to_rat(b)
    if isinstance(e, Rat):
        ev = e.const_value()
        if ev is None:
            raise Undecided("symbolic exponent")
        e = ev
    e = Fraction(e)
    if e.denominator == 1:
        k = int(e)
        if k >= 0:
            n = b.n**k
            d = {key: (f, p * k) for key, (f, p) in b.d.items()} if k else {}
            return Rat(n, d)._sqrt_norm() if k else Rat.const(1)
        return rat_pow(b, -k).inv()
    if e.denominator == 2:
        return rat_pow(fn_sqrt(b), e.numerator)
    raise Undecided(f"non-integer power {e}")


# --------------------------------------------------------------------------
# transcendental atoms
# --------------------------------------------------------------------------
def _small_primes(n):
    out = {}
    p = 2
    while p * p <= n and p < 100000:
        while n % p == 0:
            out[p] = out.get(p, 0) + 1
            n //= p
        p += 1
    if n > 1:
        out[n] = out.get(n, 0) + 1
    return out


def _log_const(c):
    c = Fraction(c)
    if c <= 0:
        raise Undecided(f"log of non-positive constant {c}")
    res = Rat(Poly())
    for n, s in ((c.numerator, 1), (c.denominator, -1)):
        if n == 1:
            continue
        if n > 10**12:
            name = f"log({n})"
            if name not in ATOMS:
                ATOMS[name] = AtomDef(name, "log", Rat.const(n))
            res = res + Rat(Poly.atom(name)) * s
            continue
        for p, k in _small_primes(n).items():
            name = f"log({p})"
            if name not in ATOMS:
                ATOMS[name] = AtomDef(name, "log", Rat.const(p))
            res = res + Rat(Poly.atom(name)) * (s * k)
    return res


def _atom_positive(a):
    ad = ATOMS.get(a)
    return bool(ad and (ad.positive or ad.kind in ("sqrt", "exp")))


def _log_poly(p):
    """log of a polynomial: split constant content and positive common monomial."""
    cv = p.const_value()
    if cv is not None:
        return _log_const(cv)
    res = Rat(Poly())
    cm = p.common_monomial()
    keep = []
    for a, k in cm:
        if _atom_positive(a):
            res = res + fn_log_atom(a) * k
        else:
            keep.append((a, k))
    cm_used = tuple((a, k) for a, k in cm if (a, k) not in keep)
    rest = p.div_monomial(cm_used)
    if len(rest.t) == 1:
        (m, (c, _)), = rest.t.items()
        if c > 0 and not m:
            return res + _log_const(c)
    lead = _lead_coeff(rest)
    if lead < 0 and () not in rest.t:
        lead = -lead  # keep the sign inside the logarithm
    if lead < 0:
        lead = -lead
    if lead != 1:
        res = res + _log_const(lead)
        rest = rest.scale(1 / lead)
    if len(rest.t) == 1:
        (m, (c, _)), = rest.t.items()
        if c == 1 and len(m) == 1:
            a, k = m[0]
            return res + fn_log_atom(a) * k
    name = f"log({rest.canon()})"
    if name not in ATOMS:
        ATOMS[name] = AtomDef(name, "log", Rat(rest))
    return res + Rat(Poly.atom(name))


def fn_log_atom(a):
    ad = ATOMS.get(a)
    if ad is not None and ad.kind == "exp":
        return ad.arg
    if ad is not None and ad.kind == "sqrt":
        return fn_log(ad.arg) * Fraction(1, 2)
    name = f"log({a})"
    if name not in ATOMS:
        ATOMS[name] = AtomDef(name, "log", Rat(Poly.atom(a)))
    return Rat(Poly.atom(name))


def fn_log(u):
    u = to_rat(u)
    res = _log_poly(u.n)
    for f, k in u.d.values():
        res = res - _log_poly(f) * k
    return res


def fn_li2(u):
    u = to_rat(u)
    cv = u.const_value()
    if cv is not None:
        if cv == 0:
            return Rat(Poly())
        if cv == 1:
            return sym("pi") * sym("pi") * Fraction(1, 6)
    name = f"li2({u.canon()})"
    if name not in ATOMS:
        ATOMS[name] = AtomDef(name, "li2", u)
    return Rat(Poly.atom(name))


def fn_li3(u):
    """Trilogarithm Li3(u) for u <= 1 (real)."""
    u = to_rat(u)
    cv = u.const_value()
    if cv is not None:
        if cv == 0:
            return Rat(Poly())
        if cv == 1:
            return sym("zeta3", positive=True)
    name = f"li3({u.canon()})"
    if name not in ATOMS:
        ATOMS[name] = AtomDef(name, "li3", u)
    return Rat(Poly.atom(name))


def fn_sqrt(u):
    u = to_rat(u)
    cv = u.const_value()
    if cv is not None:
        if cv < 0:
            raise Undecided("sqrt of a negative constant")
        for part in (cv.numerator, cv.denominator):
            r = math.isqrt(part)
            if r * r != part:
                break
        else:
            return Rat.const(Fraction(math.isqrt(cv.numerator), math.isqrt(cv.denominator)))
    # perfect square of a single monomial with even powers?
    if not u.d and len(u.n.t) == 1:
        (m, (c, _)), = u.n.t.items()
        if m and c > 0 and all(p % 2 == 0 for _, p in m) and all(_atom_positive(a) for a, _ in m):
            rc = fn_sqrt(Rat.const(c))
            if rc.const_value() is not None:
                return Rat(Poly({tuple((a, p // 2) for a, p in m): (rc.const_value(), abs(rc.const_value()))}))
    u = u._sqrt_norm()
    name = f"sqrt({short(u.canon())})"
    if name not in ATOMS:
        # a radical of radicals is kept as one opaque positive quantity: re-expanding sqrt(u)^2 -> u for nested u makes
        # normal forms explode (xi(xi(x)) ...) and no decided identity needs denesting
        nested = any(ATOMS.get(a) is not None and ATOMS[a].kind == "sqrt" for a in u.atoms())
        ATOMS[name] = AtomDef(name, "sqrt", u, positive=True, payload="nested" if nested else None)
    return Rat(Poly.atom(name))


def fn_exp(u):
    u = to_rat(u)
    cv = u.const_value()
    if cv is not None and cv == 0:
        return Rat.const(1)
    # exp(k*log(a)) = a**k for a single log atom
    if not u.d and len(u.n.t) == 1:
        (m, (c, _)), = u.n.t.items()
        if len(m) == 1 and m[0][1] == 1 and c.denominator == 1:
            ad = ATOMS.get(m[0][0])
            if ad is not None and ad.kind == "log":
                return rat_pow(ad.arg, int(c))
    name = f"exp({u.canon()})"
    if name not in ATOMS:
        ATOMS[name] = AtomDef(name, "exp", u, positive=True)
    return Rat(Poly.atom(name))


# --------------------------------------------------------------------------
# sign on a domain
# --------------------------------------------------------------------------
def poly_sign(p):
    """+1 / -1 if every coefficient has that sign and every atom is a positive quantity, 0 for the zero polynomial, else None."""
    if p.is_zero():
        return 0
    signs = set()
    for m, (c, _g) in p.t.items():
        if not all(_atom_positive(a) for a, _ in m):
            return None
        signs.add(1 if c > 0 else -1)
    return signs.pop() if len(signs) == 1 else None


def definite_sign(r, unit=()):
    """Sign (+1, -1, 0) of a normal form for all positive values of its positive atoms and all values in (0, 1) of the atoms named
    in `unit`, or None if that is not evident.  Unit-interval atoms are mapped by u = t/(1+t), t > 0, after which a polynomial whose
    coefficients share one sign is sign-definite (sufficient, not necessary)."""
    r = to_rat(r)
    present = [u for u in unit if u in r.all_atoms()]
    if any(u not in r.atoms() for u in present):
        return None  # inside a log/sqrt argument: not handled
    for u in present:
        t = sym(f"_t_{u}", True)
        r = subs(r, {u: t / (t + 1)})
    sg = poly_sign(r.n)
    if sg is None or sg == 0:
        return sg
    for f, pw in r.d.values():
        fs = poly_sign(f)
        if fs is None or fs == 0:
            return None
        if pw % 2:
            sg *= fs
    return sg


# --------------------------------------------------------------------------
# comparison, differentiation, substitution, numeric guard
# --------------------------------------------------------------------------
def difference(a, b, tol=TOL):
    """Return [] when a == b (within tol per monomial), else the differing monomials."""
    a, b = to_rat(a), to_rat(b)
    lcd = dict(a.d)
    for k, (f, p) in b.d.items():
        if k not in lcd or lcd[k][1] < p:
            lcd[k] = (f, p)
    pa, pb = a._lift(lcd), b._lift(lcd)
    diffs = poly_close(pa, pb, tol)
    if diffs and (_has_sqrt_power(pa) or _has_sqrt_power(pb)):
        # lifting can re-create sqrt(u)**2: normalise and compare again
        ra, rb = Rat(pa)._sqrt_norm(), Rat(pb)._sqrt_norm()
        if not (_has_sqrt_power(ra.n) or _has_sqrt_power(rb.n)):
            return difference(ra, rb, tol)
    return diffs


def _has_sqrt_power(p):
    for m in p.t:
        for a, k in m:
            if k >= 2:
                ad = ATOMS.get(a)
                if ad is not None and ad.kind == "sqrt":
                    return True
    return False


def equal(a, b, tol=TOL):
    return not difference(a, b, tol)


def fmt_diffs(diffs, limit=4):
    out = []
    for m, cp, cq, scale in sorted(diffs, key=lambda d: -abs(d[1] - d[2]) / (d[3] or 1))[:limit]:
        ms = "*".join(a if p == 1 else f"{a}^{p}" for a, p in m) or "1"
        rel = float(abs(cp - cq) / scale) if scale else float("inf")
        out.append(f"[{ms}]: {float(cp):.8g} vs {float(cq):.8g} (rel {rel:.2g})")
    more = f" (+{len(diffs) - limit} more)" if len(diffs) > limit else ""
    return "; ".join(out) + more


def depends_on(r, var):
    return var in to_rat(r).all_atoms()


def d_atom(a, var):
    """d(atom)/d(var) as Rat."""
    if a == var:
        return Rat.const(1)
    ad = ATOMS.get(a)
    if ad is None or ad.kind == "sym":
        return Rat(Poly())
    if ad.kind == "opaque":
        for x in ad.payload[1]:
            if isinstance(x, Rat) and depends_on(x, var):
                raise Undecided(f"derivative of opaque call {a}")
        return Rat(Poly())
    u = ad.arg
    du = diff(u, var)
    if du.n.is_zero():
        return du
    if ad.kind == "log":
        return du / u
    if ad.kind == "li2":
        return -fn_log(Rat.const(1) - u) * du / u
    if ad.kind == "li3":
        return fn_li2(u) * du / u
    if ad.kind == "sqrt":
        return du / (Rat(Poly.atom(a)) * 2)
    if ad.kind == "exp":
        return du * Rat(Poly.atom(a))
    raise Undecided(f"derivative of atom kind {ad.kind}")


def _diff_poly(p, var):
    res = Rat(Poly())
    cache = {}
    for m, (c, g) in p.t.items():
        for i, (a, k) in enumerate(m):
            if a not in cache:
                cache[a] = d_atom(a, var)
            da = cache[a]
            if da.n.is_zero():
                continue
            rest = list(m)
            if k > 1:
                rest[i] = (a, k - 1)
            else:
                del rest[i]
            term = Rat(Poly({tuple(rest): (c * k, g * k)}))
            res = res + term * da
    return res


def diff(r, var):
    r = to_rat(r)
    dn = _diff_poly(r.n, var)
    if not r.d:
        return dn
    inv_d = Rat(Poly.const(1), dict(r.d))
    res = dn * inv_d
    for k, (f, p) in r.d.items():
        df = _diff_poly(f, var)
        if df.n.is_zero():
            continue
        d2 = dict(r.d)
        d2[k] = (f, p + 1)
        res = res - Rat(r.n, d2) * df * p
    return res


def subs(r, mapping):
    """Substitute atoms (by name) with Rats; descends into log/li2/sqrt arguments."""
    r = to_rat(r)

    def sub_atom(a):
        if a in mapping:
            return to_rat(mapping[a])
        ad = ATOMS.get(a)
        if ad is None or ad.kind == "sym":
            return Rat(Poly.atom(a))
        if ad.kind == "opaque":
            callee, args = ad.payload
            if any(isinstance(x, Rat) and (x.all_atoms() & set(mapping)) for x in args):
                return opaque(callee, tuple(subs(x, mapping) if isinstance(x, Rat) else x for x in args), ad.positive)
            return Rat(Poly.atom(a))
        if not (ad.arg.all_atoms() & set(mapping)):
            return Rat(Poly.atom(a))
        u = subs(ad.arg, mapping)
        return {"log": fn_log, "li2": fn_li2, "li3": fn_li3, "sqrt": fn_sqrt, "exp": fn_exp}[ad.kind](u)

    def sub_poly(p):
        res = Rat(Poly())
        cache = {}
        for m, (c, g) in p.t.items():
            term = Rat(Poly({(): (c, g)}))
            for a, k in m:
                if a not in cache:
                    cache[a] = sub_atom(a)
                term = term * rat_pow(cache[a], k)
            res = res + term
        return res

    out = sub_poly(r.n)
    for f, p in r.d.values():
        out = out / rat_pow(sub_poly(f), p)
    return out


def coeff_of(r, atom_name, power=1):
    """Coefficient (as Rat over the same denominator) of atom**power in the numerator."""
    r = to_rat(r)
    t = {}
    for m, v in r.n.t.items():
        d = dict(m)
        if d.get(atom_name, 0) == power:
            d.pop(atom_name, None)
            t[tuple(sorted(d.items()))] = v
    return Rat(Poly(t), dict(r.d))


def has_factor(r, atom_name):
    r = to_rat(r)
    return all(dict(m).get(atom_name, 0) >= 1 for m in r.n.t)


# numeric guard: evaluates *normal forms* (never repository code)
def _li2_num(x):
    if x == 1:
        return math.pi**2 / 6
    if x > 1:
        raise Undecided("li2 numeric outside domain")
    if x < -1:
        return -math.pi**2 / 6 - 0.5 * math.log(-x) ** 2 - _li2_num(1 / x)
    if x > 0.5:
        return math.pi**2 / 6 - math.log(x) * math.log(1 - x) - _li2_num(1 - x)
    s, t = 0.0, 1.0
    for k in range(1, 200):
        t *= x
        s += t / (k * k)
        if abs(t) < 1e-18:
            break
    return s


def _li3_num(x):
    if x > 1:
        raise Undecided("li3 numeric outside domain")
    if x == 1:
        return 1.2020569031595942
    if x < -1:
        lx = math.log(-x)
        return _li3_num(1 / x) - math.pi**2 / 6 * lx - lx**3 / 6
    if x > 0.5:
        # Li3(x) = -Li3(1-x) - Li3(1-1/x) + zeta3 + ln^3(x)/6 + pi^2/6 ln(x) - ln^2(x) ln(1-x)/2
        lx = math.log(x)
        return (-_li3_num(1 - x) - _li3_num(1 - 1 / x) + 1.2020569031595942 + lx**3 / 6 + math.pi**2 / 6 * lx - 0.5 * lx * lx * math.log(1 - x))
    s_, t = 0.0, 1.0
    for k in range(1, 400):
        t *= x
        s_ += t / (k * k * k)
        if abs(t) < 1e-18:
            break
    return s_


_MATH_CONSTANTS = {"pi": math.pi, "zeta3": 1.2020569031595942, "zeta5": 1.0369277551433699}


def evalf(r, env):
    r = to_rat(r)
    cache = {}

    def atom_val(a):
        if a in cache:
            return cache[a]
        if a in env:
            v = float(env[a])
        elif a in _MATH_CONSTANTS:
            v = _MATH_CONSTANTS[a]
        else:
            ad = ATOMS.get(a)
            if ad is None or ad.kind in ("sym", "opaque"):
                # deterministic pseudo-random value for free symbols / opaque calls
                import zlib

                v = 0.3 + (zlib.crc32(a.encode()) % 1000) / 1700.0
            else:
                u = evalf(ad.arg, env)
                if ad.kind == "log":
                    if u <= 0:
                        raise Undecided("numeric guard: log of non-positive value")
                    v = math.log(u)
                elif ad.kind == "sqrt":
                    if u < 0:
                        raise Undecided("numeric guard: sqrt of negative value")
                    v = math.sqrt(u)
                elif ad.kind == "exp":
                    v = math.exp(u)
                elif ad.kind == "li3":
                    v = _li3_num(u)
                else:
                    v = _li2_num(u)
        cache[a] = v
        return v

    def poly_val(p):
        s = 0.0
        for m, (c, _) in p.t.items():
            t = float(c)
            for a, k in m:
                t *= atom_val(a) ** k
            s += t
        return s

    v = poly_val(r.n)
    for f, p in r.d.values():
        v /= poly_val(f) ** p
    return v


def evalf_dec(r, env, prec=60):
    """evalf in `prec`-digit decimal arithmetic, for points where the float evaluation of the common-denominator
    normal form cancels catastrophically (z within 1e-6 of an end point).  `env` maps symbols to Fractions/ints/
    Decimals; dilogarithms fall back to float precision."""
    import decimal

    ctx = decimal.Context(prec=prec)
    D = decimal.Decimal

    def dec(v):
        if isinstance(v, D):
            return v
        if isinstance(v, Fraction):
            return ctx.divide(D(v.numerator), D(v.denominator))
        if isinstance(v, float):
            return D(repr(v))
        return D(v)

    cache = {}

    def atom_val(a):
        if a in cache:
            return cache[a]
        if a in env:
            v = dec(env[a])
        elif a in _MATH_CONSTANTS:
            v = {"pi": D("3.14159265358979323846264338327950288419716939937510582097494"),
                 "zeta3": D("1.20205690315959428539973816151144999076498629234049888179227")}.get(a)
            if v is None:
                v = D(repr(_MATH_CONSTANTS[a]))
        else:
            ad = ATOMS.get(a)
            if ad is None or ad.kind in ("sym", "opaque"):
                import zlib

                v = D(repr(0.3 + (zlib.crc32(a.encode()) % 1000) / 1700.0))
            else:
                u = value(to_rat(ad.arg))
                if ad.kind == "log":
                    if u <= 0:
                        raise Undecided("numeric guard: log of non-positive value")
                    v = ctx.ln(u)
                elif ad.kind == "sqrt":
                    if u < 0:
                        raise Undecided("numeric guard: sqrt of negative value")
                    v = ctx.sqrt(u)
                elif ad.kind == "exp":
                    v = ctx.exp(u)
                elif ad.kind == "li3":
                    v = D(repr(_li3_num(float(u))))
                else:
                    v = D(repr(_li2_num(float(u))))
        cache[a] = v
        return v

    def poly_val(p):
        s = D(0)
        for m, (c, _) in p.t.items():
            t = dec(c)
            for a, k in m:
                t = ctx.multiply(t, ctx.power(atom_val(a), k))
            s = ctx.add(s, t)
        return s

    def value(rr):
        v = poly_val(rr.n)
        for f, p_ in rr.d.values():
            v = ctx.divide(v, ctx.power(poly_val(f), p_))
        return v

    return value(to_rat(r))


def numerically_equal(a, b, var_envs, rtol=1e-7):
    """Guard against normaliser incompleteness: True if a and b agree at all sample points."""
    try:
        for env in var_envs:
            va, vb = evalf(a, env), evalf(b, env)
            if abs(va - vb) > rtol * max(1.0, abs(va), abs(vb)):
                return False
        return True
    except (Undecided, ZeroDivisionError, OverflowError, ValueError):
        return False
