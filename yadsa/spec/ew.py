"""Electroweak oracle, transcribed from the PDG review "Structure functions"
(eqs. 18.7-18.12 in the 2020 edition) and "Electroweak model" (tree-level
couplings), NOT from the code under analysis.

Conventions: g_V^f = T3_f - 2 Q_f sin^2(theta_W), g_A^f = T3_f;
eta_gammaZ = Q^2/(Q^2+MZ^2) / (4 s^2 (1-s^2)) [/ (1 - delta_prop)], eta_Z = eta_gammaZ^2.
For a charged lepton beam l^-/l^+ with helicity P (PDG: lambda), effective P_eff = -P for l^-, +P for l^+:

  F2-type weight (q + qbar):
     e_l^2 e_q^2 + 2 e_l (g_V^l + P_eff g_A^l) eta_gZ e_q g_V^q
     + (g_V^l^2 + g_A^l^2 + 2 P_eff g_V^l g_A^l) eta_Z (g_V^q^2 + g_A^q^2)
  F3-type weight (q - qbar):
     2 e_l (g_A^l + P_eff g_V^l) eta_gZ e_q g_A^q
     + (2 g_V^l g_A^l + P_eff (g_V^l^2 + g_A^l^2)) eta_Z 2 g_V^q g_A^q

(PDG writes the interference terms with an explicit minus sign because e_e = -1.)
"""

from fractions import Fraction as Fr

from .. import algebra as A

# PDG particle numbering and charges
CHARGE = {1: Fr(-1, 3), 2: Fr(2, 3), 3: Fr(-1, 3), 4: Fr(2, 3), 5: Fr(-1, 3), 6: Fr(2, 3),
          11: Fr(-1), 13: Fr(-1), 15: Fr(-1), 12: Fr(0), 14: Fr(0), 16: Fr(0), 21: Fr(0)}
T3 = {1: Fr(-1, 2), 2: Fr(1, 2), 3: Fr(-1, 2), 4: Fr(1, 2), 5: Fr(-1, 2), 6: Fr(1, 2),
      11: Fr(-1, 2), 13: Fr(-1, 2), 15: Fr(-1, 2), 12: Fr(1, 2), 14: Fr(1, 2), 16: Fr(1, 2), 21: Fr(0)}


def syms():
    return dict(
        Q2=A.sym("Q2", True), MZ=A.sym("MZ", True), MW=A.sym("MW", True), s2w=A.sym("s2w", True), pol=A.sym("pol"), dprop=A.sym("dprop"),
    )


def gV(pid, s2w):
    return A.Rat.const(T3[pid]) - A.to_rat(s2w) * (2 * CHARGE[pid])


def gA(pid):
    return A.Rat.const(T3[pid])


def eta_gZ(s):
    one = A.Rat.const(1)
    return (s["Q2"] / (s["MZ"] * s["MZ"] + s["Q2"])) / (A.to_rat(s["s2w"]) * (one - s["s2w"]) * 4) / (one - s["dprop"])


def eta_W(s):
    one = A.Rat.const(1)
    e = eta_gZ(s) / 2 * (one + s["Q2"] / (s["MZ"] * s["MZ"])) / (one + s["Q2"] / (s["MW"] * s["MW"]))
    return e * e


def nc_weight(q, lepton_pid, parity, process, s, peff_sign):
    """Weight of quark q (parity 'pc' -> q+qbar sum, 'pv' -> q-qbar) for EM/NC with a lepton beam.
    peff_sign: P_eff = peff_sign * pol."""
    l = abs(lepton_pid)
    el, eq = CHARGE[l], CHARGE[q]
    gvl, gal = gV(l, s["s2w"]), gA(l)
    gvq, gaq = gV(q, s["s2w"]), gA(q)
    P = A.to_rat(s["pol"]) * peff_sign
    if parity == "pc":
        w = A.Rat.const(el * el * eq * eq)
        if process == "NC":
            w = w + (gvl + P * gal) * eta_gZ(s) * gvq * (2 * el * eq)
            w = w + (gvl * gvl + gal * gal + P * gvl * gal * 2) * eta_gZ(s) * eta_gZ(s) * (gvq * gvq + gaq * gaq)
        return w
    w = A.Rat.const(0)
    if process == "NC":
        w = w + (gal + P * gvl) * eta_gZ(s) * gaq * (2 * el * eq)
        w = w + (gvl * gal * 2 + P * (gvl * gvl + gal * gal)) * eta_gZ(s) * eta_gZ(s) * (gvq * gaq * 2)
    return w


def nc_weight_by_type(q, lepton_pid, ctype, process, s, peff_sign):
    """The same weight split by quark coupling type VV/AA (parity conserving) and VA/AV (parity violating),
    i.e. VV+AA = 'pc' weight, VA+AV = 'pv' weight; photon axial coupling vanishes."""
    l = abs(lepton_pid)
    el, eq = CHARGE[l], CHARGE[q]
    gvl, gal = gV(l, s["s2w"]), gA(l)
    qph = {"V": A.Rat.const(eq), "A": A.Rat.const(0)}
    qz = {"V": gV(q, s["s2w"]), "A": gA(q)}
    P = A.to_rat(s["pol"]) * peff_sign
    a, b = ctype[0], ctype[1]
    pc = ctype in ("VV", "AA")
    w = (qph[a] * qph[b] * (el * el)) if pc else A.Rat.const(0)
    if process == "NC":
        lep_gz = (gvl + P * gal) if pc else (gal + P * gvl)
        lep_zz = (gvl * gvl + gal * gal + P * gvl * gal * 2) if pc else (gvl * gal * 2 + P * (gvl * gvl + gal * gal))
        w = w + lep_gz * el * eta_gZ(s) * qph[a] * qz[b] * 2
        w = w + lep_zz * eta_gZ(s) * eta_gZ(s) * qz[a] * qz[b]
    return w


# CKM: documented selection of elements by heavyness (docs/source/theory/fact.rst and the masks' intent)
UP, DOWN = ["u", "c", "t"], ["d", "s", "b"]
QUARK = {1: "d", 2: "u", 3: "s", 4: "c", 5: "b", 6: "t"}


def ckm_allowed(flavs):
    """Set of (up, down) element names switched on by the participating flavours string."""
    allowed = set()
    if "dus" in flavs:
        allowed |= {("u", "d"), ("u", "s")}
    if "c" in flavs:
        allowed |= {("c", "d"), ("c", "s")}
    if "b" in flavs:
        allowed |= {("u", "b"), ("c", "b")}
    if "t" in flavs:
        allowed |= {("t", "d"), ("t", "s"), ("t", "b")}
    return allowed


def ckm_sum(q, flavs, V2):
    """Sum of the allowed squared CKM elements in the row (up-type q) or column (down-type q)."""
    name = QUARK[q]
    s = A.Rat.const(0)
    for (u, d) in sorted(ckm_allowed(flavs)):
        if name in (u, d):
            s = s + V2[(u, d)]
    return s
