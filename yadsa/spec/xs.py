"""Cross-section oracle transcribed from docs/source/theory/intro.rst ("Cross sections"), NOT from the code.

sigma = N ( F2 - yL/y+ FL + (-1)^l y-/y+ xF3 ),  l = 0 for leptons, 1 for antileptons.
Returned as the coefficient vector N*[1, -yL/y+, (-1)^l y-/y+] on the basis (F2, FL, xF3).
Unit conversions (GeV^-2 -> cm^2 / pb) are documented only in words; `UNITS` lists the constants a
kind may be multiplied with.
"""

from fractions import Fraction as Fr

from .. import algebra as A

GEV_CM2_CONV = Fr("3.893793e10")  # GeV^-2 -> 10^-38 cm^2 (PDG hbar*c conversion)
UNITS = [Fr(1), GEV_CM2_CONV, GEV_CM2_CONV / 100]

KINDS_DOCUMENTED = ["XSHERANC", "XSHERACC", "XSCHORUSCC", "XSNUTEVCC", "XSNUTEVNU", "FW", "XSFPFCC"]


def syms():
    return dict(x=A.sym("xB", True), y=A.sym("y", True), Q2=A.sym("Q2", True), Mh=A.sym("MP", True), MW=A.sym("MW", True), GF=A.sym("GF", True),
                pi=A.sym("pi", True))


def vector(kind, s, antilepton):
    one = A.Rat.const(1)
    y, x, Q2, Mh, MW, GF, pi = s["y"], s["x"], s["Q2"], s["Mh"], s["MW"], s["GF"], s["pi"]
    yp = one + (one - y) * (one - y)
    ym = one - (one - y) * (one - y)
    yL = y * y
    sign = -1 if antilepton else 1
    prop = (one + Q2 / (MW * MW)) * (one + Q2 / (MW * MW))
    ypc = yp - (x * y * Mh) * (x * y * Mh) / Q2 * 2
    if kind == "XSHERANC":
        N = one
    elif kind == "XSHERANCAVG":
        # average over the lepton charge: the F3 term cancels
        return [one, -yL / yp, A.Rat.const(0)]
    elif kind == "XSHERACC":
        N = yp / 4
    elif kind == "XSCHORUSCC":
        yp = ypc
        N = GF * GF * Mh / (pi * 2 * prop) * yp
    elif kind == "XSNUTEVCC":
        yp = ypc
        N = A.Rat.const(100) / (prop * 2) * yp
    elif kind == "XSNUTEVNU":
        yp = ypc
        N = GF * GF * Mh / (pi * 2) * yp
    elif kind == "FW":
        N = one
        ym = A.Rat.const(0)
        yp = one
        yL = y * y / ((y * y / 2 + (one - y) - (Mh * x * y) * (Mh * x * y) / Q2) * 2)
    elif kind == "XSFPFCC":
        # d^2 sigma/dx dQ^2 = G_F^2/(4 pi x (1+Q^2/M_W^2)^2) [...]: from PDG d^2 sigma/dx dy = G_F^2 s/(4 pi (1+Q^2/M_W^2)^2) [...]
        # with dQ^2 = x s dy (the docs of the pinned tree had 8 pi; repaired by a docs-only fix: commit, see known_findings.json)
        N = GF * GF / (pi * 4 * x * prop) * yp
    elif kind == "F1":
        return [one, -one, A.Rat.const(0)]  # 2xF1 = F2 - FL
    else:
        raise KeyError(kind)
    return [N, -N * yL / yp, N * ym / yp * sign]
