"""Published NLO coefficient functions (a_s = alpha_s/4pi, gluon summed over 2 nf), NOT from the code.

F2, FL, F3: Bardeen, Buras, Duke, Muta (1978) / Furmanski-Petronzio (1982) in the form of van Neerven-Vogt (2000) eq. (4.3)-(4.4);
g1: Zijlstra-van Neerven (1994), de Florian-Sassot; g1 non-singlet = F3 non-singlet.

  c2q = CF { 4 [ln(1-z)/(1-z)]_+ - 3 [1/(1-z)]_+ - 2(1+z) ln(1-z) - 2 (1+z^2)/(1-z) ln z + 6 + 4z - (4 zeta2 + 9) delta(1-z) }
  c3q = c2q - 2 CF (1+z),   cLq = 4 CF z
  c2g = 4 nf TR { (z^2 + (1-z)^2) ln((1-z)/z) - 1 + 8 z (1-z) },   cLg = 16 nf TR z (1-z)
  dcg (g1) = 4 nf TR { (2z-1) ln((1-z)/z) - 4z + 3 }

Sum rules (first moments of the non-singlet coefficients; Adler; Gross-Llewellyn-Smith / Bjorken, Larin-Vermaseren 1991):
  Adler: 0 at every order;  GLS/Bjorken non-singlet: -4 a_s - (220/3 - 16 nf/3) a_s^2 - 64 (41.4399 - 7.6073 nf + 0.1775 nf^2) a_s^3
"""

from fractions import Fraction as Fr

from .. import algebra as A

CF = Fr(4, 3)
TR = Fr(1, 2)


def syms():
    z = A.sym("x", True)
    return z, A.sym("nf", True)


def zeta2():
    pi = A.sym("pi", True)
    return pi * pi / 6


def ns_parts(kind):
    """(reg, sing, loc) of the NLO non-singlet coefficient of F2 / F3 / g1."""
    z, nf = syms()
    one = A.Rat.const(1)
    L1 = A.fn_log(one - z)
    Lz = A.fn_log(z)
    reg = (-(one + z) * L1 * 2 - (one + z * z) / (one - z) * Lz * 2 + 6 + z * 4) * CF
    if kind in ("F3", "g1"):
        reg = reg - (one + z) * (2 * CF)
    sing = (L1 * 4 - 3) / (one - z) * CF
    loc = -(zeta2() * 4 + 9) * CF + (L1 * L1 * 2 - L1 * 3) * CF
    return reg, sing, loc


def fl_ns():
    z, nf = syms()
    return z * (4 * CF)


def gluon(kind):
    z, nf = syms()
    one = A.Rat.const(1)
    Lr = A.fn_log(one - z) - A.fn_log(z)
    if kind == "F2":
        return nf * (4 * TR) * ((z * z + (one - z) * (one - z)) * Lr - 1 + z * (one - z) * 8)
    if kind == "FL":
        return nf * (16 * TR) * z * (one - z)
    if kind == "g1":
        return nf * (4 * TR) * ((z * 2 - 1) * Lr - z * 4 + 3)
    raise KeyError(kind)


def gls(order, nf):
    return {1: -4.0, 2: -(220.0 / 3 - 16.0 * nf / 3), 3: -64.0 * (41.4399 - 7.6073 * nf + 0.1775 * nf * nf)}[order]
