"""Syntax-directed translation of straight-line Python into normal forms.

This is constant folding / sparse conditional constant propagation over the
domain {Python literals} + {algebra.Rat}: a function body is walked once,
`if` tests must fold to a constant under the bindings the calling rule supplies,
loops must run over literal (folded) iterables.  Anything else raises
`Undecided` and the *instance* is reported as undecided - never guessed.

No repository code is imported or executed; the walker reads `ast` nodes.
"""

from __future__ import annotations

import ast
import importlib.util
import math
import pathlib
from fractions import Fraction

from . import algebra as A
from .algebra import Rat, Undecided
from .model import ClassInfo, FuncInfo, Module, Project

import sys

MAX_DEPTH = 140
MAX_ITER = 20000
sys.setrecursionlimit(max(sys.getrecursionlimit(), 30000))


class Raised(Exception):
    """The analysed code raises an exception on this (folded) path."""

    def __init__(self, etype, msg="", node=None):
        super().__init__(f"{etype}: {msg}")
        self.etype = etype
        self.msg = msg
        self.node = node


def raised_is(r, name):
    """Is the exception an instance of the builtin exception `name` - itself, a builtin subclass, or a class of the project deriving from it?"""
    if _exc_matches(r.etype, name):
        return True
    obj = getattr(r, "obj", None)
    if obj is not None and obj.cinfo is not None:
        for c in obj.cinfo.mro():
            nm = c.split(".")[-1] if isinstance(c, str) else c.name
            if nm == name or _exc_matches(nm, name):
                return True
    return False


# ---- value kinds -----------------------------------------------------------
class FuncVal:
    def __init__(self, ev, finfo, closure=None, bound=None, defcls=None):
        self.ev = ev
        self.finfo = finfo
        self.closure = closure
        self.bound = bound  # self/cls object for bound methods
        self.defcls = defcls or finfo.cls

    def __call__(self, *args, **kwargs):
        return self.ev.call(self, list(args), kwargs)

    # one function object per definition and environment: looked up twice it is the same function (dict keys, ==, tuples of callables)
    def __eq__(self, other):
        return isinstance(other, FuncVal) and other.finfo is self.finfo and other.closure is self.closure and other.bound is self.bound

    def __hash__(self):
        return hash((id(self.finfo), id(self.closure), id(self.bound)))

    def __repr__(self):
        return f"<FuncVal {self.finfo.fq}>"


class ClassVal:
    def __init__(self, ev, cinfo):
        self.ev = ev
        self.cinfo = cinfo

    # a class is one object however often it is looked up (type(x), module attribute, import): equal and hashable by what it denotes
    def __eq__(self, other):
        return isinstance(other, ClassVal) and other.cinfo is self.cinfo

    def __hash__(self):
        return hash(id(self.cinfo))

    def __call__(self, *args, **kwargs):
        return self.ev.instantiate(self, list(args), kwargs)

    def __repr__(self):
        return f"<ClassVal {self.cinfo.fq}>"


class ModVal:
    def __init__(self, module):
        self.module = module

    def __repr__(self):
        return f"<ModVal {self.module.name}>"


class ExtVal:
    """Something from outside the project, known only by its dotted name."""

    def __init__(self, dotted):
        self.dotted = dotted

    def __call__(self, *args, **kwargs):
        ev = _ACTIVE[0]
        if ev is None:
            raise Undecided(f"call of external {self.dotted} outside a fold")
        return ev.call(self, list(args), kwargs)

    def __repr__(self):
        return f"<Ext {self.dotted}>"


class ObjVal:
    def __init__(self, cinfo=None, attrs=None, label=None):
        self.cinfo = cinfo
        self.attrs = attrs if attrs is not None else {}
        self.store = {}  # subscript storage for dict/list subclasses
        self.label = label

    def __iter__(self):
        if "__list__" in self.store:
            return iter(self.store["__list__"])
        return iter(list(self.store))

    def __len__(self):
        if "__list__" in self.store:
            return len(self.store["__list__"])
        return len(self.store)

    def __bool__(self):
        return True

    # value objects: a class that defines __eq__ / __hash__ is compared and hashed by them wherever Python would (dict keys, `in`, sets)
    def __eq__(self, other):
        if self is other:
            return True
        ci = self.cinfo
        ev = _ACTIVE[0] if "_ACTIVE" in globals() else None
        if ci is not None and ev is not None and isinstance(other, ObjVal):
            em = ci.find_method("__eq__")
            if em is not None:
                r = ev.call(FuncVal(ev, em, bound=self), [other], {})
                if r is NotImplemented or isinstance(r, _NotImplementedVal):
                    return False
                return bool(ev.truth(r))
            kind = ev._class_kind(ci)
            if kind == "dataclass" and other.cinfo is ci and not any("eq=False" in d.replace(" ", "") for c_ in ci.mro() if not isinstance(c_, str) for d in c_.decorators):
                # the __eq__ a dataclass gets: same class, fields with compare=True equal as a tuple
                for n_, dflt, c_ in ev._fields(ci):
                    if dflt is not None and isinstance(dflt, ast.Call) and any(k.arg == "compare" and isinstance(k.value, ast.Constant) and k.value.value is False for k in dflt.keywords):
                        continue
                    if not _eq(ev, self.attrs.get(n_), other.attrs.get(n_)):
                        return False
                return True
            if kind == "namedtuple" and "__list__" in self.store and "__list__" in other.store:
                a_, b_ = self.store["__list__"], other.store["__list__"]
                return len(a_) == len(b_) and all(_eq(ev, x, y) for x, y in zip(a_, b_))
        if ci is not None and ev is not None and isinstance(other, tuple) and "__list__" in self.store and ev._class_kind(ci) == "namedtuple":
            return len(other) == len(self.store["__list__"]) and all(_eq(ev, x, y) for x, y in zip(self.store["__list__"], other))
        return False

    def __ne__(self, other):
        return not self.__eq__(other)

    def __hash__(self):
        ci = self.cinfo
        ev = _ACTIVE[0] if "_ACTIVE" in globals() else None
        if ci is not None and ev is not None:
            hm = ci.find_method("__hash__")
            if hm is not None:
                return hash(_hashable(ev.call(FuncVal(ev, hm, bound=self), [], {})))
        return id(self) >> 4

    def __repr__(self):
        return f"<Obj {self.label or (self.cinfo.name if self.cinfo else '?')}>"


class _NotImplementedVal:
    """The singleton NotImplemented of the analysed code."""


def _hashable(v):
    """A Python-hashable stand-in with the equality of the folded value (numbers by normal form)."""
    v = num_norm(v) if not isinstance(v, (bool, str, bytes)) else v
    if isinstance(v, Rat):
        return ("rat", v.canon())
    if isinstance(v, (list, tuple)):
        return tuple(_hashable(x) for x in v)
    if isinstance(v, Arr):
        return ("arr", tuple(_hashable(x) for x in v.flat()))
    if isinstance(v, dict):
        return tuple(sorted((repr(k), _hashable(x)) for k, x in v.items()))
    return v


class SuperVal:
    def __init__(self, obj, after_cls):
        self.obj = obj
        self.after_cls = after_cls


class OpaqueObj:
    """Result of a call we do not model (logger, console...). Attribute access and calls are inert."""

    def __init__(self, label):
        self.label = label

    def __repr__(self):
        return f"<Opaque {self.label}>"


class Mask:
    """Boolean mask produced by np.isfinite/np.isnan on a folded array (entries are symbols: all finite)."""

    def __init__(self, arr, selects_nonfinite):
        self.arr = arr
        self.selects_nonfinite = selects_nonfinite


CELL_WATCH = [None]  # callable(list of cells about to be written) installed by a rule that watches caller-owned arrays (C20)


def _cells_written(cells):
    if CELL_WATCH[0] is not None:
        CELL_WATCH[0](cells)


class Cell:
    """One element slot of an array buffer.  Views (basic slices, rows, reshape, transpose, ravel, iteration over rows,
    asarray) share the Cells of their base, so a store through any of them is seen by all - as with numpy memory."""

    __slots__ = ("v", "buf", "pos")

    def __init__(self, v, buf=None, pos=0):
        self.v = v
        self.buf = buf  # the allocation this slot belongs to
        self.pos = pos  # its position there (C order): lets ravel/reshape tell contiguous views (-> view) from others (-> copy)


def _wrap_cells(d, _alloc=None):
    alloc = _alloc if _alloc is not None else [object(), 0]
    if isinstance(d, (list, tuple)):
        return [_wrap_cells(x, alloc) for x in d]
    c = Cell(d.v if isinstance(d, Cell) else d, alloc[0], alloc[1])
    alloc[1] += 1
    return c


def _contiguous(cells):
    """Do these cells (in flat order) occupy consecutive positions of one allocation?"""
    return all(b.buf is a.buf and b.pos == a.pos + 1 for a, b in zip(cells, cells[1:]))


def _unwrap_cells(c):
    # what an array holds are machine numbers: numpy-scalar-ness belongs to a value taken out element-wise, not to the slot
    return [_unwrap_cells(x) for x in c] if isinstance(c, list) else py_scalar(c.v)


class Arr:
    """Minimal numpy-array stand-in: nested lists of Cells.  `Arr(data)` allocates fresh cells for the nested values
    (a new array); `Arr.view(cells)` wraps existing cells (a view).  `.data` reads the values out as nested lists (a
    snapshot: mutating it changes nothing); every store goes through the cells (`_arr_store`, `overwrite`, `fill`)."""

    def __init__(self, data, _cells=None):
        self.cells = _cells if _cells is not None else _wrap_cells(data if isinstance(data, list) else list(data))

    @classmethod
    def view(cls, cells):
        return cls(None, _cells=cells)

    @property
    def data(self):
        return _unwrap_cells(self.cells)

    @data.setter
    def data(self, new):
        self.overwrite(new)

    def overwrite(self, new):
        """In-place assignment of all elements (ndarray `a += b`, `a[...] = v`): shared cells keep their identity."""
        def rec(c, d):
            if isinstance(c, list):
                if not isinstance(d, list) or len(d) != len(c):
                    return False
                return all(rec(x, y) for x, y in zip(c, d))
            if isinstance(d, list):
                return False
            return True

        def put(c, d):
            if isinstance(c, list):
                for x, y in zip(c, d):
                    put(x, y)
            else:
                c.v = d

        if rec(self.cells, new):
            _cells_written(self.flat_cells())
            put(self.cells, new)
        else:
            self.cells = _wrap_cells(new)  # shape change (numpy would refuse): new buffer

    def cell_ids(self):
        out = set()

        def rec(c):
            if isinstance(c, list):
                for x in c:
                    rec(x)
            else:
                out.add(id(c))

        rec(self.cells)
        return out

    @property
    def shape(self):
        s = []
        d = self.cells
        while isinstance(d, list):
            s.append(len(d))
            d = d[0] if d else None
        return tuple(s)

    def _map(self, f):
        def rec(d):
            return [rec(x) for x in d] if isinstance(d, list) else f(d)

        return Arr(rec(self.data))

    def _zip(self, o, f):
        """Elementwise combination with numpy broadcasting: shapes are aligned at the LAST axis, missing leading axes and
        axes of length 1 are stretched."""
        def rec(a, b):
            if isinstance(a, list) and isinstance(b, list):
                da, db = _depth(a), _depth(b)
                if da > db:
                    return [rec(x, b) for x in a]
                if db > da:
                    return [rec(a, y) for y in b]
                if len(a) != len(b):
                    if len(b) == 1:
                        return [rec(x, b[0]) for x in a]
                    if len(a) == 1:
                        return [rec(a[0], y) for y in b]
                    raise Raised("ValueError", f"operands could not be broadcast together (lengths {len(a)} and {len(b)})")
                return [rec(x, y) for x, y in zip(a, b)]
            if isinstance(a, list):
                return [rec(x, b) for x in a]
            if isinstance(b, list):
                return [rec(a, y) for y in b]
            return f(a, b)

        od = o.data if isinstance(o, Arr) else o
        return Arr(rec(self.data, od))

    def tolist(self):
        return self.data

    def flat(self):
        out = []

        def rec(d):
            if isinstance(d, list):
                for x in d:
                    rec(x)
            else:
                out.append(d)

        rec(self.data)
        return out

    def flat_cells(self):
        out = []

        def rec(d):
            if isinstance(d, list):
                for x in d:
                    rec(x)
            else:
                out.append(d)

        rec(self.cells)
        return out

    def reshape(self, *shape):
        if len(shape) == 1 and isinstance(shape[0], (tuple, list)):
            shape = tuple(shape[0])
        fl = self.flat_cells()
        shape = [num_norm(x) for x in shape]
        if any(not isinstance(x, int) for x in shape):
            raise Undecided("reshape with a symbolic shape")
        if shape.count(-1) > 1:
            raise Raised("ValueError", "can only specify one unknown dimension")
        if -1 in shape:
            known = 1
            for x in shape:
                if x != -1:
                    known *= x
            if known == 0 or len(fl) % known:
                raise Raised("ValueError", f"cannot reshape array of size {len(fl)} into shape {tuple(shape)}")
            shape[shape.index(-1)] = len(fl) // known
        total = 1
        for x in shape:
            total *= x
        if total != len(fl):
            raise Raised("ValueError", f"cannot reshape array of size {len(fl)} into shape {tuple(shape)}")

        def build(vals, dims):
            if len(dims) == 1:
                return list(vals)
            step = len(vals) // dims[0] if dims[0] else 0
            return [build(vals[i * step:(i + 1) * step], dims[1:]) for i in range(dims[0])]

        if not _contiguous(fl):
            fl = _wrap_cells([c.v for c in fl])  # numpy copies when the elements are not contiguous in memory
        return Arr.view(build(fl, shape)) if shape else (fl[0].v if fl else 0)

    @property
    def T(self):
        if len(self.shape) == 2:
            return Arr.view([list(r) for r in zip(*self.cells)])
        return self

    def __iter__(self):
        # the elements of a numeric array are numpy scalars, not Python numbers (yaml's safe loader/dumper refuse them)
        return iter([Arr.view(x) if isinstance(x, list) else np_scalar(x.v) for x in self.cells])

    def __len__(self):
        return len(self.cells)

    def __repr__(self):
        return f"Arr({self.data})"


def _ra(a, b):
    return num_norm(_r(a) + _r(b))


def _rs(a, b):
    return num_norm(_r(a) - _r(b))


def _rm(a, b):
    return num_norm(_r(a) * _r(b))


class Cx:
    """A complex value with folded real and imaginary parts (kernels that write `(... + 1j*pi*L ...).real`)."""

    __yadsa_native__ = True

    def __init__(self, re, im):
        self.real, self.imag = num_norm(re), num_norm(im)

    @staticmethod
    def of(v):
        return v if isinstance(v, Cx) else Cx(v, 0)

    def __add__(self, o):
        o = Cx.of(o)
        return Cx(_ra(self.real, o.real), _ra(self.imag, o.imag))

    __radd__ = __add__

    def __sub__(self, o):
        o = Cx.of(o)
        return Cx(_rs(self.real, o.real), _rs(self.imag, o.imag))

    def __rsub__(self, o):
        return Cx.of(o) - self

    def __neg__(self):
        return Cx(_rs(0, self.real), _rs(0, self.imag))

    def __mul__(self, o):
        o = Cx.of(o)
        return Cx(_rs(_rm(self.real, o.real), _rm(self.imag, o.imag)), _ra(_rm(self.real, o.imag), _rm(self.imag, o.real)))

    __rmul__ = __mul__

    def __truediv__(self, o):
        if isinstance(o, Cx):
            raise Undecided("division by a complex value")
        inv = num_norm(A.Rat.const(1) / _r(o))
        return Cx(_rm(self.real, inv), _rm(self.imag, inv))

    def __pow__(self, n):
        n = num_norm(n)
        if not isinstance(n, int) or n < 0 or n > 6:
            raise Undecided("power of a complex value")
        out = Cx(1, 0)
        for _ in range(n):
            out = out * self
        return out

    def __repr__(self):
        return f"Cx({self.real}, {self.imag})"


class NpInt(int):
    """An integer that came out of a numpy array element-wise (np.int64): equal to the int, but not a plain Python int."""

    def __repr__(self):
        return f"np.int64({int(self)})"


class NpFrac(Fraction):
    """A float that came out of a numpy array element-wise (np.float64)."""


class NpRat(Rat):
    """A symbolic number that came out of a numpy array or a numpy function (np.float64): arithmetic with it stays numpy-typed and a
    comparison with it yields np.bool_, not a Python bool (`np.True_ is True` is False)."""

    __slots__ = ()

    @staticmethod
    def of(r):
        o = object.__new__(NpRat)
        o.n, o.d = r.n, r.d
        return o

    def plain(self):
        o = object.__new__(Rat)
        o.n, o.d = self.n, self.d
        return o


class NpBool(int):
    """np.bool_: truthy / falsy and equal to the Python bool, but not identical to True / False and not an instance of bool."""

    def __repr__(self):
        return f"np.bool_({bool(self)})"


def np_scalar(x):
    if isinstance(x, (NpInt, NpFrac, NpRat, NpBool)):
        return x
    if isinstance(x, bool):
        return NpBool(x)
    if isinstance(x, int):
        return NpInt(x)
    if type(x) is Fraction:
        return NpFrac(x)
    if type(x) is Rat:
        return NpRat.of(x)
    return x


def is_np_scalar(x):
    return isinstance(x, (NpInt, NpFrac, NpRat, NpBool))


def py_scalar(x):
    """float(x) / int(x) / bool(x) / x.item() / x.tolist(): the plain Python value of a numpy scalar."""
    if isinstance(x, NpBool):
        return bool(x)
    if isinstance(x, NpInt):
        return int(x)
    if isinstance(x, NpFrac):
        return Fraction(x)
    if isinstance(x, NpRat):
        return x.plain()
    return x


def num_norm(v):
    """Collapse constant Rats to Fractions/ints (and read through 0-d arrays holding numbers)."""
    if isinstance(v, Arr0) and isinstance(v.value, (int, Fraction, Rat)) and not isinstance(v.value, bool):
        v = v.value
    if isinstance(v, Rat):
        c = v.const_value()
        if c is not None:
            if isinstance(v, NpRat):
                return NpInt(int(c)) if (isinstance(c, int) or c.denominator == 1) else NpFrac(c)
            v = c
    if isinstance(v, NpFrac):
        return NpInt(int(v)) if v.denominator == 1 else v
    if isinstance(v, Fraction) and v.denominator == 1:
        return int(v)
    return v


def is_num(v):
    return isinstance(v, (int, Fraction, Rat)) and not isinstance(v, bool) or isinstance(v, bool)


# ---- external parsed modules (eko) -----------------------------------------
_EXT_PROJECTS = {}


def _ext_module(dotted):
    """Locate (never import) a module of an installed pure-python dependency and parse it."""
    top = dotted.split(".")[0]
    if top not in ("eko",):
        return None
    if top not in _EXT_PROJECTS:
        spec = importlib.util.find_spec(top)
        if spec is None or not spec.submodule_search_locations:
            _EXT_PROJECTS[top] = None
        else:
            root = pathlib.Path(list(spec.submodule_search_locations)[0])
            _EXT_PROJECTS[top] = (root, {})
    entry = _EXT_PROJECTS[top]
    if entry is None:
        return None
    root, cache = entry
    if dotted in cache:
        return cache[dotted]
    rel = dotted.split(".")[1:]
    cand = [root.joinpath(*rel).with_suffix(".py"), root.joinpath(*rel, "__init__.py")]
    mod = None
    for c in cand:
        if rel == []:
            c = root / "__init__.py"
        if c.is_file():
            mod = Module(dotted, c, c.read_text(encoding="utf8"), c.name == "__init__.py")
            _MiniIndexer.index(mod)
            break
    cache[dotted] = mod
    return mod


class _MiniIndexer:
    @staticmethod
    def index(m):
        # reuse Project's indexer without building a whole project
        p = Project.__new__(Project)
        p.modules = {}
        p.src = m.path.parent
        p.pkg = m.name.split(".")[0]
        Project._index_module(p, m)


# ---- environment -----------------------------------------------------------
class Env:
    def __init__(self, ev, module, parent=None, func=None, defcls=None, self_obj=None):
        self.ev = ev
        self.module = module
        self.vars = {}
        self.parent = parent  # enclosing function Env (closure) or None
        self.func = func
        self.defcls = defcls
        self.self_obj = self_obj

    def lookup(self, name):
        e = self
        while e is not None:
            if name in e.vars:
                return e.vars[name]
            e = e.parent
        return self.ev.module_global(self.module, name)

    def assign(self, name, value):
        if name in getattr(self, "nonlocals", ()):
            e = self.parent
            while e is not None:
                if name in e.vars:
                    e.vars[name] = value
                    return
                e = e.parent
        if name in getattr(self, "globals_", ()):
            self.ev.mod_cache[(self.module.name, name)] = value
            return
        self.vars[name] = value


_BUILTIN_TYPES = {"dict": dict, "list": list, "str": str, "int": int, "tuple": tuple, "bool": bool, "set": set}


# census of what the folder actually walked in this process (merged from the pool workers by sweep.run_cells): bodies of project functions
# folded statement by statement, and project functions replaced by a rule-supplied summary
FOLDED = set()
SUMMARISED = set()


class Evaluator:
    def __init__(self, proj, colour="numeric", overrides=None, opaque_calls=None, on_call=None,
                 on_compare=None, lenient_ext=False, ext_calls=None):
        self.proj = proj
        self.on_compare = on_compare  # callable(op, a, b, node) -> bool | None (assumptions on symbols)
        self.lenient_ext = lenient_ext  # unknown external calls yield inert opaque objects
        self.ext_calls = ext_calls or {}  # dotted -> callable(ev, *args, **kwargs), rule-supplied summaries
        self._in_getattribute = set()
        self._memo_stores = {}  # (id(FuncInfo), id(closure Env)) -> {key: (key objects, value)} of lru_cache-decorated functions
        self._default_cache = {}  # (id(FuncInfo), id(closure Env)) -> (closure, finfo, {param: default value}), see _defaults_of
        self.class_stores = {}  # (class fq, attr) -> value assigned at run time (Cls.attr = v): shared by all instances
        self.tolerance_tests = []  # (node, a, b): isclose-type tests evaluated on symbolic operands
        self.watched = {}  # id(container) -> label: native dicts/lists whose writers are recorded in watch_hits
        self.watch_hits = []  # (label, how, node)
        self.watch_abort = False  # raise WatchedWrite at the first write that changes a watched container
        self.summaries = dict(PROJECT_SUMMARIES)  # fq -> callable(ev, *args, **kwargs); rules may add
        self.colour = colour
        self.depth = 0
        self.mod_cache = {}  # (module name, symbol) -> value
        self.overrides = overrides or {}  # "module::name" -> value (rule supplied)
        self.opaque_calls = set(opaque_calls or ())  # fq names of project functions kept opaque
        self.on_call = on_call
        self.call_listener = None  # callable(node, callee value) for every folded Call node
        self.trace = []

    # ---- module globals ----------------------------------------------
    def _run_registrations(self, module):
        """Apply (once per evaluator, in source order) the project decorators of module-level functions: what they do at import time
        (filling a registry) is part of the module's state."""
        regs = getattr(module, "registrations", None)
        if not regs:
            return
        done = self.__dict__.setdefault("_registrations_done", set())
        if module.name in done:
            return
        done.add(module.name)
        env = Env(self, module)
        env.vars = _ModuleVars(self, module)
        applied = self.__dict__.setdefault("_decorated", set())
        for st in regs:
            fi = module.functions.get(st.name)
            if fi is None:
                continue
            v = FuncVal(self, fi)
            applied.add(id(fi))
            for d in reversed(st.decorator_list):
                if ast.unparse(d).split("(")[0] in ("nb.njit", "numba.njit", "njit"):
                    continue
                v = self.call(self.eval(d, env), [v], {})
            self.mod_cache[(module.name, st.name)] = v

    def module_global(self, module, name):
        self._run_registrations(module)
        key = (module.name, name)
        ov = self.overrides.get(f"{module.name}::{name}")
        if ov is not None:
            return ov
        if key in self.mod_cache:
            return self.mod_cache[key]
        sym = module.symbols.get(name)
        if sym is None:
            if name == "__name__":
                return module.name
            if name == "__file__":
                return str(module.path)
            if self._run_dynamic(module) and key in self.mod_cache:
                return self.mod_cache[key]
            v = self.builtin(name)
            return v
        if sym.kind == "func":
            v = FuncVal(self, module.functions[name])
        elif sym.kind == "class":
            v = ClassVal(self, module.classes[name])
        elif sym.kind == "module":
            v = self.import_module(sym.target)
        elif sym.kind == "from":
            full = f"{sym.target}.{sym.attr}" if sym.target else sym.attr
            mv = self.import_module(full, soft=True)
            if mv is not None:
                v = mv
            else:
                base = self.import_module(sym.target)
                v = self.getattr(base, sym.attr, None)
        elif sym.kind == "const":
            self.mod_cache[key] = _PENDING
            env = Env(self, module)
            env.vars = _ModuleVars(self, module)
            self.exec_stmt(sym.node, env)
            v = self.mod_cache.get(key, _PENDING)
            if v is _PENDING:
                raise Undecided(f"module constant {module.name}.{name} not computable")
            return v
        else:
            raise Undecided(f"symbol kind {sym.kind}")
        self.mod_cache[key] = v
        return v

    def _run_dynamic(self, module):
        """Execute (once per evaluator) the module-level statements that can bind names dynamically; -> True if there were any."""
        stmts = getattr(module, "dynamic_stmts", None)
        if not stmts:
            return False
        done = self.__dict__.setdefault("_dynamic_done", set())
        if module.name in done:
            return True
        done.add(module.name)
        env = Env(self, module)
        env.vars = _ModuleVars(self, module)
        for st in stmts:
            if isinstance(st, ast.If) and "__main__" in ast.unparse(st.test):
                continue
            self.exec_stmt(st, env)
        return True

    def import_module(self, dotted, soft=False):
        if dotted in self.proj.modules:
            return ModVal(self.proj.modules[dotted])
        if dotted.split(".")[0] == self.proj.pkg:
            if soft:
                return None
            raise Raised("ModuleNotFoundError", dotted)
        m = _ext_module(dotted)
        if m is not None:
            return ModVal(m)
        if soft and dotted.split(".")[0] in ("eko",):
            return None
        if soft:
            # from numpy import x -> attribute of an external module
            return None
        return ExtVal(_canon_ext(dotted))

    def builtin(self, name):
        h = self.ext_calls.get(f"builtins.{name}")  # a rule-supplied model of a builtin with side effects (open)
        if h is not None:
            return _NativeFn(lambda *a, _h=h, **k: _h(self, *a, **k))
        if name in _BUILTINS:
            return _BUILTINS[name]
        raise Undecided(f"unknown name {name}")

    # ---- attribute access ----------------------------------------------
    def getattr(self, obj, attr, node):
        if isinstance(obj, ModVal):
            m = obj.module
            h = self.ext_calls.get(f"{m.name}.{attr}")
            if h is not None:
                return _NativeFn(lambda *a, _h=h, **k: _h(self, *a, **k))
            if attr in m.symbols:
                return self.module_global(m, attr)
            sub = f"{m.name}.{attr}"
            mv = self.import_module(sub, soft=True)
            if mv is not None:
                return mv
            if attr == "__name__":
                return m.name
            if attr == "__getattribute__":
                return _NativeFn(lambda name: self.getattr(obj, name, node))
            if self._run_dynamic(m) and (m.name, attr) in self.mod_cache:
                return self.mod_cache[(m.name, attr)]
            if attr == "__dict__":
                return _ModuleVars(self, m)
            raise Raised("AttributeError", f"module {m.name} has no attribute {attr}", node)
        if isinstance(obj, ExtVal):
            return self.ext_attr(obj, attr)
        if isinstance(obj, ObjVal):
            if obj.cinfo is not None and id(obj) not in self._in_getattribute:
                ga = obj.cinfo.find_method("__getattribute__")
                if ga is not None:
                    return self.call(FuncVal(self, ga, bound=obj), [attr], {})
            return self.default_getattr(obj, attr, node)
        if isinstance(obj, SuperVal):
            return self.class_lookup(obj.obj, obj.obj.cinfo if isinstance(obj.obj, ObjVal) else obj.obj.cinfo, attr, node, start_after=obj.after_cls)
        if isinstance(obj, ClassVal):
            c, v = obj.cinfo.find_attr(attr)
            if v is not None and not isinstance(v, FuncInfo) and not attr.startswith("_") and self._class_kind(obj.cinfo) == "enum":
                return self.enum_member(obj.cinfo, attr)
            if attr == "__members__" and self._class_kind(obj.cinfo) == "enum":
                return {m.attrs["name"]: m for m in self.enum_members(obj.cinfo)}
            if isinstance(v, FuncInfo):
                if v.is_classmethod:
                    return FuncVal(self, v, bound=obj, defcls=c)
                return FuncVal(self, v, defcls=c)
            if v is not None:
                cav = self.class_attr_value(c, attr, v)
                if isinstance(cav, _DescriptorWrap):
                    if cav.kind == "static":
                        return cav.f
                    if cav.kind == "class" and isinstance(cav.f, FuncVal):
                        return FuncVal(self, cav.f.finfo, closure=cav.f.closure, bound=obj, defcls=c)
                return cav
            if attr in ("__name__", "__qualname__"):
                return obj.cinfo.name
            if attr == "register" and any(isinstance(c_, str) and c_.split(".")[-1] == "ABC" for c_ in obj.cinfo.mro()):
                return _NativeFn(lambda sub, _o=obj: self.__dict__.setdefault("_abc_registry", {}).setdefault(_o.cinfo.fq, []).append(sub) or sub)
            if attr == "__mro__":
                return tuple(ClassVal(self, c_) if not isinstance(c_, str) else (_BUILTINS.get(c_.split(".")[-1]) or ExtVal(c_)) for c_ in obj.cinfo.mro()) + (_BUILTINS["object"],)
            if attr == "__bases__":
                return tuple(ClassVal(self, c_) if not isinstance(c_, str) else (_BUILTINS.get(c_.split(".")[-1]) or ExtVal(c_)) for c_ in obj.cinfo.bases)
            if attr == "_fields" and self._class_kind(obj.cinfo) == "namedtuple":
                return tuple(n_ for n_, _d, _c in self._fields(obj.cinfo))
            if attr == "_make" and self._class_kind(obj.cinfo) == "namedtuple":
                return _NativeFn(lambda it, _cv=obj: self.instantiate(_cv, list(self.iterate(it)), {}))
            if attr == "__members__" and self._class_kind(obj.cinfo) == "enum":
                return {m.attrs["name"]: m for m in self.enum_members(obj.cinfo)}
            if any(isinstance(c_, str) and c_.split(".")[-1] not in ("object",) for c_ in obj.cinfo.mro()):
                # the class has a base outside the project whose attributes this model does not list: not knowing one is not an AttributeError of the code
                raise Undecided(f"attribute {attr} of class {obj.cinfo.name}, which has a base class outside the project")
            raise Raised("AttributeError", f"class {obj.cinfo.name} has no attribute {attr}", node)
        if isinstance(obj, _ObjectType):
            if attr == "__getattribute__":
                return _NativeFn(lambda o, name: self.default_getattr(o, name, node))
            if attr in ("__name__", "__qualname__"):
                return "object"
            if attr == "__setattr__":
                return _NativeFn(_object_setattr)
            if attr == "__init__":
                return _NativeFn(lambda *a, **k: None)
            raise Undecided(f"object.{attr}")
        if isinstance(obj, OpaqueObj):
            return OpaqueObj(f"{obj.label}.{attr}")
        if isinstance(obj, Arr):
            if attr in ("shape", "T"):
                return getattr(obj, attr)
            if attr == "ndim":
                return len(obj.shape)
            if attr == "sort":
                def _sort(*a_, **k_):
                    if len(obj.shape) != 1:
                        raise Undecided("in-place sort of a matrix")
                    obj.overwrite(_sorted_concrete(obj.flat()))
                return _NativeFn(_sort)
            if attr == "tobytes":
                return _NativeFn(lambda *a, **k: ("bytes-of",) + tuple(_hashable(x) for x in obj.flat()) + (obj.shape,))
            if attr == "astype":
                return _NativeFn(lambda dtype, **k: _np_array(self, obj, dtype=dtype))
            if attr in ("reshape", "tolist", "flat"):
                return _NativeFn(getattr(obj, attr))
            if attr == "real":
                return obj
            if attr == "copy":
                return _NativeFn(lambda *a, **k: _deepcopy(self, obj))
            if attr == "size":
                return len(obj.flat_cells())
            if attr == "flatten":
                return _NativeFn(lambda *a, **k: Arr(obj.flat()))  # a copy
            if attr == "ravel":
                return _NativeFn(lambda *a, **k: _np_ravel(obj))
            if attr == "flat":
                return Arr.view(obj.flat_cells())
            if attr == "astype":
                return _NativeFn(lambda dtype=None, **k: _np_array(self, _deepcopy(self, obj), dtype=dtype))
            if attr == "nbytes":
                return 8 * len(obj.flat_cells())
            if attr in ("sum", "prod", "max", "min", "mean", "any", "all", "cumsum", "dot", "argmax", "argmin", "clip", "round", "squeeze", "item", "conj", "nonzero", "argsort", "std", "var"):
                fn = self.ext_calls.get(f"numpy.{attr}") or _EXT_CALLS.get(f"numpy.{attr}")
                if fn is None:
                    raise Undecided(f"array method {attr}")
                return _NativeFn(lambda *a, _fn=fn, **k: _fn(self, obj, *a, **k))
            if attr == "transpose":
                return _NativeFn(lambda *a: obj.T if not a else _raise_undecided("transpose with axes"))
            if attr == "dtype":
                return OpaqueObj("dtype")
            if attr == "fill":
                def fill(v):
                    _cells_written(obj.flat_cells())
                    for c_ in obj.flat_cells():
                        c_.v = v
                return _NativeFn(fill)
            raise Undecided(f"array attribute {attr}")
        if isinstance(obj, Arr0):
            if attr == "ndim":
                return 0
            if attr == "tolist":
                return _NativeFn(obj.tolist)
            raise Undecided(f"0-d array attribute {attr}")
        if getattr(obj, "__yadsa_native__", False):
            v = getattr(obj, attr)
            return _NativeFn(v) if callable(v) else v
        if isinstance(obj, (int, Fraction, Rat)) and attr in ("tolist", "ndim", "item", "real", "imag", "conjugate", "dtype"):
            if attr in ("tolist", "item"):
                return _NativeFn(lambda *a: py_scalar(obj))
            if attr in ("real", "conjugate"):
                return obj if attr == "real" else _NativeFn(lambda: obj)
            if attr == "imag":
                return 0
            if attr == "dtype":
                return OpaqueObj("dtype")
            return 0
        if isinstance(obj, FuncVal):
            if attr == "__name__":
                return obj.finfo.name
            raise Undecided(f"function attribute {attr}")
        if isinstance(obj, (Rat, Fraction, int)) and attr == "real":
            return obj
        if isinstance(obj, _TypeProxy):
            # dict.fromkeys, str.join, ... : class-level callables of the builtin types
            try:
                v = getattr(obj.pytype, attr)
            except AttributeError:
                raise Raised("AttributeError", f"type object '{obj.pytype.__name__}' has no attribute '{attr}'", node)
            if attr == "fromkeys":
                return _NativeFn(lambda it, value=None: obj.pytype.fromkeys(list(self.iterate(it)), value))
            return _NativeFn(v) if callable(v) else v
        if isinstance(obj, (str, list, dict, tuple, set, range)):
            try:
                v = getattr(obj, attr)
            except AttributeError:
                raise Raised("AttributeError", f"{type(obj).__name__} has no attribute {attr}", node)
            return _NativeFn(v) if callable(v) else v  # (a data attribute of a native container subclass, e.g. the names held by an npz archive)
        raise Undecided(f"attribute {attr} of {type(obj).__name__}")

    def default_getattr(self, obj, attr, node):
        """object.__getattribute__ semantics: data descriptors (properties) of the class, instance dict, then the class."""
        if attr in obj.attrs:
            if obj.cinfo is not None:
                m = obj.cinfo.find_method(attr)
                if m is not None and m.is_property:
                    return self.call(FuncVal(self, m, bound=obj), [], {})
            return obj.attrs[attr]
        if obj.cinfo is not None:
            self._in_getattribute.add(id(obj))
            try:
                return self.class_lookup(obj, obj.cinfo, attr, node, start_after=None)
            finally:
                self._in_getattribute.discard(id(obj))
        if attr == "__getattribute__":
            return _NativeFn(lambda name: self.getattr(obj, name, node))
        if obj.cinfo is None and "__real_names__" in obj.attrs and attr not in obj.attrs["__real_names__"]:
            # a stand-in for an object of a PROJECT class that lists every name the real class ever binds: a name outside that list is
            # missing on the real object as well (the probe-then-set idiom `try: o.memo / except AttributeError: o.memo = ...`)
            raise Raised("AttributeError", f"{obj!r} has no attribute {attr}", node)
        if obj.cinfo is None and not obj.attrs.get("__strict__"):
            # a record is the checker's stand-in for an external object: a missing attribute is a gap of the model
            raise Undecided(f"the model of external object {obj!r} has no attribute '{attr}'")
        raise Raised("AttributeError", f"{obj!r} has no attribute {attr}", node)

    def class_attr_value(self, cinfo, attr, valnode):
        key = (cinfo.fq, attr)
        if key in self.class_stores:
            return self.class_stores[key]
        if key not in self.mod_cache:
            env = Env(self, cinfo.module)
            self.mod_cache[key] = self.eval(valnode, env)
        return self.mod_cache[key]

    def class_lookup(self, obj, cinfo, attr, node, start_after):
        mro = cinfo.mro()
        if start_after is not None:
            idx = next((i for i, c in enumerate(mro) if c is start_after), None)
            mro = mro[idx + 1 :] if idx is not None else []
        for c in mro:
            if isinstance(c, ClassInfo) and attr == "__init__" and attr not in c.methods and isinstance(obj, ObjVal) and \
                    any(d.split("(")[0].split(".")[-1] == "dataclass" for d in c.decorators):
                return _NativeFn(lambda *a, _c=c, **k: self._dataclass_init(_c, obj, list(a), k))
            if not isinstance(c, ClassInfo) and c.split(".")[-1] in ("Mapping", "MutableMapping") and isinstance(obj, ObjVal):
                mix = self._mapping_mixin(obj, attr)
                if mix is not None:
                    return mix
            if not isinstance(c, ClassInfo) and isinstance(obj, ObjVal) and (c.split(".")[-1] in _EXC_PARENTS or c.split(".")[-1].endswith(("Error", "Exception", "Warning"))):
                if attr == "__init__":
                    def _einit(*a, _o=obj, **k):
                        _o.attrs["args"] = tuple(a)
                        _o.attrs["__exc_msg__"] = a[0] if len(a) == 1 else (tuple(a) if a else "")
                    return _NativeFn(_einit)
                if attr == "args":
                    return obj.attrs.get("args", ())
                if attr in ("__str__", "__repr__"):
                    return _NativeFn(lambda _o=obj: str(_o.attrs.get("__exc_msg__", "")))
            if not isinstance(c, ClassInfo):
                # external base: dict/list/abc.ABC/object
                if c == "list":
                    lst = obj.store.setdefault("__list__", [])
                    if attr == "__init__":
                        def _linit(it=(), _l=lst):
                            _l[:] = list(self.iterate(it))
                        return _NativeFn(_linit)
                    if hasattr(lst, attr):
                        return _NativeFn(getattr(lst, attr))
                if c == "dict":
                    if attr == "__init__":
                        def _dinit(m=None, _o=obj, **kw):
                            if m is not None:
                                _o.store.update(m.store if isinstance(m, ObjVal) else m)
                            _o.store.update(kw)
                        return _NativeFn(_dinit)
                    if hasattr(obj.store, attr):
                        return _NativeFn(getattr(obj.store, attr))
                if attr in ("__init__", "__init_subclass__"):
                    return _NativeFn(lambda *a, **k: None)
                continue
            if attr in c.methods:
                f = c.methods[attr]
                if getattr(f, "is_cached_property", False) and isinstance(obj, ObjVal):
                    if attr not in obj.attrs:
                        obj.attrs[attr] = self.call(FuncVal(self, f, bound=obj, defcls=c), [], {})
                    return obj.attrs[attr]
                if f.is_property:
                    return self.call(FuncVal(self, f, bound=obj, defcls=c), [], {})
                if f.is_static:
                    fv = FuncVal(self, f, defcls=c)
                    fv.via = obj  # the instance the static method was fetched from (provenance only)
                    return fv
                if f.is_classmethod:
                    return FuncVal(self, f, bound=ClassVal(self, cinfo), defcls=c)
                return FuncVal(self, f, bound=obj, defcls=c)
            if (c.fq, attr) in self.class_stores and attr not in c.attrs:
                return self.class_stores[(c.fq, attr)]
            if attr in c.attrs:
                v = self.class_attr_value(c, attr, c.attrs[attr])
                if isinstance(v, _DescriptorWrap):
                    if v.kind == "static":
                        return v.f
                    if v.kind == "class":
                        return FuncVal(self, v.f.finfo, closure=v.f.closure, bound=ClassVal(self, cinfo), defcls=c) if isinstance(v.f, FuncVal) else v.f
                    return self.call(v.f, [obj], {})  # property(fget)
                if isinstance(v, FuncVal) and v.bound is None and isinstance(obj, ObjVal):
                    # a plain function stored on the class (lambda, def or a function taken from another module): binds like a method
                    return FuncVal(self, v.finfo, closure=v.closure, bound=obj, defcls=c)
                return v
        if attr in ("__init__",):
            return _NativeFn(lambda *a, **k: None)
        if attr == "__getattribute__":
            return _NativeFn(lambda name: self.default_getattr(obj, name, node))
        if attr == "__class__":
            return ClassVal(self, cinfo)
        if isinstance(obj, ObjVal) and start_after is None and not (attr.startswith("__") and attr.endswith("__")):
            ga = cinfo.find_method("__getattr__")
            if ga is not None and ("__getattr__", attr, id(obj)) not in self._in_getattribute:
                self._in_getattribute.add(("__getattr__", attr, id(obj)))
                try:
                    return self.call(FuncVal(self, ga, bound=obj), [attr], {})
                finally:
                    self._in_getattribute.discard(("__getattr__", attr, id(obj)))
        if isinstance(obj, ObjVal) and self._class_kind(cinfo) == "namedtuple" and attr in ("_replace", "_asdict", "count", "index"):
            names = [n_ for n_, _d, _c in self._fields(cinfo)]
            if attr == "_asdict":
                return _NativeFn(lambda: {n_: obj.attrs[n_] for n_ in names})
            if attr == "_replace":
                def _replace(**kw):
                    bad = [k_ for k_ in kw if k_ not in names]
                    if bad:
                        raise Raised("ValueError", f"Got unexpected field names: {bad}")
                    return self.instantiate(ClassVal(self, cinfo), [], {n_: kw.get(n_, obj.attrs[n_]) for n_ in names})
                return _NativeFn(_replace)
            return _NativeFn(getattr(tuple(obj.attrs[n_] for n_ in names), attr))
        if attr == "__dataclass_fields__" and self._class_kind(cinfo) == "dataclass":
            return {n: record("dataclass_field_info", name=n) for n, _d, _c in self._fields(cinfo)}
        if attr == "_fields" and self._class_kind(cinfo) == "namedtuple":
            return tuple(n for n, _d, _c in self._fields(cinfo))
        if attr == "__dict__" and isinstance(obj, ObjVal):
            return obj.attrs
        if attr.startswith("__") and attr.endswith("__") and attr not in ("__call__", "__iter__", "__len__", "__getitem__", "__contains__", "__eq__", "__hash__", "__enter__", "__exit__",
                                                                         "__add__", "__radd__", "__mul__", "__rmul__", "__sub__", "__rsub__", "__neg__", "__truediv__", "__lt__", "__le__",
                                                                         "__gt__", "__ge__", "__ne__", "__bool__", "__str__", "__repr__", "__setitem__", "__delitem__", "__post_init__",
                                                                         "__next__", "__getattr__", "__setattr__", "__matmul__", "__pow__", "__abs__", "__float__", "__int__", "__index__"):
            # every Python object carries implicit special attributes this model does not list: not knowing one is not an AttributeError of the code
            raise Undecided(f"special attribute {attr} of a {cinfo.name} object")
        if attr == "__getattribute__":
            return _NativeFn(lambda name: self.getattr(obj, name, node))
        known = ("object", "dict", "list", "ABC", "Mapping", "MutableMapping", "NamedTuple", "Enum", "IntEnum", "StrEnum", "Generic", "Protocol", "str", "int", "float", "tuple")
        if any(isinstance(c_, str) and c_.split(".")[-1].split("[")[0] not in known and not (c_.split(".")[-1] in _EXC_PARENTS or c_.split(".")[-1].endswith(("Error", "Exception", "Warning")))
               for c_ in cinfo.mro()):
            # a base class outside the project whose attributes this model does not list: not knowing one is not an AttributeError of the code
            raise Undecided(f"attribute {attr} of a {cinfo.name} object, whose class has a base outside the project")
        raise Raised("AttributeError", f"{cinfo.name} object has no attribute {attr}", node)

    def _mapping_mixin(self, obj, attr):
        """collections.abc.Mapping: keys / items / values / get / __contains__ / __eq__ in terms of __getitem__, __iter__, __len__."""
        def keys():
            return list(self.iterate(obj))

        def getitem(k):
            return self.call(self.getattr(obj, "__getitem__", None), [k], {})

        if attr == "keys":
            return _NativeFn(keys)
        if attr == "values":
            return _NativeFn(lambda: [getitem(k) for k in keys()])
        if attr == "items":
            return _NativeFn(lambda: [(k, getitem(k)) for k in keys()])
        if attr == "get":
            def get(k, default=None):
                try:
                    return getitem(k)
                except Raised as r:
                    if r.etype == "KeyError":
                        return default
                    raise
            return _NativeFn(get)
        if attr == "__contains__" and obj.cinfo.find_method("__contains__") is None:
            def contains(k):
                try:
                    getitem(k)
                    return True
                except Raised as r:
                    if r.etype == "KeyError":
                        return False
                    raise
            return _NativeFn(contains)
        return None

    def ext_attr(self, obj, attr):
        d = _canon_ext(f"{obj.dotted}.{attr}")
        if d == "numpy.pi" or d == "math.pi":
            return A.sym("pi", positive=True)
        if d == "numpy.inf" or d == "math.inf":
            return INF
        if d == "numpy.newaxis":
            return None
        if d == "numpy.nan":
            raise Undecided("nan literal")
        return ExtVal(d)

    # ---- calls -----------------------------------------------------------
    def apply_class_decorators(self, cv, node, env):
        return cv  # dataclass & co. are recognised through ClassInfo.decorators when the class is instantiated

    @staticmethod
    def _class_kind(cinfo):
        """'dataclass' | 'namedtuple' | 'enum' | None, looking through the project part of the MRO."""
        for c in cinfo.mro():
            if isinstance(c, str):
                if c.split(".")[-1] in ("Enum", "IntEnum", "StrEnum", "Flag"):
                    return "enum"
                if c.split(".")[-1] == "NamedTuple":
                    return "namedtuple"
                continue
            if any(d.split("(")[0].split(".")[-1] == "dataclass" for d in c.decorators):
                return "dataclass"
            for b in c.base_exprs:
                nm = ast.unparse(b).split(".")[-1]
                if nm in ("Enum", "IntEnum", "StrEnum", "Flag"):
                    return "enum"
                if nm == "NamedTuple":
                    return "namedtuple"
        return None

    def _fields(self, cinfo):
        out, seen = [], set()
        for c in reversed([c for c in cinfo.mro() if not isinstance(c, str)]):
            for name, dflt in c.fields:
                if name in seen:
                    out = [(n, d, cc) for n, d, cc in out if n != name]
                seen.add(name)
                out.append((name, dflt, c))
        return out

    def enum_member(self, cinfo, name):
        key = (cinfo.fq, name)
        cache = self.__dict__.setdefault("_enum_members", {})
        if key not in cache:
            c, node = cinfo.find_attr(name)
            if node is None or not isinstance(node, ast.AST):
                raise Raised("AttributeError", f"{cinfo.name} has no member {name}")
            m = ObjVal(cinfo)
            m.attrs["name"] = name
            m.attrs["_name_"] = name
            cache[key] = m  # before evaluating the value (auto() etc. do not refer back)
            val = self.class_attr_value(c, name, node)
            m.attrs["value"] = val
            m.attrs["_value_"] = val
        return cache[key]

    def enum_members(self, cinfo):
        names = []
        for c in reversed([c for c in cinfo.mro() if not isinstance(c, str)]):
            for st in c.node.body:
                if isinstance(st, ast.Assign):
                    for t in st.targets:
                        if isinstance(t, ast.Name) and not t.id.startswith("_") and t.id not in names:
                            names.append(t.id)
        return [self.enum_member(cinfo, n) for n in names]

    def instantiate(self, cv, args, kwargs):
        obj = self._instantiate(cv, args, kwargs)
        lst = getattr(self, "instance_listener", None)
        if lst is not None and isinstance(obj, ObjVal):
            lst(self, cv.cinfo, obj)
        return obj

    def _instantiate(self, cv, args, kwargs):
        kind = self._class_kind(cv.cinfo)
        mro = cv.cinfo.mro()
        if any(isinstance(c, str) and c.split(".")[-1] == "ABC" for c in mro) or any(ast.unparse(k.value).endswith("ABCMeta") for c in mro if not isinstance(c, str)
                                                                               for k in getattr(c.node, "keywords", []) if k.arg == "metaclass"):
            seen = set()
            for c in mro:
                if isinstance(c, str):
                    continue
                for name, f in c.methods.items():
                    if name in seen:
                        continue
                    seen.add(name)
                    if getattr(f, "is_abstract", False):
                        raise Raised("TypeError", f"Can't instantiate abstract class {cv.cinfo.name} without an implementation for abstract method '{name}'")
        if kind == "enum":
            if len(args) != 1:
                raise Raised("TypeError", "enum lookup takes one value")
            for m in self.enum_members(cv.cinfo):
                if _eq(self, m.attrs["value"], args[0]):
                    return m
            raise Raised("ValueError", f"{args[0]!r} is not a valid {cv.cinfo.name}")
        obj = ObjVal(cv.cinfo)
        own_init = cv.cinfo.find_method("__init__")
        if kind in ("dataclass", "namedtuple") and own_init is None:
            self._dataclass_init(cv.cinfo, obj, args, kwargs)
            return obj
        init = self.class_lookup(obj, cv.cinfo, "__init__", None, None)
        self.call(init, args, kwargs)
        return obj

    def _dataclass_init(self, cinfo, obj, args, kwargs):
        """The __init__ a @dataclass / NamedTuple class gets: fields of the class and its bases in order, defaults, __post_init__."""
        kind = self._class_kind(cinfo)

        class _CV:
            pass

        cv = _CV()
        cv.cinfo = cinfo
        if True:
            fields = self._fields(cinfo)
            names = [f[0] for f in fields]
            if len(args) > len(names):
                raise Raised("TypeError", f"{cv.cinfo.name}() takes {len(names)} positional arguments but {len(args)} were given")
            given = dict(zip(names, args))
            for k, v in kwargs.items():
                if k not in names:
                    raise Raised("TypeError", f"{cv.cinfo.name}() got an unexpected keyword argument '{k}'")
                if k in given:
                    raise Raised("TypeError", f"{cv.cinfo.name}() got multiple values for argument '{k}'")
                given[k] = v
            for name, dflt, c in fields:
                if name in given:
                    obj.attrs[name] = given[name]
                elif dflt is not None:
                    v = self.class_attr_value(c, name, dflt)
                    if isinstance(v, ObjVal) and v.label == "dataclass_field":
                        if "default_factory" in v.attrs:
                            v = self.call(v.attrs["default_factory"], [], {})
                        elif "default" in v.attrs:
                            v = v.attrs["default"]
                        else:
                            raise Raised("TypeError", f"{cv.cinfo.name}() missing required argument: '{name}'")
                    obj.attrs[name] = v
                else:
                    raise Raised("TypeError", f"{cv.cinfo.name}() missing required argument: '{name}'")
            if kind == "namedtuple":
                obj.store["__list__"] = [obj.attrs[n] for n in names]
            post = cv.cinfo.find_method("__post_init__")
            if post is not None:
                self.call(FuncVal(self, post, bound=obj), [], {})
            return None

    def call(self, f, args, kwargs, node=None):
        if isinstance(f, FuncVal):
            return self.call_func(f, args, kwargs, node)
        if isinstance(f, ClassVal):
            return self.instantiate(f, args, kwargs)
        if isinstance(f, _NativeFn):
            if self.watched and id(getattr(f.fn, "__self__", None)) in self.watched and getattr(f.fn, "__name__", "") in _MUTATORS:
                return self._watched_call(f.fn, args, kwargs, node)
            try:
                return f.fn(*args, **kwargs)
            except (Raised, Undecided):
                raise
            except (ValueError, KeyError, IndexError, AttributeError, ZeroDivisionError) as e:
                # a builtin method of a folded str/list/dict value raised: that is the analysed code's exception
                raise Raised(type(e).__name__, str(e), node)
        if isinstance(f, _ObjectType):
            if args or kwargs:
                raise Raised("TypeError", "object() takes no arguments", node)
            return record("object")  # a fresh sentinel: identical only to itself
        if isinstance(f, ExtVal):
            return self.call_ext(f, args, kwargs, node)
        if isinstance(f, OpaqueObj):
            return OpaqueObj(f"{f.label}()")
        if isinstance(f, ObjVal):
            if "__call__" in f.attrs:
                return self.call(f.attrs["__call__"], args, kwargs, node)
            m = f.cinfo.find_method("__call__") if f.cinfo is not None else None
            if m is None:
                raise Raised("TypeError", f"{f!r} object is not callable", node)
            return self.call_func(FuncVal(self, m, bound=f), args, kwargs, node)
        if isinstance(f, type) and f in (ValueError, KeyError, NotImplementedError, RuntimeError, TypeError, AssertionError, IndexError, AttributeError):
            return _ExcVal(f.__name__, args[0] if args else "")
        if callable(f):
            if self.watched and id(getattr(f, "__self__", None)) in self.watched and getattr(f, "__name__", "") in _MUTATORS:
                return self._watched_call(f, args, kwargs, node)
            try:
                return f(*args, **kwargs)
            except (Raised, Undecided):
                raise
            except (TypeError, ValueError, KeyError, IndexError, ZeroDivisionError) as e:
                if isinstance(e, TypeError) and _has_symbol(args):
                    # e.g. sorted()/min()/max() over symbols: the order depends on the values
                    raise Undecided(f"builtin {getattr(f, '__name__', f)} on symbolic values ({e})")
                if isinstance(f, _TypeProxy) or f in _BUILTINS.values():
                    # a Python builtin applied to folded values raised: that is the analysed code's exception
                    raise Raised(type(e).__name__, str(e), node)
                raise
        raise Undecided(f"call of {type(f).__name__}")

    def _watched_call(self, fn, args, kwargs, node):
        c = fn.__self__
        before = _shallow(c)
        try:
            r = fn(*args, **kwargs)
        except (ValueError, KeyError, IndexError, AttributeError, TypeError) as e:
            raise Raised(type(e).__name__, str(e), node)
        if _shallow(c) != before:
            hit = (self.watched[id(c)], f".{fn.__name__}(...)", node)
            self.watch_hits.append(hit)
            if self.watch_abort:
                raise WatchedWrite(*hit)
        return r

    def _eval_defaults(self, fi, denv):
        a = fi.node.args
        params = [x.arg for x in a.posonlyargs + a.args]
        out = {}
        for p, d in zip(params[len(params) - len(a.defaults):], a.defaults):
            out[p] = self.eval(d, denv)
        for p, d in zip(a.kwonlyargs, a.kw_defaults):
            if d is not None:
                out[p.arg] = self.eval(d, denv)
        return out

    def _defaults_of(self, fv):
        """Default values are evaluated ONCE, when the function is defined (nested def / lambda: eagerly, see make_closure;
        module-level functions and methods: at the first call in this evaluator) - a mutable default is shared by all calls."""
        d = getattr(fv, "defaults", None)
        if d is not None:
            return d
        fi = fv.finfo
        a = fi.node.args
        if not a.defaults and not any(x is not None for x in a.kw_defaults):
            return {}
        key = (id(fi), id(fv.closure))
        ent = self._default_cache.get(key)
        if ent is None:
            ent = (fv.closure, fi, self._eval_defaults(fi, fv.closure or Env(self, fi.module)))
            self._default_cache[key] = ent
        return ent[2]

    def _memo_call(self, fv, args, kwargs, node):
        """functools.lru_cache / cache: the first result for a key (the call's arguments, by hash and ==) is returned for
        every later call with an equal key, whatever else changed in between; unhashable arguments raise as in Python."""
        fi = fv.finfo

        def hk(v):
            v = num_norm(v) if not isinstance(v, (bool, str)) else v
            if isinstance(v, (list, dict, set, Arr)) or (isinstance(v, ObjVal) and v.cinfo is None):
                raise Raised("TypeError", f"unhashable type: '{type(v).__name__}' (argument of the cached function {fi.name})", node)
            if isinstance(v, Rat):
                return ("rat", v.canon())
            if isinstance(v, tuple):
                return tuple(hk(x) for x in v)
            if isinstance(v, ObjVal):
                m = v.cinfo.find_method("__hash__")
                if m is not None:
                    return ("objhash", v.cinfo.fq, hk(self.call(FuncVal(self, m, bound=v), [], {})))
                return ("obj", id(v))
            if isinstance(v, (int, Fraction, str, bool, frozenset)) or v is None:
                return v
            return ("id", id(v))

        full = ([fv.bound] if fv.bound is not None and not fi.is_static else []) + list(args)
        key = (tuple(hk(x) for x in full), tuple(sorted((k, hk(v)) for k, v in kwargs.items())))
        store = self._memo_stores.setdefault((id(fi), id(fv.closure)), {})
        if key in store:
            return store[key][1]
        fv2 = FuncVal(self, fi, closure=fv.closure, bound=fv.bound, defcls=fv.defcls)
        fv2._memo_bypass = True
        if getattr(fv, "defaults", None) is not None:
            fv2.defaults = fv.defaults
        v = self.call_func(fv2, args, kwargs, node)
        store[key] = (full, v)  # keeps the key objects alive (ids stay unique)
        return v

    def _contextmanager(self, fv, args, kwargs, node):
        """@contextlib.contextmanager: __enter__ runs the generator to its yield and hands the yielded value over, __exit__ resumes it (code
        after the yield, in particular a `finally:` clean-up, runs when the block is left - normally or by an exception)."""
        fv2 = FuncVal(self, fv.finfo, closure=fv.closure, bound=fv.bound, defcls=fv.defcls)
        fv2._cm_bypass = True
        if getattr(fv, "defaults", None) is not None:
            fv2.defaults = fv.defaults
        gen = self.call_func(fv2, args, kwargs, node)
        state = {}

        def enter():
            try:
                state["v"] = next(iter(gen))
            except StopIteration:
                raise Raised("RuntimeError", "generator didn't yield", node)
            return state["v"]

        def exit_(*exc):
            for _ in gen:
                raise Raised("RuntimeError", "generator didn't stop", node)
            return None

        return record("contextmanager", __enter__=_NativeFn(enter), __exit__=_NativeFn(exit_))

    def make_closure(self, fi, env):
        fv = FuncVal(self, fi, closure=env)
        a = fi.node.args
        if a.defaults or any(x is not None for x in a.kw_defaults):
            try:
                fv.defaults = self._eval_defaults(fi, env)
            except Undecided:
                fv.defaults = None  # evaluated (once) at the first call instead
        return fv

    def call_func(self, fv, args, kwargs, node=None):
        fi = fv.finfo
        summ = self.summaries.get(fi.fq)
        if summ is not None:
            SUMMARISED.add(fi.fq)
            if fv.bound is not None and not fi.is_static:
                return summ(self, fv.bound, *args, **kwargs)
            return summ(self, *args, **kwargs)
        if fi.fq in self.opaque_calls:
            return A.opaque(fi.fq.split("::")[-1], tuple(args))
        if self.on_call is not None:
            r = self.on_call(self, fv, args, kwargs)
            if r is not NotImplemented:
                return r
        FOLDED.add(fi.fq)
        if getattr(fi, "other_decorators", None) and id(fi) not in self.__dict__.get("_decorated", ()):
            raise Undecided(f"function {fi.name} is wrapped by a decorator the folder gives no meaning to ({fi.other_decorators[0][:40]})")
        if getattr(fi, "memo_decorator", None) and not getattr(fv, "_memo_bypass", False):
            return self._memo_call(fv, args, kwargs, node)
        if getattr(fi, "is_contextmanager", False) and not getattr(fv, "_cm_bypass", False):
            return self._contextmanager(fv, args, kwargs, node)
        if self.depth > MAX_DEPTH:
            # the repository's own call chains are ~25 deep: this is unbounded recursion in the analysed code
            raise Raised("RecursionError", f"maximum recursion depth exceeded (folded call depth {self.depth})", node)
        a = fi.node.args
        if fv.bound is not None and not fi.is_static:
            args = [fv.bound] + list(args)
        env = Env(self, fi.module, parent=fv.closure, func=fi, defcls=fv.defcls)
        params = [x.arg for x in a.posonlyargs + a.args]
        defaults = [None] * (len(params) - len(a.defaults)) + list(a.defaults)
        dvals = self._defaults_of(fv)
        if len(args) > len(params) and a.vararg is None:
            raise Raised("TypeError", f"{fi.name}() takes {len(params)} positional arguments but {len(args)} were given", node)
        for i, p in enumerate(params):
            if i < len(args):
                env.vars[p] = args[i]
            elif p in kwargs:
                env.vars[p] = kwargs.pop(p)
            elif defaults[i] is not None:
                env.vars[p] = dvals[p]
            else:
                raise Raised("TypeError", f"{fi.name}() missing argument {p}", node)
        if a.vararg is not None:
            env.vars[a.vararg.arg] = tuple(args[len(params) :])
        for p, dflt in zip(a.kwonlyargs, a.kw_defaults):
            if p.arg in kwargs:
                env.vars[p.arg] = kwargs.pop(p.arg)
            elif dflt is not None:
                env.vars[p.arg] = dvals[p.arg]
            else:
                raise Raised("TypeError", f"{fi.name}() missing keyword argument {p.arg}", node)
        if a.kwarg is not None:
            env.vars[a.kwarg.arg] = dict(kwargs)
        elif kwargs:
            raise Raised("TypeError", f"{fi.name}() got unexpected keyword arguments {sorted(kwargs)}", node)
        if params and fv.bound is not None and not fi.is_static:
            env.self_obj = args[0]
        self.depth += 1
        try:
            if isinstance(fi.node, ast.Lambda):
                return self.eval(fi.node.body, env)
            if _is_generator(fi.node):
                return LazyGen(lambda: self.exec_block(fi.node.body, env))
            sig = self.exec_block(fi.node.body, env)
            if sig is not None and sig[0] == "return":
                return sig[1]
            return None
        finally:
            self.depth -= 1

    def e_Yield(self, n, env):
        gen = getattr(_GEN_LOCAL, "current", None)
        if gen is None:
            raise Undecided("yield outside a folded generator")
        gen.yield_(self.eval(n.value, env) if n.value is not None else None)
        return None

    def e_YieldFrom(self, n, env):
        gen = getattr(_GEN_LOCAL, "current", None)
        if gen is None:
            raise Undecided("yield from outside a folded generator")
        for x in self.iterate(self.eval(n.value, env)):
            gen.yield_(x)
        return None

    def call_ext(self, f, args, kwargs, node):
        d = f.dotted
        h = self.ext_calls.get(d) or _EXT_CALLS.get(d)
        if h is not None:
            self.current_call_node = node
            r = h(self, *args, **kwargs)
            if d.startswith("numpy.") and isinstance(r, (int, Fraction, Rat)) and not isinstance(r, bool) and d not in _NUMPY_PY_RESULTS:
                return np_scalar(r)  # numpy functions return numpy scalars, also for Python arguments
            return r
        top = d.split(".")[0]
        if top in ("LeProHQ", "adani"):
            self.__dict__.setdefault("opaque_ext_log", []).append((d, tuple(args), node))  # rules audit the literal arguments (C16.ext)
            return A.opaque(d, tuple(args))
        if top in ("logging", "rich", "time", "warnings"):
            return OpaqueObj(d + "()")
        if self.lenient_ext:
            return OpaqueObj(d + "()")
        raise Undecided(f"call of external {d}")

    # ---- statements ------------------------------------------------------
    def exec_block(self, stmts, env):
        for s in stmts:
            sig = self.exec_stmt(s, env)
            if sig is not None:
                return sig
        return None

    def exec_stmt(self, s, env):
        self.current_stmt = s
        if isinstance(s, ast.Expr):
            if isinstance(s.value, ast.Constant):
                return None
            self.eval(s.value, env)
            return None
        if isinstance(s, ast.Assign):
            v = self.eval(s.value, env)
            for t in s.targets:
                self.assign(t, v, env)
            return None
        if isinstance(s, ast.AnnAssign):
            if s.value is not None:
                self.assign(s.target, self.eval(s.value, env), env)
            return None
        if isinstance(s, ast.AugAssign):
            cur = self.eval(_load(s.target), env)
            rhs = self.eval(s.value, env)
            if isinstance(cur, list) and isinstance(s.op, ast.Add):
                cur.extend(self.iterate(rhs))  # list += is in place
                v = cur
            elif isinstance(cur, Arr0) and isinstance(cur.value, (int, Fraction, Rat)):
                cur.value = num_norm(self.binop(s.op, cur.value, rhs))  # 0-d ndarray: in place
                v = cur
            else:
                v = self.binop(s.op, cur, rhs)
                if isinstance(cur, Arr) and isinstance(v, Arr):
                    cur.data = v.data  # ndarray augmented assignment is in place: aliases see it
                    v = cur
            self.assign(s.target, v, env)
            return None
        if isinstance(s, ast.Return):
            return ("return", self.eval(s.value, env) if s.value is not None else None)
        if isinstance(s, ast.If):
            t = self.truth(self.eval(s.test, env), s.test)
            return self.exec_block(s.body if t else s.orelse, env)
        if isinstance(s, ast.For):
            it = self.iterate(self.eval(s.iter, env))
            n = 0
            broke = False
            for item in it:
                n += 1
                if n > MAX_ITER:
                    raise Undecided("loop bound exceeded")
                self.assign(s.target, item, env)
                sig = self.exec_block(s.body, env)
                if sig is not None:
                    if sig[0] == "break":
                        broke = True
                        break
                    if sig[0] == "continue":
                        continue
                    return sig
            if not broke and s.orelse:
                return self.exec_block(s.orelse, env)
            return None
        if isinstance(s, ast.While):
            n = 0
            while self.truth(self.eval(s.test, env), s.test):
                n += 1
                if n > MAX_ITER:
                    raise Undecided("loop bound exceeded")
                sig = self.exec_block(s.body, env)
                if sig is not None:
                    if sig[0] == "break":
                        break
                    if sig[0] == "continue":
                        continue
                    return sig
            return None
        if isinstance(s, (ast.FunctionDef,)):
            fi = getattr(s, "_func", None)
            if fi is None:
                raise Undecided("unindexed nested function")
            env.assign(s.name, self.make_closure(fi, env))
            return None
        if isinstance(s, ast.Pass):
            return None
        if isinstance(s, ast.Continue):
            return ("continue",)
        if isinstance(s, ast.Break):
            return ("break",)
        if isinstance(s, ast.Raise):
            if s.exc is None:
                raise Raised("reraise", "", s)
            e = self.eval(s.exc, env)
            if isinstance(e, ClassVal) and _exc_base_of(e.cinfo) is not None:
                e = self.instantiate(e, [], {})  # `raise MyError` instantiates the class
            if isinstance(e, ObjVal) and e.cinfo is not None and _exc_base_of(e.cinfo) is not None:
                r_ = Raised(e.cinfo.name, e.attrs.get("__exc_msg__", ""), s)
                r_.obj = e  # the exception object itself (its attributes, its class for `except Base`)
                raise r_
            if isinstance(e, _ExcVal):
                raise Raised(e.etype, e.msg, s)
            if isinstance(e, type) and issubclass(e, BaseException):
                raise Raised(e.__name__, "", s)
            raise Raised("Exception", str(e), s)
        if isinstance(s, ast.Try):
            # Python semantics: the finally block runs whatever happens in the body, the handler or the else block;
            # an exception raised there propagates after the finally block (unless the finally block itself leaves)
            pending = None
            sig = None
            try:
                try:
                    sig = self.exec_block(s.body, env)
                except Raised as r:
                    for h in s.handlers:
                        names = []
                        if h.type is None:
                            names = None
                        elif isinstance(h.type, ast.Tuple):
                            names = [ast.unparse(x).split(".")[-1] for x in h.type.elts]
                        else:
                            names = [ast.unparse(h.type).split(".")[-1]]
                        robj = getattr(r, "obj", None)
                        lineage = ([c.name if not isinstance(c, str) else c.split(".")[-1] for c in robj.cinfo.mro()] if robj is not None else None)
                        if names is None or any(_exc_matches(r.etype, nm) for nm in names) or \
                                (lineage is not None and any(nm in lineage or any(_exc_matches(l_, nm) for l_ in lineage) for nm in names)):
                            if h.name:
                                env.assign(h.name, robj if robj is not None else _ExcVal(r.etype, r.msg))
                            sig = self.exec_block(h.body, env)
                            break
                    else:
                        raise
                else:
                    if s.orelse:
                        sig2 = self.exec_block(s.orelse, env)
                        if sig2 is not None:
                            sig = sig2
            except (Raised, Undecided) as exc:
                pending = exc
            if s.finalbody:
                sig3 = self.exec_block(s.finalbody, env)
                if sig3 is not None:
                    return sig3
            if pending is not None:
                raise pending
            return sig
        if isinstance(s, ast.Assert):
            if not self.truth(self.eval(s.test, env), s.test):
                raise Raised("AssertionError", "", s)
            return None
        if isinstance(s, ast.Delete):
            for t in s.targets:
                if isinstance(t, ast.Subscript):
                    c = self.eval(t.value, env)
                    k = self.eval(t.slice, env)
                    if isinstance(c, ObjVal):
                        c = c.store
                    if id(c) in self.watched:
                        hit = (self.watched[id(c)], "del [...]", t)
                        self.watch_hits.append(hit)
                        if self.watch_abort:
                            raise WatchedWrite(*hit)
                    del c[k]
                elif isinstance(t, ast.Name):
                    env.vars.pop(t.id, None)
                else:
                    raise Undecided("del target")
            return None
        if isinstance(s, (ast.Import, ast.ImportFrom)):
            if isinstance(s, ast.Import):
                for a in s.names:
                    env.assign(a.asname or a.name.split(".")[0], self.import_module(a.name if a.asname else a.name.split(".")[0]))
            else:
                base = self.proj._abs_import(env.module, s.level, s.module)
                for a in s.names:
                    mv = self.import_module(f"{base}.{a.name}", soft=True)
                    if mv is None:
                        mv = self.getattr(self.import_module(base), a.name, s)
                    env.assign(a.asname or a.name, mv)
            return None
        if isinstance(s, ast.Global):
            env.globals_ = set(getattr(env, "globals_", ())) | set(s.names)
            return None
        if isinstance(s, ast.Nonlocal):
            env.nonlocals = set(getattr(env, "nonlocals", ())) | set(s.names)
            return None
        if isinstance(s, ast.ClassDef):
            # a class defined inside a function: its bases are whatever the base expressions evaluate to here
            ci = getattr(s, "_class", None)
            if ci is None:
                raise Undecided("class statement without model")
            bases = []
            for b in s.bases:
                bv = self.eval(b, env)
                if isinstance(bv, ClassVal):
                    bases.append(bv.cinfo)
                elif isinstance(bv, _TypeProxy):
                    bases.append(bv.pytype.__name__)
                else:
                    bases.append(ast.unparse(b))
            ci.bases = bases
            ci._mro = None
            cv = ClassVal(self, ci)
            cv.closure = env
            env.assign(s.name, self.apply_class_decorators(cv, s, env))
            return None
        if isinstance(s, ast.Match):
            return self.exec_match(s, env)
        if isinstance(s, ast.With):
            exits = []
            for item in s.items:
                ctx = self.eval(item.context_expr, env)
                val = ctx
                if isinstance(ctx, ObjVal) and ctx.cinfo is not None and ctx.cinfo.find_method("__enter__") is not None:
                    val = self.call(self.getattr(ctx, "__enter__", s), [], {})
                    exits.append(ctx)
                elif isinstance(ctx, ObjVal) and "__enter__" in ctx.attrs:
                    val = self.call(ctx.attrs["__enter__"], [], {})
                    if "__exit__" in ctx.attrs:
                        exits.append(ctx)
                if item.optional_vars is not None:
                    self.assign(item.optional_vars, val, env)
            try:
                sig = self.exec_block(s.body, env)
            finally:
                for ctx in reversed(exits):
                    ex = ctx.attrs.get("__exit__") if "__exit__" in ctx.attrs else self.getattr(ctx, "__exit__", s)
                    self.call(ex, [None, None, None], {})
            return sig
        raise Undecided(f"statement {type(s).__name__}")

    def assign(self, t, v, env):
        if isinstance(t, ast.Name):
            env.assign(t.id, v)
        elif isinstance(t, (ast.Tuple, ast.List)):
            items = list(self.iterate(v))
            stars = [i for i, e in enumerate(t.elts) if isinstance(e, ast.Starred)]
            if stars:
                i = stars[0]
                n_after = len(t.elts) - i - 1
                if len(items) < len(t.elts) - 1:
                    raise Raised("ValueError", "not enough values to unpack", t)
                for e, x in zip(t.elts[:i], items[:i]):
                    self.assign(e, x, env)
                self.assign(t.elts[i].value, items[i:len(items) - n_after], env)
                for e, x in zip(t.elts[i + 1:], items[len(items) - n_after:]):
                    self.assign(e, x, env)
                return
            if len(items) != len(t.elts):
                raise Raised("ValueError", "unpack length mismatch", t)
            for e, x in zip(t.elts, items):
                self.assign(e, x, env)
        elif isinstance(t, ast.Attribute):
            o = self.eval(t.value, env)
            if isinstance(o, ObjVal):
                if o.cinfo is not None:
                    sa = o.cinfo.find_method("__setattr__")
                    if sa is not None and ("__setattr__", id(o)) not in self._in_getattribute:
                        self._in_getattribute.add(("__setattr__", id(o)))
                        try:
                            self.call(FuncVal(self, sa, bound=o), [t.attr, v], {})
                        finally:
                            self._in_getattribute.discard(("__setattr__", id(o)))
                        return
                    if any("frozen=True" in d.replace(" ", "") for c_ in o.cinfo.mro() if not isinstance(c_, str) for d in c_.decorators):
                        raise Raised("FrozenInstanceError", f"cannot assign to field '{t.attr}'", t)
                    setter = None
                    for c in o.cinfo.mro():
                        if not isinstance(c, str) and t.attr in c.setters:
                            setter = c.setters[t.attr]
                            break
                    if setter is not None:
                        self.call(FuncVal(self, setter, bound=o), [v], {})
                        return
                    m = o.cinfo.find_method(t.attr)
                    if m is not None and m.is_property:
                        raise Raised("AttributeError", f"property '{t.attr}' of '{o.cinfo.name}' object has no setter", t)
                o.attrs[t.attr] = v
            elif isinstance(o, OpaqueObj):
                pass
            elif isinstance(o, ClassVal):
                self.class_stores[(o.cinfo.fq, t.attr)] = v
            else:
                raise Undecided(f"attribute store on {type(o).__name__}")
        elif isinstance(t, ast.Subscript):
            o = self.eval(t.value, env)
            k = self.eval(t.slice, env)
            if isinstance(k, Mask):
                if k.selects_nonfinite:
                    # folded entries are symbols standing for finite numbers: nothing is selected
                    if isinstance(o, Arr):
                        o.cleaned = True
                    return
                raise Undecided("masked assignment to the finite entries")
            k = _key(k)
            if isinstance(o, ObjVal):
                o.store[k] = v
            elif isinstance(o, (dict, list)):
                if id(o) in self.watched:
                    try:
                        unchanged = o[k] is v or bool(o[k] == v)
                    except Exception:
                        unchanged = False
                    if not unchanged:
                        hit = (self.watched[id(o)], "[...] = ...", t)
                        self.watch_hits.append(hit)
                        if self.watch_abort:
                            raise WatchedWrite(*hit)
                o[k] = v
            elif isinstance(o, Arr):
                _arr_store(o, k, v, t)
            else:
                raise Undecided(f"subscript store on {type(o).__name__}")
        elif isinstance(t, ast.Starred):
            raise Undecided("starred assignment")
        else:
            raise Undecided(f"assignment target {type(t).__name__}")

    # ---- match statement ------------------------------------------------------
    def exec_match(self, s, env):
        subject = self.eval(s.subject, env)
        for case in s.cases:
            binds = {}
            if self._match(case.pattern, subject, binds, env):
                for k, v in binds.items():
                    env.assign(k, v)
                if case.guard is not None and not self.truth(self.eval(case.guard, env), case.guard):
                    continue
                return self.exec_block(case.body, env)
        return None

    def _match(self, pat, v, binds, env):
        if isinstance(pat, ast.MatchValue):
            return _eq(self, v, self.eval(pat.value, env))
        if isinstance(pat, ast.MatchSingleton):
            return v is pat.value
        if isinstance(pat, ast.MatchAs):
            if pat.pattern is not None and not self._match(pat.pattern, v, binds, env):
                return False
            if pat.name is not None:
                binds[pat.name] = v
            return True
        if isinstance(pat, ast.MatchOr):
            for p_ in pat.patterns:
                b2 = {}
                if self._match(p_, v, b2, env):
                    binds.update(b2)
                    return True
            return False
        if isinstance(pat, ast.MatchSequence):
            if isinstance(v, (str, dict)) or not isinstance(v, (list, tuple, Arr)):
                return False
            items = list(self.iterate(v))
            stars = [i for i, p_ in enumerate(pat.patterns) if isinstance(p_, ast.MatchStar)]
            if not stars:
                if len(items) != len(pat.patterns):
                    return False
                return all(self._match(p_, x, binds, env) for p_, x in zip(pat.patterns, items))
            i = stars[0]
            before, after = pat.patterns[:i], pat.patterns[i + 1:]
            if len(items) < len(before) + len(after):
                return False
            ok = all(self._match(p_, x, binds, env) for p_, x in zip(before, items))
            ok = ok and all(self._match(p_, x, binds, env) for p_, x in zip(after, items[len(items) - len(after):]))
            if ok and pat.patterns[i].name:
                binds[pat.patterns[i].name] = items[len(before):len(items) - len(after)]
            return ok
        if isinstance(pat, ast.MatchMapping):
            if isinstance(v, ObjVal):
                v = v.store
            if not isinstance(v, dict):
                return False
            for k, p_ in zip(pat.keys, pat.patterns):
                kk = self.eval(k, env)
                if kk not in v or not self._match(p_, v[kk], binds, env):
                    return False
            if pat.rest:
                ks = [self.eval(k, env) for k in pat.keys]
                binds[pat.rest] = {k: x for k, x in v.items() if k not in ks}
            return True
        if isinstance(pat, ast.MatchClass):
            cls = self.eval(pat.cls, env)
            if not _BUILTINS["isinstance"](v, cls):
                return False
            if pat.patterns:
                raise Undecided("positional class pattern")
            for name, p_ in zip(pat.kwd_attrs, pat.kwd_patterns):
                try:
                    av = self.getattr(v, name, None)
                except Raised:
                    return False
                if not self._match(p_, av, binds, env):
                    return False
            return True
        raise Undecided(f"match pattern {type(pat).__name__}")

    # ---- expressions -------------------------------------------------------
    def truth(self, v, node=None):
        v = num_norm(v)
        if isinstance(v, Rat):
            # truth of a number is `v != 0`: the comparison machinery decides it (assumption hooks of the rule first, then a
            # definite sign, then the generic-point fold of `non-constant polynomial != constant`)
            try:
                return self.compare(ast.NotEq(), v, 0, node)
            except Undecided:
                raise Undecided(f"symbolic condition: {ast.unparse(node) if node is not None else v}")
        if isinstance(v, (ObjVal, FuncVal, ClassVal, ModVal, ExtVal)):
            if isinstance(v, ObjVal) and v.cinfo is not None and any(
                b in ("dict", "list") for b in v.cinfo.mro() if not isinstance(b, ClassInfo)
            ):
                return bool(v.store)
            return True
        if isinstance(v, OpaqueObj):
            raise Undecided(f"opaque condition {v.label}")
        if isinstance(v, Cx):
            return self.truth(v.real, node) or self.truth(v.imag, node)
        if isinstance(v, Arr):
            fl = v.flat()
            if len(fl) == 1:
                return self.truth(fl[0], node)
            if not fl:
                return False  # numpy (< 2.2): empty array is falsy, with a DeprecationWarning
            raise Raised("ValueError", "The truth value of an array with more than one element is ambiguous. Use a.any() or a.all()", node)
        if isinstance(v, Arr0):
            return self.truth(v.value, node)
        return bool(v)

    def iterate(self, v):
        if isinstance(v, (list, tuple, range, str, set, frozenset)):
            return v
        if isinstance(v, LazyGen) or type(v).__name__ == "generator":
            return v  # single-pass and lazy: handed through as it is
        if type(v).__name__ in ("count", "zip", "islice"):
            return v
        if isinstance(v, ClassVal) and self._class_kind(v.cinfo) == "enum":
            return self.enum_members(v.cinfo)
        if isinstance(v, dict):
            return list(v)
        if isinstance(v, Arr):
            return [Arr.view(x) if isinstance(x, list) else np_scalar(x.v) for x in v.cells]
        if isinstance(v, (type({}.items()), type({}.keys()), type({}.values()), enumerate, zip, filter, map)):
            return list(v)
        if isinstance(v, ObjVal):
            if v.cinfo is not None:
                m = v.cinfo.find_method("__iter__")
                if m is not None:
                    return list(self.iterate(self.call(FuncVal(self, m, bound=v), [], {})))
            if "__list__" in v.store:
                return v.store["__list__"]
            return list(v.store)
        if hasattr(v, "__iter__") and not isinstance(v, (Rat,)):
            return list(v)
        raise Undecided(f"iteration over {type(v).__name__}")

    def eval(self, n, env):
        m = getattr(self, "e_" + type(n).__name__, None)
        if m is None:
            raise Undecided(f"expression {type(n).__name__}")
        return m(n, env)

    def e_Constant(self, n, env):
        v = n.value
        if isinstance(v, float):
            return num_norm(A.frac(v))
        if isinstance(v, complex):
            return Cx(num_norm(A.frac(v.real)), num_norm(A.frac(v.imag)))
        return v

    def e_Name(self, n, env):
        return env.lookup(n.id)

    def e_Attribute(self, n, env):
        return self.getattr(self.eval(n.value, env), n.attr, n)

    def e_Tuple(self, n, env):
        return tuple(self._elts(n.elts, env))

    def e_List(self, n, env):
        return self._elts(n.elts, env)

    def e_Set(self, n, env):
        return set(self._elts(n.elts, env))

    def _elts(self, elts, env):
        out = []
        for e in elts:
            if isinstance(e, ast.Starred):
                out.extend(self.iterate(self.eval(e.value, env)))
            else:
                out.append(self.eval(e, env))
        return out

    def e_Dict(self, n, env):
        d = {}
        for k, v in zip(n.keys, n.values):
            if k is None:
                d.update(self.eval(v, env))
            else:
                d[_key(self.eval(k, env))] = self.eval(v, env)
        return d

    def e_NamedExpr(self, n, env):
        v = self.eval(n.value, env)
        while getattr(env, "is_comp", False) and env.parent is not None:
            env = env.parent
        env.assign(n.target.id, v)
        return v

    def e_JoinedStr(self, n, env):
        parts = []
        for v in n.values:
            if isinstance(v, ast.Constant):
                parts.append(str(v.value))
            else:
                x = num_norm(self.eval(v.value, env))
                if isinstance(x, Rat):
                    parts.append("<" + x.canon()[:40] + ">")
                    continue
                if isinstance(x, (ObjVal, ClassVal)):
                    parts.append(_b_str(x))
                    continue
                if v.conversion == ord("r"):
                    parts.append(repr(x))
                else:
                    if isinstance(x, Fraction):
                        x = float(x)
                    parts.append(format(x, self.eval(v.format_spec, env) if v.format_spec else ""))
        return "".join(parts)

    def e_UnaryOp(self, n, env):
        v = self.eval(n.operand, env)
        if isinstance(n.op, ast.Not):
            return not self.truth(v, n.operand)
        if isinstance(n.op, ast.USub):
            if isinstance(v, Arr):
                return v._map(lambda x: num_norm(-_r(x)))
            if is_inf(v) or isinstance(v, Cx):
                return -v
            r_ = num_norm(-_r(v)) if isinstance(v, Rat) else -v
            return np_scalar(r_) if is_np_scalar(v) else r_
        if isinstance(n.op, ast.UAdd):
            return v
        if isinstance(n.op, ast.Invert):
            if isinstance(v, Mask):
                return Mask(v.arr, not v.selects_nonfinite)
            if isinstance(v, bool) or (isinstance(v, int) and not isinstance(v, NpInt)) or isinstance(v, NpInt):
                return ~int(v)
            if isinstance(v, Arr):
                fl = v.flat()
                if all(isinstance(x, bool) for x in fl):
                    return v._map(lambda x: not x)
            raise Undecided("bitwise invert")
        raise Undecided("unary op")

    def e_BinOp(self, n, env):
        try:
            return self.binop(n.op, self.eval(n.left, env), self.eval(n.right, env))
        except Raised as r:
            if r.node is None:
                r.node = n
            raise

    _DUNDER = {ast.Add: "add", ast.Sub: "sub", ast.Mult: "mul", ast.Div: "truediv", ast.MatMult: "matmul", ast.Pow: "pow"}

    def binop(self, op, a, b):
        r = self._binop(op, a, b)
        if (is_np_scalar(a) or is_np_scalar(b)) and isinstance(r, (int, Fraction, Rat)) and not isinstance(r, bool):
            return np_scalar(r)  # arithmetic with a numpy scalar gives a numpy scalar
        return r

    def _binop(self, op, a, b):
        if isinstance(a, Arr0):
            a = num_norm(a)
        if isinstance(b, Arr0):
            b = num_norm(b)
        if getattr(a, "__yadsa_native__", False) or getattr(b, "__yadsa_native__", False):
            import operator as _op

            fn = {ast.Add: _op.add, ast.Sub: _op.sub, ast.Mult: _op.mul, ast.Div: _op.truediv, ast.Pow: _op.pow}.get(type(op))
            if fn is None:
                raise Undecided("operator on a native model object")
            if isinstance(a, Cx) or isinstance(b, Cx):
                if isinstance(op, ast.Pow):
                    return fn(Cx.of(a), b)
                if isinstance(op, ast.Div):
                    if isinstance(b, Cx):
                        raise Undecided("division by a complex value")
                    return fn(a, b)
                return fn(Cx.of(a), Cx.of(b))
            return fn(a, b)
        if isinstance(a, ObjVal) or isinstance(b, ObjVal):
            name = self._DUNDER.get(type(op))
            if name is not None:
                if isinstance(a, ObjVal) and a.cinfo is not None:
                    m = a.cinfo.find_method(f"__{name}__")
                    if m is not None:
                        return self.call(FuncVal(self, m, bound=a), [b], {})
                if isinstance(b, ObjVal) and b.cinfo is not None:
                    m = b.cinfo.find_method(f"__r{name}__")
                    if m is not None:
                        return self.call(FuncVal(self, m, bound=b), [a], {})
                if isinstance(a, Arr) and isinstance(b, ObjVal) and isinstance(op, ast.MatMult):
                    # numpy object arrays: coeffs @ np.array([obj, obj, obj])
                    pass
            raise Raised("TypeError", f"unsupported operand type(s) for {type(op).__name__}: {a!r} and {b!r}")
        if isinstance(a, Arr) or isinstance(b, Arr):
            if isinstance(op, ast.MatMult):
                return _matmul(self, a, b)
            if isinstance(a, (list, tuple)):
                a = Arr(list(a))
            if isinstance(b, (list, tuple)):
                b = Arr(list(b))
            if not isinstance(a, Arr):
                return b._map(lambda y: self.binop(op, a, y))
            return a._zip(b, lambda x, y: self.binop(op, x, y))
        if isinstance(op, ast.Add):
            if isinstance(a, (str, list, tuple)) and type(a) is type(b):
                return a + b
            if is_inf(a) or is_inf(b):
                return (a if is_inf(a) else b)
            return num_norm(_r(a) + _r(b)) if _sym(a, b) else _pyop(a, b, lambda x, y: x + y)
        if isinstance(op, ast.Sub):
            if isinstance(a, (set, frozenset)) and isinstance(b, (set, frozenset)):
                return a - b
            return num_norm(_r(a) - _r(b)) if _sym(a, b) else _pyop(a, b, lambda x, y: x - y)
        if isinstance(op, ast.Mult):
            if isinstance(a, (str, list, tuple)) and isinstance(b, int):
                return a * b
            if isinstance(b, (str, list, tuple)) and isinstance(a, int):
                return b * a
            if is_inf(a) or is_inf(b):
                if _sym(a, b):
                    return INF  # symbols multiplying infinity are positive quantities (masses, ratios)
                return float(a) * float(b)
            return num_norm(_r(a) * _r(b)) if _sym(a, b) else _pyop(a, b, lambda x, y: x * y)
        if isinstance(op, ast.Div):
            if is_inf(b):
                return 0
            if is_inf(a):
                return a
            if not isinstance(b, Rat) and b == 0:
                raise Raised("ZeroDivisionError", "division by zero")
            if _sym(a, b):
                return num_norm(_r(a) / _r(b))
            return num_norm(Fraction(a) / Fraction(b))
        if isinstance(op, ast.Pow):
            if is_inf(a):
                return a if (isinstance(b, int) and b % 2) else INF
            if _sym(a, b):
                return num_norm(A.rat_pow(_r(a), b))
            if isinstance(b, Fraction) and b.denominator != 1:
                return num_norm(A.rat_pow(_r(a), b))
            if isinstance(b, int) and b < 0:
                return num_norm(Fraction(1) / Fraction(a) ** (-b))
            return num_norm(a**b)
        if isinstance(op, ast.Mod):
            if isinstance(a, str):
                vals = b if isinstance(b, tuple) else (b,)
                if any(isinstance(num_norm(v), Rat) for v in vals):
                    # a message with symbolic content: keep the canonical text
                    vals = tuple(A.canon(num_norm(v)) if isinstance(num_norm(v), Rat) else v for v in vals)
                    a = a.replace("%d", "%s").replace("%f", "%s").replace("%g", "%s")
                try:
                    return a % tuple(float(v) if isinstance(v, Fraction) else v for v in vals)
                except (TypeError, ValueError) as e:
                    raise Raised(type(e).__name__, str(e))
            if _sym(a, b):
                raise Undecided("symbolic modulo")
            return a % b
        if isinstance(op, ast.FloorDiv):
            if _sym(a, b):
                raise Undecided("symbolic floor division")
            return a // b
        if isinstance(op, ast.MatMult):
            return _matmul(self, a, b)
        if isinstance(op, (ast.LShift, ast.RShift)):
            if isinstance(a, int) and isinstance(b, int):
                return a << b if isinstance(op, ast.LShift) else a >> b
            raise Undecided("shift of a non-integer")
        if isinstance(op, (ast.BitOr, ast.BitAnd, ast.BitXor)) and (isinstance(a, Arr) or isinstance(b, Arr)):
            def bit(x, y, _op=op):
                x, y = num_norm(x), num_norm(y)
                if isinstance(x, (bool, int)) and isinstance(y, (bool, int)):
                    return {ast.BitOr: lambda p, q: p | q, ast.BitAnd: lambda p, q: p & q, ast.BitXor: lambda p, q: p ^ q}[type(_op)](x, y)
                raise Undecided("bitwise operator on non-integer array elements")

            if isinstance(a, Arr):
                return a._zip(b, bit)
            return b._zip(a, lambda y, x: bit(x, y))
        if isinstance(op, (ast.BitOr, ast.BitAnd, ast.BitXor)):
            if isinstance(a, (dict, set, frozenset, bool, int)) and isinstance(b, (dict, set, frozenset, bool, int)) and not isinstance(a, Rat):
                try:
                    return {ast.BitOr: lambda x, y: x | y, ast.BitAnd: lambda x, y: x & y, ast.BitXor: lambda x, y: x ^ y}[type(op)](a, b)
                except TypeError as e:
                    raise Raised("TypeError", str(e))
            raise Undecided(f"binary operator {type(op).__name__} on {type(a).__name__}")
        raise Undecided(f"binary operator {type(op).__name__}")

    def e_BoolOp(self, n, env):
        if isinstance(n.op, ast.And):
            v = True
            for x in n.values:
                v = self.eval(x, env)
                if not self.truth(v, x):
                    return v
            return v
        v = False
        for x in n.values:
            v = self.eval(x, env)
            if self.truth(v, x):
                return v
        return v

    def e_Compare(self, n, env):
        left = self.eval(n.left, env)
        res = True
        for op, rn in zip(n.ops, n.comparators):
            right = self.eval(rn, env)
            res = self.compare(op, left, right, n)
            if not res:
                return res
            left = right
        return res

    def compare(self, op, a, b, node):
        if (isinstance(a, Arr) or isinstance(b, Arr)) and isinstance(op, (ast.Lt, ast.LtE, ast.Gt, ast.GtE, ast.Eq, ast.NotEq)) and not isinstance(a, Mask) and not isinstance(b, Mask):
            # numpy compares element by element (with broadcasting) and gives an array of booleans
            one = lambda x, y: bool(self._compare(op, x, y, node))
            if isinstance(a, Arr):
                return a._zip(b, one)
            return b._zip(a, lambda y, x: one(x, y))
        r = self._compare(op, a, b, node)
        if isinstance(r, bool) and not isinstance(op, (ast.Is, ast.IsNot, ast.In, ast.NotIn)) and (is_np_scalar(a) or is_np_scalar(b)):
            return NpBool(r)  # a comparison with a numpy scalar yields np.bool_
        return r

    def _compare(self, op, a, b, node):
        if isinstance(op, (ast.Is, ast.IsNot)) and (isinstance(a, Arr0) or isinstance(b, Arr0)):
            return (a is b) if isinstance(op, ast.Is) else (a is not b)
        if isinstance(op, (ast.Is, ast.IsNot)) and (isinstance(a, NpBool) or isinstance(b, NpBool)):
            return (a is b) if isinstance(op, ast.Is) else (a is not b)  # np.True_ is not the singleton True
        a, b = num_norm(a), num_norm(b)
        if isinstance(op, (ast.Is, ast.IsNot)):
            same = a is b or (a is None and b is None) or (isinstance(a, ClassVal) and isinstance(b, ClassVal) and a.cinfo is b.cinfo) \
                or (isinstance(a, _TypeProxy) and isinstance(b, _TypeProxy) and a.pytype is b.pytype) \
                or (isinstance(a, ExtVal) and isinstance(b, ExtVal) and a.dotted == b.dotted)
            return same if isinstance(op, ast.Is) else not same
        if isinstance(op, (ast.In, ast.NotIn)):
            if isinstance(b, ObjVal):
                m = b.cinfo.find_method("__contains__") if b.cinfo is not None else None
                if m is not None:
                    r = self.truth(self.call(FuncVal(self, m, bound=b), [a], {}))
                    return r if isinstance(op, ast.In) else not r
                b = b.store["__list__"] if "__list__" in b.store else b.store
            if isinstance(a, Rat):
                raise Undecided("symbolic membership test")
            r = a in b
            return r if isinstance(op, ast.In) else not r
        if isinstance(a, Rat) or isinstance(b, Rat):
            if self.on_compare is not None:
                r = self.on_compare(op, a, b, node)
                if r is not None:
                    return r
            if isinstance(op, (ast.Eq, ast.NotEq)) and isinstance(a, Rat) and isinstance(b, Rat):
                eq = A.equal(a, b, tol=Fraction(0))
                if eq:
                    return isinstance(op, ast.Eq)
            if isinstance(op, (ast.Eq, ast.NotEq)) and (isinstance(a, str) or isinstance(b, str) or a is None or b is None):
                return isinstance(op, ast.NotEq)
            if isinstance(op, (ast.Eq, ast.NotEq)) and (
                (isinstance(b, (int, Fraction)) and not isinstance(a, (int, Fraction)))
                or (isinstance(a, (int, Fraction)) and not isinstance(b, (int, Fraction)))
            ):
                # a polynomial that is not identically constant differs from a constant for generic
                # parameter values (all but a measure-zero set): fold with the generic truth value
                self.generic_folds = getattr(self, "generic_folds", 0) + 1
                return isinstance(op, ast.NotEq)
            raise Undecided(f"symbolic comparison: {ast.unparse(node)}")
        if (is_inf(a) and isinstance(b, Rat)) or (is_inf(b) and isinstance(a, Rat)):
            raise Undecided("comparison of a symbol with infinity")
        try:
            if isinstance(op, ast.Eq):
                return _eq(self, a, b)
            if isinstance(op, ast.NotEq):
                return not _eq(self, a, b)
            if isinstance(op, ast.Lt):
                return a < b
            if isinstance(op, ast.LtE):
                return a <= b
            if isinstance(op, ast.Gt):
                return a > b
            if isinstance(op, ast.GtE):
                return a >= b
        except TypeError as e:
            raise Raised("TypeError", str(e), node)
        raise Undecided("comparison operator")

    def e_IfExp(self, n, env):
        return self.eval(n.body if self.truth(self.eval(n.test, env), n.test) else n.orelse, env)

    def e_Lambda(self, n, env):
        fi = getattr(n, "_func", None)
        if fi is None:
            raise Undecided("unindexed lambda")
        return self.make_closure(fi, env)

    def e_Call(self, n, env):
        # super()
        if isinstance(n.func, ast.Name) and n.func.id == "super" and not n.args:
            return SuperVal(env_self(env), env_defcls(env))
        if isinstance(n.func, ast.Name) and n.func.id == "globals" and not n.args and not n.keywords:
            return _ModuleVars(self, env.module)
        f = self.eval(n.func, env)
        args = self._elts(n.args, env)
        kwargs = {}
        for k in n.keywords:
            if k.arg is None:
                kwargs.update(self.eval(k.value, env))
            else:
                kwargs[k.arg] = self.eval(k.value, env)
        if self.call_listener is not None:
            self.call_listener(n, f)
        _ACTIVE[0] = self
        try:
            return self.call(f, args, kwargs, n)
        except Raised as r:
            if r.node is None:
                r.node = n
            raise

    def e_Subscript(self, n, env):
        o = self.eval(n.value, env)
        k = self.eval(n.slice, env)
        return self.subscript(o, k, n)

    def subscript(self, o, k, n=None):
        k = _key(k)
        if isinstance(o, ObjVal):
            getitem = None
            if o.cinfo is not None:
                getitem = o.cinfo.find_method("__getitem__")
            if getitem is not None:
                return self.call(FuncVal(self, getitem, bound=o), [k], {})
            if "__list__" in o.store and isinstance(k, (int, slice)):
                try:
                    return o.store["__list__"][k]
                except IndexError:
                    raise Raised("IndexError", "tuple index out of range", n)
            if k in o.store:
                return o.store[k]
            raise Raised("KeyError", repr(k), n)
        if isinstance(o, Arr):
            if isinstance(k, Arr) and k.shape == o.shape and len(o.shape) > 1 and all(isinstance(x, bool) for x in k.flat()):
                return Arr([c.v for c, m_ in zip(o.flat_cells(), k.flat()) if m_])  # a[mask] with a full-shape mask: the selected elements, flat, a copy
            if isinstance(k, (list, Arr)):
                idx = [num_norm(i) for i in (k.data if isinstance(k, Arr) else k)]
                if idx and all(isinstance(i, bool) for i in idx):
                    if len(idx) != len(o):
                        raise Raised("IndexError", f"boolean index did not match indexed array: dimension is {len(o)} but corresponding boolean dimension is {len(idx)}", n)
                    idx = [j for j, b in enumerate(idx) if b]
                if not all(isinstance(i, int) and not isinstance(i, bool) for i in idx):
                    raise Undecided("array indexed by a non-integer sequence")
                rows = o.data
                try:
                    return Arr([rows[i] for i in idx])  # advanced indexing: always a copy
                except IndexError:
                    raise Raised("IndexError", f"index out of bounds for axis 0 with size {len(rows)}", n)
            return _arr_index(o, k)
        if isinstance(o, dict):
            if isinstance(k, Rat):
                raise Undecided("symbolic dict key")
            if k not in o:
                raise Raised("KeyError", repr(k), n)
            return o[k]
        if isinstance(o, (list, tuple, str, range)):
            if isinstance(k, Rat):
                raise Undecided("symbolic index")
            try:
                return o[k]
            except IndexError:
                raise Raised("IndexError", f"index {k} out of range (len {len(o)})", n)
            except TypeError as e:
                raise Raised("TypeError", str(e), n)
        if isinstance(o, OpaqueObj):
            return OpaqueObj(f"{o.label}[{k!r}]")
        if isinstance(o, ClassVal) and self._class_kind(o.cinfo) == "enum":
            if not isinstance(k, str):
                raise Raised("KeyError", repr(k), n)
            for m in self.enum_members(o.cinfo):
                if m.attrs["name"] == k:
                    return m
            raise Raised("KeyError", repr(k), n)
        if isinstance(o, (int, Fraction, Rat)) or o is None:
            raise Raised("TypeError", f"'{type(o).__name__}' object is not subscriptable", n)
        raise Undecided(f"subscript of {type(o).__name__}")

    def e_Slice(self, n, env):
        return slice(
            self.eval(n.lower, env) if n.lower else None,
            self.eval(n.upper, env) if n.upper else None,
            self.eval(n.step, env) if n.step else None,
        )

    def e_Starred(self, n, env):
        raise Undecided("starred expression")

    def _comp_env(self, env):
        """The one scope of a comprehension: all its targets live here (a closure made in the element binds them late)."""
        ce = Env(self, env.module, parent=env, func=env.func, defcls=env_defcls(env), self_obj=env_self(env))
        ce.is_comp = True
        return ce

    def _comp(self, gens, env, emit):
        ce = self._comp_env(env)

        def rec(i):
            if i == len(gens):
                emit(ce)
                return
            g = gens[i]
            for item in self.iterate(self.eval(g.iter, env if i == 0 else ce)):
                self.assign(g.target, item, ce)
                if all(self.truth(self.eval(c, ce), c) for c in g.ifs):
                    rec(i + 1)

        rec(0)

    def e_ListComp(self, n, env):
        out = []
        self._comp(n.generators, env, lambda e: out.append(self.eval(n.elt, e)))
        return out

    def e_GeneratorExp(self, n, env):
        """Lazy, as in Python: the first iterable is evaluated now, everything else when the consumer asks."""
        gens = n.generators
        first = self.iterate(self.eval(gens[0].iter, env))

        ce = self._comp_env(env)

        def rec(i, items=None):
            if i == len(gens):
                yield ce
                return
            g = gens[i]
            for item in (items if items is not None else self.iterate(self.eval(g.iter, ce))):
                self.assign(g.target, item, ce)
                if all(self.truth(self.eval(c, ce), c) for c in g.ifs):
                    yield from rec(i + 1)

        return (self.eval(n.elt, e) for e in rec(0, first))

    def e_SetComp(self, n, env):
        return set(self.e_ListComp(n, env))

    def e_DictComp(self, n, env):
        out = {}

        def emit(e):
            out[_key(self.eval(n.key, e))] = self.eval(n.value, e)

        self._comp(n.generators, env, emit)
        return out


def env_self(env):
    e = env
    while e is not None:
        if e.self_obj is not None:
            return e.self_obj
        e = e.parent
    return None


def env_defcls(env):
    e = env
    while e is not None:
        if e.defcls is not None:
            return e.defcls
        e = e.parent
    return None


class _ModuleVars(dict):
    """Module-level execution writes straight into the evaluator's module cache."""

    def __init__(self, ev, module):
        super().__init__()
        self.ev = ev
        self.module = module

    def __setitem__(self, k, v):
        self.ev.mod_cache[(self.module.name, k)] = v

    def __contains__(self, k):
        v = self.ev.mod_cache.get((self.module.name, k), _PENDING)
        return v is not _PENDING

    def __getitem__(self, k):
        if (self.module.name, k) in self.ev.mod_cache and self.ev.mod_cache[(self.module.name, k)] is not _PENDING:
            return self.ev.mod_cache[(self.module.name, k)]
        if k in self.module.symbols:
            return self.ev.module_global(self.module, k)
        raise KeyError(k)

    def get(self, k, default=None):
        try:
            return self[k]
        except KeyError:
            return default

    def setdefault(self, k, default=None):
        try:
            return self[k]
        except KeyError:
            self[k] = default
            return default

    def update(self, other=(), **kw):
        for k, v in dict(other, **kw).items():
            self[k] = v


_ACTIVE = [None]


class _Pending:
    pass


_PENDING = _Pending()


class _Inf:
    def __repr__(self):
        return "inf"


INF = float("inf")
NEG_INF = float("-inf")


def is_inf(v):
    return isinstance(v, float) and math.isinf(v)


def _has_symbol(v, depth=0):
    if isinstance(v, Rat):
        return v.const_value() is None
    if depth < 4 and isinstance(v, (list, tuple, set)):
        return any(_has_symbol(x, depth + 1) for x in v)
    if depth < 4 and isinstance(v, dict):
        return any(_has_symbol(x, depth + 1) for x in v.values())
    return False


import threading as _threading

_GEN_LOCAL = _threading.local()


class LazyGen:
    """A generator function of the analysed code, folded lazily: its body runs in a thread of its own that is handed control only
    while the consumer waits in next().  Exactly one of the two runs at any time, so the evaluator's state is never shared
    concurrently, and the interleaving of producer and consumer side effects (e.g. extending the list that is being iterated) is
    Python's."""

    def __init__(self, run):
        self.run = run
        self.started = False
        self.done = False
        self.item = None
        self.exc = None
        self.to_gen = _threading.Semaphore(0)
        self.to_con = _threading.Semaphore(0)

    def __iter__(self):
        return self

    def __next__(self):
        if self.done:
            raise StopIteration
        if not self.started:
            self.started = True
            try:
                _threading.stack_size(512 * 1024 * 1024)
            except (ValueError, RuntimeError):
                pass
            t = _threading.Thread(target=self._main, daemon=True)
            t.start()
        else:
            self.to_gen.release()
        self.to_con.acquire()
        if self.exc is not None:
            e, self.exc = self.exc, None
            self.done = True
            raise e
        if self.done:
            raise StopIteration
        return self.item

    def _main(self):
        _GEN_LOCAL.current = self
        try:
            self.run()
        except BaseException as e:  # Raised / Undecided / anything: re-raised in the consumer
            self.exc = e
        self.done = True
        self.to_con.release()

    def yield_(self, v):
        self.item = v
        self.to_con.release()
        self.to_gen.acquire()


def _is_generator(fn_node):
    cached = getattr(fn_node, "_yadsa_is_gen", None)
    if cached is not None:
        return cached
    found = False
    todo = list(ast.iter_child_nodes(fn_node))
    while todo:
        n = todo.pop()
        if isinstance(n, (ast.FunctionDef, ast.AsyncFunctionDef, ast.Lambda, ast.ClassDef)):
            continue
        if isinstance(n, (ast.Yield, ast.YieldFrom)):
            found = True
            break
        todo.extend(ast.iter_child_nodes(n))
    fn_node._yadsa_is_gen = found
    return found


_EXC_PARENTS = {
    "ModuleNotFoundError": "ImportError", "KeyError": "LookupError", "IndexError": "LookupError", "FileNotFoundError": "OSError",
    "ZeroDivisionError": "ArithmeticError", "OverflowError": "ArithmeticError", "NotImplementedError": "RuntimeError", "RecursionError": "RuntimeError",
    "UnicodeDecodeError": "ValueError", "ConstructorError": "YAMLError", "RepresenterError": "YAMLError", "FrozenInstanceError": "AttributeError",
}


def _exc_matches(etype, handler_name):
    """Does an exception of type `etype` reach `except handler_name`? (builtin hierarchy)"""
    if handler_name in ("Exception", "BaseException"):
        return True
    t = etype
    while t is not None:
        if t == handler_name:
            return True
        t = _EXC_PARENTS.get(t)
    return False


def _b_issubclass(c, k):
    ks = k if isinstance(k, tuple) else (k,)
    if isinstance(c, ClassVal):
        return any(isinstance(x, ClassVal) and any(m is x.cinfo for m in c.cinfo.mro()) for x in ks)
    raise Undecided("issubclass on a non-project class")


def _raise_undecided(msg):
    raise Undecided(msg)


class WatchedWrite(Exception):
    """A watched (caller-owned) container was modified by the folded code."""

    def __init__(self, label, how, node):
        super().__init__(f"{label} via {how}")
        self.label, self.how, self.node = label, how, node


def _shallow(c):
    return dict(c) if isinstance(c, dict) else list(c)


class _DescriptorWrap:
    """staticmethod(f) / classmethod(f) / property(f) used as calls (class attributes assigned in the class body)."""

    def __init__(self, kind, f):
        self.kind, self.f = kind, f


class _NativeFn:
    def __init__(self, fn):
        self.fn = fn

    def __call__(self, *a, **k):
        return self.fn(*a, **k)


def _exc_base_of(cinfo):
    """Name of the builtin exception a project class derives from (None if it is not an exception class)."""
    for c in cinfo.mro():
        nm = c if isinstance(c, str) else None
        if nm is not None and (nm.split(".")[-1] in _EXC_PARENTS or nm.split(".")[-1] in ("Exception", "BaseException") or nm.split(".")[-1].endswith(("Error", "Exception", "Warning"))):
            return nm.split(".")[-1]
    return None


class _ExcVal:
    def __init__(self, etype, msg):
        self.etype = etype
        self.msg = msg

    @property
    def args(self):
        return (self.msg,)

    def __str__(self):
        return repr(self.msg) if self.etype == "KeyError" and not isinstance(self.msg, str) else str(self.msg)

    def __repr__(self):
        return f"{self.etype}({self.msg!r})"


def _load(t):
    import copy as _c

    t2 = _c.copy(t)
    t2.ctx = ast.Load()
    return t2


def _key(k):
    k = num_norm(k)
    if isinstance(k, Fraction):
        return k
    if isinstance(k, tuple):
        return tuple(_key(x) for x in k)
    return k


def _r(v):
    if isinstance(v, Arr0):
        v = num_norm(v)
    return A.to_rat(v)


def _sym(a, b):
    return isinstance(a, Rat) or isinstance(b, Rat)


def _pyop(a, b, f):
    if isinstance(a, bool):
        a = int(a)
    if isinstance(b, bool):
        b = int(b)
    if not isinstance(a, (int, Fraction)) or not isinstance(b, (int, Fraction)):
        raise Undecided(f"arithmetic on {type(a).__name__} and {type(b).__name__}")
    return num_norm(f(a, b))


def _eq(ev, a, b):
    if isinstance(a, ObjVal) and a.cinfo is not None:
        m = a.cinfo.find_method("__eq__")
        if m is not None:
            return ev.truth(ev.call(FuncVal(ev, m, bound=a), [b], {}))
        if ev._class_kind(a.cinfo) in ("dataclass", "namedtuple"):
            prev, _ACTIVE[0] = _ACTIVE[0], (ev if ev is not _DUMMY or _ACTIVE[0] is None else _ACTIVE[0])
            try:
                return a.__eq__(b)
            finally:
                _ACTIVE[0] = prev
        return a is b
    if isinstance(a, Arr) or isinstance(b, Arr):
        raise Undecided("array comparison")
    return a == b


def _rank(d):
    r = 0
    while isinstance(d, list):
        r += 1
        d = d[0] if d else None
    return r


def _matmul(ev, a, b):
    A_ = a.data if isinstance(a, Arr) else a
    B_ = b.data if isinstance(b, Arr) else b
    if not isinstance(A_, list) or not isinstance(B_, list):
        raise Undecided("matmul operands")

    def dot(u, v):
        if len(u) != len(v):
            raise Raised("ValueError", f"matmul shape mismatch ({len(u)} vs {len(v)})")
        s = None
        objs = any(isinstance(x, ObjVal) for x in u) or any(isinstance(y, ObjVal) for y in v)
        for x, y in zip(u, v):
            if not objs and ((isinstance(x, int) and x == 0) or (isinstance(y, int) and y == 0)):
                continue
            t = ev.binop(ast.Mult(), x, y)
            s = t if s is None else ev.binop(ast.Add(), s, t)
        return 0 if s is None else s

    def mm(X, Y):
        rx, ry = _rank(X), _rank(Y)
        if rx > 2:
            return [mm(x, Y if ry <= 2 else Y[i]) for i, x in enumerate(X)]
        if ry > 2:
            return [mm(X, y) for y in Y]
        if rx == 2 and ry == 1:
            return [dot(row, Y) for row in X]
        if rx == 1 and ry == 1:
            return dot(X, Y)
        if rx == 2 and ry == 2:
            cols = [list(c) for c in zip(*Y)]
            if X and len(X[0]) != len(Y):
                raise Raised("ValueError", f"matmul shape mismatch ({len(X[0])} vs {len(Y)})")
            return [[dot(row, c) for c in cols] for row in X]
        if rx == 1 and ry == 2:
            cols = [list(c) for c in zip(*Y)]
            return [dot(X, c) for c in cols]
        raise Undecided("matmul ranks")

    r = mm(A_, B_)
    return Arr(r) if isinstance(r, list) else r


def _arr_index(o, k):
    """Basic indexing (integers, slices, None): a view sharing the cells of `o`; a scalar comes out by value."""
    d = o.cells
    if not isinstance(k, tuple):
        k = (k,)
    if any(x is Ellipsis for x in k):
        # `...` stands for as many full slices as are needed to reach the array's rank
        i_ = [j for j, x in enumerate(k) if x is Ellipsis][0]
        n_fill = len(o.shape) - sum(1 for x in k if x is not None and x is not Ellipsis)
        k = k[:i_] + (slice(None),) * max(n_fill, 0) + k[i_ + 1:]

    def rec(d, ks):
        if not ks:
            return d
        k0, rest = ks[0], ks[1:]
        if k0 is None:  # np.newaxis
            return [rec(d, rest)]
        if not isinstance(d, list):
            raise Raised("IndexError", "too many indices for array")
        if isinstance(k0, slice):
            return [rec(x, rest) for x in d[k0]]
        if isinstance(k0, Rat):
            raise Undecided("symbolic array index")
        try:
            return rec(d[k0], rest)
        except IndexError:
            raise Raised("IndexError", f"index {k0} is out of bounds for axis with size {len(d)}")

    res = rec(d, k)
    return Arr.view(res) if isinstance(res, list) else np_scalar(res.v)


def _depth(x):
    n = 0
    while isinstance(x, list):
        n += 1
        if not x:
            break
        x = x[0]
    return n


def _arr_store(o, k, v, node=None):
    """o[k] = v with integer / slice / Ellipsis-free indices and numpy broadcasting of v."""
    if isinstance(k, Arr) and all(isinstance(x, bool) for x in k.flat()) and len(k.flat()) == len(o.flat_cells()):
        cells = [c for c, m_ in zip(o.flat_cells(), k.flat()) if m_]
        vals = v.flat() if isinstance(v, Arr) else None
        if vals is not None and len(vals) != len(cells):
            raise Raised("ValueError", f"NumPy boolean array indexing assignment cannot assign {len(vals)} input values to the {len(cells)} output values where the mask is true", node)
        _cells_written(cells)
        for i_, c in enumerate(cells):
            c.v = vals[i_] if vals is not None else v
        return
    ks = k if isinstance(k, tuple) else (k,)
    if any(x is Ellipsis for x in ks):
        i_ = [j for j, x in enumerate(ks) if x is Ellipsis][0]
        n_fill = len(o.shape) - sum(1 for x in ks if x is not None and x is not Ellipsis)
        ks = ks[:i_] + (slice(None),) * max(n_fill, 0) + ks[i_ + 1:]
        k = ks
    if ks and isinstance(ks[0], (Arr, list)) and len(o.shape) >= 1:
        # advanced index on the first axis (boolean mask over the rows, or a list of row numbers), further basic indices on each selected row
        first = [num_norm(x) for x in (ks[0].flat() if isinstance(ks[0], Arr) else ks[0])]
        if first and all(isinstance(x, bool) for x in first):
            if len(first) != len(o.cells):
                raise Raised("IndexError", f"boolean index did not match indexed array along axis 0; size of axis is {len(o.cells)} but size of corresponding boolean axis is {len(first)}", node)
            rows = [i for i, b_ in enumerate(first) if b_]
        elif all(isinstance(x, int) and not isinstance(x, bool) for x in first):
            rows = first
        else:
            raise Undecided("array store through a symbolic advanced index")
        vals = v.data if isinstance(v, Arr) else (list(v) if isinstance(v, (list, tuple)) else None)
        if vals is not None and len(vals) != len(rows) and not (len(vals) == 1):
            raise Raised("ValueError", f"shape mismatch: value array of length {len(vals)} could not be broadcast to the {len(rows)} selected rows", node)
        for j, i in enumerate(rows):
            sub = (vals[j] if len(vals) == len(rows) else vals[0]) if vals is not None else v
            if len(ks) > 1:
                row = o.cells[i]
                if isinstance(row, list):
                    _arr_store(Arr.view(row), ks[1:] if len(ks) > 2 else ks[1], sub, node)
                else:
                    raise Raised("IndexError", "too many indices for array", node)
            elif isinstance(o.cells[i], list):
                _arr_store(Arr.view(o.cells[i]), slice(None), sub, node)
            else:
                _cells_written([o.cells[i]])
                o.cells[i].v = sub
        return
    if any(isinstance(i, Rat) for i in ks):
        raise Undecided("symbolic array index in a store")
    if any(not isinstance(i, (int, slice)) or isinstance(i, bool) for i in ks):
        raise Undecided(f"array store with index {ks!r}")
    val = _deepcopy(None, v.data) if isinstance(v, Arr) else (list(v) if isinstance(v, (list, tuple)) else v)

    def fill(d, val):
        for j in range(len(d)):
            if isinstance(val, list):
                if _depth(val) < _depth(d):
                    sub = val
                elif len(val) == len(d):
                    sub = val[j]
                elif len(val) == 1:
                    sub = val[0]
                else:
                    raise Raised("ValueError", f"could not broadcast input array of length {len(val)} into shape ({len(d)},)", node)
            else:
                sub = val
            if isinstance(d[j], list):
                fill(d[j], sub)
            elif isinstance(sub, list):
                raise Raised("ValueError", "setting an array element with a sequence", node)
            else:
                d[j].v = sub

    def put(d, i, rest, val):
        try:
            cur = d[i]
        except IndexError:
            raise Raised("IndexError", f"index {i} is out of bounds for axis with size {len(d)}", node)
        if rest:
            if not isinstance(cur, list):
                raise Raised("IndexError", "too many indices for array", node)
            rec(cur, rest, val)
        elif isinstance(cur, list):
            fill(cur, val)
        elif isinstance(val, list):
            if len(val) == 1 and not isinstance(val[0], list):
                d[i].v = val[0]
            else:
                raise Raised("ValueError", "setting an array element with a sequence", node)
        else:
            d[i].v = val

    def rec(d, ks, val):
        k0, rest = ks[0], ks[1:]
        if isinstance(k0, slice):
            idxs = list(range(len(d)))[k0]
            for n_, i in enumerate(idxs):
                block_depth = _depth(d[i]) - sum(1 for r in rest if isinstance(r, int))
                if isinstance(val, list) and _depth(val) > block_depth:
                    if len(val) == len(idxs):
                        sub = val[n_]
                    elif len(val) == 1:
                        sub = val[0]
                    else:
                        raise Raised("ValueError", f"could not broadcast input array of length {len(val)} into shape ({len(idxs)},)", node)
                else:
                    sub = val
                put(d, i, rest, sub)
        else:
            put(d, k0, rest, val)

    if CELL_WATCH[0] is not None:
        sel = _arr_index(o, k)
        _cells_written(sel.flat_cells() if isinstance(sel, Arr) else [c for c in o.flat_cells()])
    rec(o.cells, ks, val)


def _canon_ext(d):
    parts = d.split(".")
    if parts[0] == "np":
        parts[0] = "numpy"
    if parts[0] == "nb":
        parts[0] = "numba"
    return ".".join(parts)


_MUTATORS = {"setdefault", "update", "pop", "popitem", "clear", "append", "extend", "insert", "remove", "sort", "reverse", "__setitem__", "__delitem__"}


# ---- builtins / external summaries -----------------------------------------
def _b_isinstance(v, t):
    ts = t if isinstance(t, tuple) else (t,)
    for x in ts:
        if x in (dict, list, str, tuple, set, bool):
            if isinstance(v, x) and not (x is not bool and isinstance(v, bool) and x is int):
                return True
            if x is dict and isinstance(v, ObjVal) and v.cinfo and "dict" in [b for b in v.cinfo.mro() if isinstance(b, str)]:
                return True
        elif x is int:
            if isinstance(v, int) and not isinstance(v, bool):
                return True
        elif x is float:
            if isinstance(v, Fraction) or (isinstance(v, Rat)):
                return True
        elif isinstance(x, ExtVal) and x.dotted in ("numbers.Number",):
            if isinstance(v, (int, Fraction, Rat)):
                return True
        elif isinstance(x, ClassVal):
            if isinstance(v, ObjVal) and v.cinfo is not None and v.cinfo.is_subclass_of(x.cinfo):
                return True
        elif isinstance(x, ExtVal):
            raise Undecided(f"isinstance against external type {x.dotted}")
    return False


def _b_float(v=0):
    v = py_scalar(num_norm(v))
    if isinstance(v, str):
        return num_norm(Fraction(v))
    return v


def _b_int(v=0):
    v = py_scalar(num_norm(v))
    if isinstance(v, (ExtVal, OpaqueObj)):
        return OpaqueObj("int()")
    if isinstance(v, Rat):
        raise Undecided("int() of symbolic value")
    if isinstance(v, str):
        return int(v)
    return int(v)


def _b_str(v=""):
    v = num_norm(v)
    if isinstance(v, Fraction):
        return str(float(v))
    if isinstance(v, Rat):
        raise Undecided("str() of symbolic value")
    if isinstance(v, ClassVal):
        return f"<class '{v.cinfo.module.name}.{v.cinfo.name}'>"
    if isinstance(v, ObjVal) and v.cinfo is not None and "__exc_msg__" in v.attrs and v.cinfo.find_method("__str__") is None:
        return str(v.attrs["__exc_msg__"])
    if isinstance(v, ObjVal) and v.cinfo is not None:
        m = v.cinfo.find_method("__repr__") or v.cinfo.find_method("__str__")
        if m is not None and _ACTIVE[0] is not None:
            ev = _ACTIVE[0]
            return ev.call(FuncVal(ev, m, bound=v), [], {})
    return str(v)


def _b_sum(it, start=0):
    s = start
    ev = _DUMMY
    for x in it:
        s = ev.binop(ast.Add(), s, x)
    return s


def _b_minmax(pick):
    def f(*args, key=None, default=_MISSING_MM):
        vals = list(_DUMMY.iterate(args[0])) if len(args) == 1 else list(args)
        if not vals:
            if default is not _MISSING_MM:
                return default
            raise Raised("ValueError", f"{pick.__name__}() arg is an empty sequence")
        if key is not None:
            keyed = [(num_norm(key(v)), v) for v in vals]
            if any(isinstance(k, Rat) for k, _ in keyed):
                raise Undecided(f"{pick.__name__}() with a key over symbolic values")
            best = pick(k for k, _ in keyed)
            return next(v for k, v in keyed if k == best)
        vals = [num_norm(v) for v in vals]
        if any(isinstance(v, Rat) for v in vals):
            return A.opaque(pick.__name__, tuple(vals))
        return pick(vals)

    return f


_MISSING_MM = object()


def _b_abs(v):
    v = num_norm(v)
    if isinstance(v, Rat):
        return A.opaque("abs", (v,), positive=True)
    return abs(v)


def _obj_len(x):
    if x.cinfo is not None:
        m = x.cinfo.find_method("__len__")
        if m is not None and _ACTIVE[0] is not None:
            return _ACTIVE[0].call(FuncVal(_ACTIVE[0], m, bound=x), [], {})
    return len(x)


def _b_sorted(it, key=None, reverse=False):
    items = list(it)
    if key is None and _has_symbol(items) and len(items) > 1:
        raise Undecided("sorted() over symbolic values: the order depends on the values")
    return sorted(items, key=key, reverse=reverse)


_MISSING = object()


def _b_getattr(obj, name, default=_MISSING):
    ev = _ACTIVE[0]
    if ev is None:
        raise Undecided("getattr outside an evaluation")
    try:
        return ev.getattr(obj, name, None)
    except Raised as r:
        if r.etype == "AttributeError" and default is not _MISSING:
            return default
        raise
    except Undecided:
        raise


def _b_hasattr(obj, name):
    try:
        _b_getattr(obj, name)
        return True
    except Raised as r:
        if r.etype == "AttributeError":
            return False
        raise


def _b_setattr(obj, name, value):
    if isinstance(obj, ObjVal):
        obj.attrs[name] = value
        return None
    raise Undecided(f"setattr on {type(obj).__name__}")


def _b_next(it, default=_MISSING):
    try:
        return next(it)
    except StopIteration:
        if default is not _MISSING:
            return default
        raise Raised("StopIteration", "")
    except TypeError:
        raise Undecided("next() on a folded iterable")


_BUILTINS = {
    "getattr": _b_getattr,
    "hasattr": _b_hasattr,
    "setattr": _b_setattr,
    "reversed": lambda it: list(reversed(list(_DUMMY.iterate(it)))),
    "iter": lambda it: iter(list(_DUMMY.iterate(it))),
    "next": _b_next,
    "callable": lambda f: isinstance(f, (FuncVal, ClassVal, _NativeFn, ExtVal)) or callable(f),
    "divmod": lambda a, b: divmod(a, b),
    "pow": lambda a, b: _ACTIVE[0].binop(ast.Pow(), a, b),
    "frozenset": lambda it=(): frozenset(_DUMMY.iterate(it)),
    "ZeroDivisionError": ZeroDivisionError,
    "StopIteration": StopIteration,
    "OSError": OSError,
    "FileNotFoundError": FileNotFoundError,
    "len": lambda x: _obj_len(x) if isinstance(x, ObjVal) else len(x.data) if isinstance(x, Arr) else
    (len(_ACTIVE[0].enum_members(x.cinfo)) if isinstance(x, ClassVal) and _ACTIVE[0] is not None and _ACTIVE[0]._class_kind(x.cinfo) == "enum" else len(x)),
    "range": range,
    "enumerate": lambda it, start=0: list(enumerate(_DUMMY.iterate(it), start)),
    "zip": lambda *its, strict=False: _b_zip(its, strict),
    "min": _b_minmax(min),
    "max": _b_minmax(max),
    "abs": _b_abs,
    "sum": _b_sum,
    "sorted": _b_sorted,
    "list": lambda it=(): list(_DUMMY.iterate(it)),
    "tuple": lambda it=(): tuple(_DUMMY.iterate(it)),
    "dict": lambda *a, **k: dict(*[(x.store if isinstance(x, ObjVal) else x) for x in a], **k),
    "set": lambda it=(): set(_DUMMY.iterate(it)),
    "str": _b_str,
    "int": _b_int,
    "float": _b_float,
    "bool": lambda v=False: _DUMMY.truth(v),
    "isinstance": _b_isinstance,
    "filter": lambda f, it: (x for x in _DUMMY.iterate(it) if _DUMMY.truth(f(x) if f is not None else x)),
    "map": lambda f, *its: (f(*xs) for xs in zip(*[_DUMMY.iterate(i) for i in its])),
    "any": lambda it: any(_DUMMY.truth(x) for x in _DUMMY.iterate(it)),
    "all": lambda it: all(_DUMMY.truth(x) for x in _DUMMY.iterate(it)),
    "print": lambda *a, **k: None,
    "round": lambda v, nd=None: A.opaque("round", (num_norm(v), nd)) if isinstance(num_norm(v), Rat) else (round(float(num_norm(v)), nd) if nd is not None else round(float(num_norm(v)))),
    "ord": ord,
    "chr": chr,
    "hash": lambda v: hash(v) if isinstance(v, ObjVal) else hash(_hashable(v)),
    "NotImplemented": _NotImplementedVal(),
    "id": lambda v: id(v),
    "issubclass": lambda c, k: _b_issubclass(c, k),
    "vars": lambda o: dict(o.attrs) if isinstance(o, ObjVal) else _raise_undecided("vars()"),
    "slice": slice,
    "bytes": bytes,
    "repr": repr,
    "type": lambda o, *rest: _b_type(o) if not rest else _make_class(o, *rest),
    "object": None,  # replaced below by _ObjectType()
    "ValueError": ValueError,
    "KeyError": KeyError,
    "NotImplementedError": NotImplementedError,
    "RuntimeError": RuntimeError,
    "TypeError": TypeError,
    "AssertionError": AssertionError,
    "IndexError": IndexError,
    "AttributeError": AttributeError,
    "ModuleNotFoundError": ModuleNotFoundError,
    "ImportError": ImportError,
    "Exception": Exception,
    "True": True,
    "False": False,
    "None": None,
    "complex": lambda *a: (_ for _ in ()).throw(Undecided("complex number")),
}
for _n, _t in _BUILTIN_TYPES.items():
    pass
# isinstance needs the raw types for dict/list/...: expose them under their names
_BUILTINS.update({"dict": dict, "list": list, "tuple": tuple, "set": set, "str": _b_str, "int": _b_int, "float": _b_float})


class _ObjectType:
    """The builtin `object`, only for object.__getattribute__(self, name)."""


_BUILTINS["object"] = _ObjectType()


def _object_setattr(o, name, value):
    if not isinstance(o, ObjVal):
        raise Undecided("object.__setattr__ on a non-object")
    o.attrs[name] = value


_ObjectType.__setattr__ = staticmethod(_object_setattr)


class _TypeProxy:
    """Callable that also works as isinstance() target."""


def _mk_type_proxy(pytype, ctor):
    class P(_TypeProxy):
        def __call__(self, *a, **k):
            return ctor(*a, **k)

    p = P()
    p.pytype = pytype
    return p


_T_DICT = _mk_type_proxy(dict, lambda *a, **k: dict(*[(x.store if isinstance(x, ObjVal) else x) for x in a], **k))
_T_LIST = _mk_type_proxy(list, lambda it=(): list(_DUMMY.iterate(it)))
_T_TUPLE = _mk_type_proxy(tuple, lambda it=(): tuple(_DUMMY.iterate(it)))
_T_SET = _mk_type_proxy(set, lambda it=(): set(_DUMMY.iterate(it)))
_T_STR = _mk_type_proxy(str, _b_str)
_T_INT = _mk_type_proxy(int, _b_int)
_T_FLOAT = _mk_type_proxy(float, _b_float)
_T_BOOL = _mk_type_proxy(bool, lambda v=False: _DUMMY.truth(v))
_BUILTINS.update(dict(dict=_T_DICT, list=_T_LIST, tuple=_T_TUPLE, set=_T_SET, str=_T_STR, int=_T_INT, float=_T_FLOAT, bool=_T_BOOL))

_orig_isinstance = _b_isinstance


def _b_isinstance2(v, t):
    ts = t if isinstance(t, tuple) else (t,)
    ts = tuple(x.pytype if isinstance(x, _TypeProxy) else x for x in ts)
    return _orig_isinstance(v, ts)


_BUILTINS["isinstance"] = _b_isinstance2
_BUILTINS["staticmethod"] = lambda f: _DescriptorWrap("static", f)
_BUILTINS["classmethod"] = lambda f: _DescriptorWrap("class", f)
_BUILTINS["property"] = lambda fget=None, *a, **k: _DescriptorWrap("property", fget)


def _make_class(name, bases, namespace=None):
    """type(name, bases, dict): a new class whose body is the given namespace."""
    from .model import ClassInfo

    ev = _ACTIVE[0] or _DUMMY
    if not isinstance(name, str):
        raise Undecided("type() with a non-literal class name")
    node = ast.parse(f"class {name}:\n    pass").body[0]
    owner = None
    infos = []
    for b in bases:
        if isinstance(b, ClassVal):
            infos.append(b.cinfo)
            owner = owner or b.cinfo.module
        elif isinstance(b, _TypeProxy):
            infos.append(b.pytype.__name__)
        elif isinstance(b, _ObjectType):
            continue
        else:
            raise Undecided("type() with a base that is not a class of the project")
    if owner is None:
        raise Undecided("type() without a project base class")
    ci = ClassInfo(owner, node)
    ci.bases = infos
    ci._mro = None
    cv = ClassVal(ev, ci)
    for k, v in dict(namespace or {}).items():
        if isinstance(v, FuncVal):
            ci.methods[k] = v.finfo
        else:
            ev.class_stores[(ci.fq, k)] = v
    return cv


def _b_zip(its, strict):
    if any(isinstance(i, LazyGen) or type(i).__name__ in ("generator", "count") for i in its) and not strict:
        return zip(*[_DUMMY.iterate(i) for i in its])  # stays lazy: an unbounded iterator may be among them
    lists = [list(_DUMMY.iterate(i)) for i in its]
    if strict and len({len(l_) for l_ in lists}) > 1:
        raise Raised("ValueError", "zip() arguments have different lengths")
    return list(zip(*lists))


def _b_type(o):
    if isinstance(o, ObjVal) and o.cinfo:
        return ClassVal(_DUMMY, o.cinfo)
    if isinstance(o, Arr0):
        return type(o)
    o = num_norm(o) if not isinstance(o, (bool, str, list, tuple, dict, set)) else o
    if isinstance(o, bool):
        return _T_BOOL
    if isinstance(o, Fraction):
        return _T_FLOAT  # floats are folded exactly
    for t, px in ((int, _T_INT), (str, _T_STR), (dict, _T_DICT), (list, _T_LIST), (tuple, _T_TUPLE), (set, _T_SET)):
        if type(o) is t:
            return px
    if isinstance(o, Rat):
        return _T_FLOAT
    return type(o)



NARROW_DTYPES = {"numpy.float32", "numpy.float16", "numpy.single", "numpy.half", "numpy.int32", "numpy.int64", "numpy.int16", "numpy.int8",
                 "float32", "float16", "f4", "f2", "int", "i8", "i4", "int32", "int64"}


_NUMPY_PY_RESULTS = {"numpy.ndim", "numpy.size", "numpy.shape", "numpy.isscalar", "numpy.allclose", "numpy.array_equal", "numpy.iterable", "numpy.searchsorted_py"}
_SAME_DTYPE = (None, "float", "float64", "double", "numpy.float64", "numpy.float_", "numpy.double", "numpy.floating")


def _dtype_name(dtype):
    if dtype is None:
        return None
    if isinstance(dtype, ExtVal):
        return dtype.dotted
    if isinstance(dtype, _TypeProxy):
        return dtype.pytype.__name__
    if isinstance(dtype, str):
        return dtype
    return repr(dtype)


class Arr0:
    """0-dimensional array around a scalar/object (np.array(5), np.array({...}))."""

    ndim = 0

    def __init__(self, value):
        self.value = value

    def tolist(self):
        return self.value


def _np_ravel(a):
    """ndarray.ravel(): a view when the elements are contiguous in memory (a whole array, a row, a one-row slice of columns),
    otherwise a copy - the distinction numpy makes."""
    fl = a.flat_cells()
    return Arr.view(fl) if _contiguous(fl) else Arr([c.v for c in fl])


def _np_array(ev, data, dtype=None, **kw):
    dn = _dtype_name(dtype)
    narrow = dn in NARROW_DTYPES

    def conv(d):
        if isinstance(d, Arr):
            return conv(d.data)
        if isinstance(d, (list, tuple, range)):
            return [conv(x) for x in d]
        if dtype is not None and isinstance(d, str):
            return num_norm(Fraction(d))
        if narrow and isinstance(d, (Rat, Fraction)):
            return A.opaque(f"cast_{dn}", (num_norm(d),))  # precision/representation is lost here
        if dn in ("bool", "numpy.bool_", "numpy.bool") and isinstance(num_norm(d), (int, Fraction, bool)):
            return bool(num_norm(d))
        return d

    c = conv(data)
    if isinstance(c, list):
        return Arr(c)
    if isinstance(c, Arr0):
        return Arr0(c.value)
    # a 0-dimensional array: a mutable box around the scalar (augmented assignment acts in place, aliases see it)
    return Arr0(c)


def _np_elementwise(fn):
    def f(ev, x, *rest, **kw):
        out = kw.get("out")
        if out is not None and not isinstance(out, Arr):
            raise Undecided("ufunc with out= something that is not an array")
        if isinstance(x, Arr):
            r = x._map(lambda y: fn(y, *rest))
        elif isinstance(x, (list, tuple)):
            r = Arr(list(x))._map(lambda y: fn(y, *rest))
        else:
            r = fn(x, *rest)
        if out is not None:
            # the result is written into the memory of `out` (every view of it sees the new values) and `out` is returned
            if not isinstance(r, Arr) or r.shape != out.shape:
                raise Undecided("ufunc out= with a broadcast result")
            out.overwrite(r.data)
            return out
        return r

    return f


def _f_log(x):
    x = num_norm(x)
    if is_inf(x):
        return INF
    return num_norm(A.fn_log(_r(x)))


def _f_sqrt(x):
    return num_norm(A.fn_sqrt(_r(num_norm(x))))


def _f_exp(x):
    if is_inf(x):
        return INF
    return num_norm(A.fn_exp(_r(num_norm(x))))


def _f_power(x, e):
    return _DUMMY.binop(ast.Pow(), x, e)


def _f_sign(x):
    x = num_norm(x)
    if isinstance(x, Rat):
        raise Undecided("sign of symbolic value")
    return (x > 0) - (x < 0)


def _np_zeros(ev, shape, **kw):
    return _np_shape_fill(0)(ev, shape)


def _as_arr(ev, x):
    if isinstance(x, Arr):
        return x
    if isinstance(x, (list, tuple)):
        return _np_array(ev, list(x))
    return None


def _reduce_axis(ev, x, axis, fn):
    """Reduce an (up to rank-3) array along `axis` (None = all) with fn(list of scalars) -> scalar."""
    a = _as_arr(ev, x)
    if a is None:
        return fn([x])
    if axis is None:
        return fn(a.flat())
    shape = a.shape
    axis = num_norm(axis)
    if not isinstance(axis, int):
        raise Undecided("reduction over several axes")
    if axis < 0:
        axis += len(shape)
    if len(shape) == 1:
        return fn(list(a.data))
    if len(shape) == 2:
        if axis == 0:
            return Arr([fn([a.data[i][j] for i in range(shape[0])]) for j in range(shape[1])])
        return Arr([fn(list(row)) for row in a.data])
    if len(shape) == 3:
        d = a.data
        if axis == 0:
            return Arr([[fn([d[i][j][k] for i in range(shape[0])]) for k in range(shape[2])] for j in range(shape[1])])
        if axis == 1:
            return Arr([[fn([d[i][j][k] for j in range(shape[1])]) for k in range(shape[2])] for i in range(shape[0])])
        return Arr([[fn(list(d[i][j])) for j in range(shape[1])] for i in range(shape[0])])
    raise Undecided("reduction of an array of rank > 3")


def _np_sum(ev, x, axis=None, **kw):
    if kw.get("keepdims"):
        raise Undecided("np.sum keepdims")
    return _reduce_axis(ev, x, axis, _b_sum)


def _prod_list(ev):
    def f(items):
        acc = 1
        for v in items:
            acc = ev.binop(ast.Mult(), acc, v)
        return acc

    return f


def _np_concat(ev, seq, axis=0, **kw):
    arrs = [_as_arr(ev, x) for x in ev.iterate(seq)]
    if any(a is None for a in arrs):
        raise Undecided("concatenate of scalars")
    if num_norm(axis) == 0:
        out = []
        for a in arrs:
            out.extend(_deepcopy(ev, a.data))
        return Arr(out)
    if num_norm(axis) in (1, -1) and all(len(a.shape) == 2 for a in arrs):
        return Arr([sum((list(a.data[i]) for a in arrs), []) for i in range(len(arrs[0].data))])
    raise Undecided("concatenate along this axis")


def _np_stack(ev, seq, axis=0, **kw):
    arrs = [_as_arr(ev, x) for x in ev.iterate(seq)]
    if any(a is None for a in arrs):
        raise Undecided("np.stack of non-arrays")
    if num_norm(axis) in (1, -1) and all(len(a.shape) == 1 for a in arrs):
        return Arr([list(col) for col in zip(*[a.data for a in arrs])])
    if num_norm(axis) != 0:
        raise Undecided("np.stack along a non-leading axis")
    return Arr([_deepcopy(ev, a.data) for a in arrs])


def _np_outer(ev, a, b):
    a, b = _as_arr(ev, a), _as_arr(ev, b)
    return Arr([[ev.binop(ast.Mult(), x, y) for y in b.flat()] for x in a.flat()])


def _np_indices(dims):
    dims = [num_norm(d) for d in dims]
    if not all(isinstance(d, int) for d in dims):
        raise Undecided("np.indices with a symbolic shape")
    import itertools as it_

    def grid(axis):
        def build(prefix, rest):
            if not rest:
                return prefix[axis]
            return [build(prefix + (i,), rest[1:]) for i in range(rest[0])]
        return build((), dims)

    if not dims or 0 in dims:
        return Arr([[] for _ in dims]) if dims else Arr([])
    return Arr([grid(ax) for ax in range(len(dims))])


def _np_argwhere(ev, a):
    if a is None:
        raise Undecided("np.argwhere of a non-array")
    out = []

    def rec(d, idx):
        if isinstance(d, list):
            for i, x in enumerate(d):
                rec(x, idx + (i,))
        elif ev.truth(d):
            out.append(list(idx))

    rec(a.data, ())
    if not out:
        raise Undecided("np.argwhere without a match (the shape of an empty result is not modelled)")
    return Arr(out)


def _concrete_list(vals):
    vals = [num_norm(v) for v in vals]
    if any(isinstance(v, Rat) for v in vals):
        raise Undecided("ordering of symbolic array elements")
    return vals


def _sorted_concrete(vals):
    return sorted(_concrete_list(vals))


def _np_arg(ev, a, axis, pick):
    a = _as_arr(ev, a)
    if axis is None or len(a.shape) == 1:
        vals = _concrete_list(a.flat())
        return vals.index(pick(vals))
    axis = num_norm(axis)
    if len(a.shape) != 2:
        raise Undecided("argmax/argmin of a higher-rank array along an axis")
    rows = a.data if axis in (1, -1) else [list(c) for c in zip(*a.data)]
    return Arr([_concrete_list(r).index(pick(_concrete_list(r))) for r in rows])


def _np_where(ev, cond, a=None, b=None):
    if a is None:
        raise Undecided("np.where with one argument")
    c = _as_arr(ev, cond)
    if c is None:
        return a if ev.truth(cond) else b

    def pick(i, cv):
        av = a.flat()[i] if isinstance(a, Arr) else a
        bv = b.flat()[i] if isinstance(b, Arr) else b
        return av if ev.truth(cv) else bv

    flat = [pick(i, cv) for i, cv in enumerate(c.flat())]
    return Arr(flat).reshape(*c.shape) if len(c.shape) != 1 else Arr(flat)


def _np_linspace(ev, a, b, num=50, endpoint=True, **kw):
    a, b, num = num_norm(a), num_norm(b), num_norm(num)
    if not isinstance(num, int):
        raise Undecided("linspace with a symbolic length")
    if num == 1:
        return Arr([a])
    div = (num - 1) if endpoint else num
    step = ev.binop(ast.Div(), ev.binop(ast.Sub(), b, a), div)
    return Arr([ev.binop(ast.Add(), a, ev.binop(ast.Mult(), step, i)) for i in range(num)])


def _np_arange(ev, *a, **kw):
    a = [num_norm(x) for x in a]
    if any(isinstance(x, Rat) for x in a):
        raise Undecided("arange with symbolic bounds")
    if all(isinstance(x, int) for x in a):
        return Arr(list(range(*a)))
    start, stop, step = (0, a[0], 1) if len(a) == 1 else (a[0], a[1], a[2] if len(a) > 2 else 1)
    out, x = [], Fraction(start)
    while (x < stop) if step > 0 else (x > stop):
        out.append(num_norm(x))
        x += Fraction(step)
    return Arr(out)


def _np_shape_fill(value):
    def f(ev, shape, *a, **kw):
        v = value if value is not None else (a[0] if a else kw.get("fill_value", 0))
        shape = num_norm(shape)
        dims = (shape,) if isinstance(shape, int) else tuple(num_norm(x) for x in ev.iterate(shape))

        def mk(ds):
            return [mk(ds[1:]) for _ in range(ds[0])] if len(ds) > 1 else [v] * ds[0]

        return Arr(mk(dims)) if dims else v

    return f


def _np_einsum(ev, spec, *ops):
    spec = spec.replace(" ", "")
    ins, out = spec.split("->") if "->" in spec else (spec, None)
    ins = ins.split(",")
    arrs = [_as_arr(ev, o) for o in ops]
    if out is None or any(a is None for a in arrs) or len(ins) != len(arrs):
        raise Undecided("einsum form")
    sizes = {}
    for sub, a in zip(ins, arrs):
        if len(sub) != len(a.shape):
            raise Raised("ValueError", "einsum subscripts do not match the operand rank")
        for ch, n_ in zip(sub, a.shape):
            if sizes.setdefault(ch, n_) != n_:
                raise Raised("ValueError", "einsum dimension mismatch")
    summed = [ch for ch in sizes if ch not in out]
    import itertools as it_

    def elem(a, sub, idx):
        d = a.data
        for ch in sub:
            d = d[idx[ch]]
        return d

    def build(prefix, rest):
        if not rest:
            tot = 0
            for combo in it_.product(*[range(sizes[ch]) for ch in summed]):
                idx = dict(prefix)
                idx.update(zip(summed, combo))
                term = 1
                for a, sub in zip(arrs, ins):
                    term = ev.binop(ast.Mult(), term, elem(a, sub, idx))
                tot = ev.binop(ast.Add(), tot, term)
            return tot
        ch = rest[0]
        return [build(prefix + [(ch, i)], rest[1:]) for i in range(sizes[ch])]

    res = build([], list(out))
    return Arr(res) if isinstance(res, list) else res


def _np_unique(ev, x, **kw):
    if kw:
        raise Undecided("np.unique with options")
    items = [num_norm(v) for v in (_as_arr(ev, x).flat() if _as_arr(ev, x) is not None else [x])]
    if any(isinstance(v, Rat) for v in items):
        raise Undecided("np.unique of symbolic values (the order depends on the values)")
    return Arr(sorted(set(items)))


def _np_minmax2(which):
    def f(ev, a, b):
        def one(x, y):
            x, y = num_norm(x), num_norm(y)
            if isinstance(x, Rat) or isinstance(y, Rat):
                return A.opaque(which, (x, y))
            return min(x, y) if which == "min" else max(x, y)

        aa, bb = _as_arr(ev, a), _as_arr(ev, b)
        if aa is None and bb is None:
            return one(a, b)
        if aa is not None and bb is not None:
            return aa._zip(bb, one)
        return (aa or bb)._map((lambda x: one(x, b)) if aa is not None else (lambda y: one(a, y)))

    return f


def _np_cumsum(ev, x, **kw):
    out, acc = [], 0
    for v in _as_arr(ev, x).flat():
        acc = ev.binop(ast.Add(), acc, v)
        out.append(acc)
    return Arr(out)


def _np_diag(ev, x, k=0):
    a = _as_arr(ev, x)
    if num_norm(k) != 0:
        raise Undecided("np.diag off the main diagonal")
    if len(a.shape) == 2:
        return Arr([a.data[i][i] for i in range(min(a.shape))])
    n = len(a.data)
    return Arr([[a.data[i] if i == j else 0 for j in range(n)] for i in range(n)])


def _np_mean(ev, x, axis=None, **kw):
    return _reduce_axis(ev, x, axis, lambda items: ev.binop(ast.Div(), _b_sum(items), len(items)))


def _zeta(ev, n):
    n = num_norm(n)
    pi = A.sym("pi", positive=True)
    if n == 2:
        return pi * pi * Fraction(1, 6)
    if n == 4:
        return A.rat_pow(pi, 4) * Fraction(1, 90)
    if n in (3, 5):
        return A.sym(f"zeta{n}", positive=True)
    raise Undecided(f"zeta({n})")


def _spence(ev, z):
    return num_norm(A.fn_li2(A.Rat.const(1) - _r(num_norm(z))))


def _deepcopy(ev, v, memo=None):
    memo = {} if memo is None else memo
    if id(v) in memo:
        return memo[id(v)]
    if isinstance(v, list):
        out = []
        memo[id(v)] = out
        out.extend(_deepcopy(ev, x, memo) for x in v)
        return out
    if isinstance(v, dict):
        out = {}
        memo[id(v)] = out
        for k, x in v.items():
            out[k] = _deepcopy(ev, x, memo)
        return out
    if isinstance(v, tuple):
        return tuple(_deepcopy(ev, x, memo) for x in v)
    if isinstance(v, Arr):
        out = Arr(v.data)  # fresh cells; element values are immutable (numbers, normal forms)
        memo[id(v)] = out
        memo.setdefault("__keepalive__", []).append(v)
        return out
    if isinstance(v, ObjVal):
        o = ObjVal(v.cinfo, label=v.label)
        memo[id(v)] = o
        o.attrs = {k: _deepcopy(ev, x, memo) for k, x in v.attrs.items()}
        o.store = {k: _deepcopy(ev, x, memo) for k, x in v.store.items()}
        return o
    return v


def _copy(ev, v):
    if isinstance(v, list):
        return list(v)
    if isinstance(v, dict):
        return dict(v)
    if isinstance(v, Arr):
        return Arr(v.data)
    if isinstance(v, ObjVal):
        o = ObjVal(v.cinfo, dict(v.attrs), label=v.label)
        o.store = dict(v.store)
        return o
    return v


def _import_module(ev, name, package=None):
    if name.startswith("."):
        level = len(name) - len(name.lstrip("."))
        base = package.split(".") if package else []
        if level > 1:
            base = base[: len(base) - (level - 1)]
        dotted = ".".join(base + [name.lstrip(".")])
    else:
        dotted = name
    if dotted in ev.proj.modules:
        return ModVal(ev.proj.modules[dotted])
    raise Raised("ModuleNotFoundError", f"No module named '{dotted}'")


def _find_spec(ev, name, package=None):
    try:
        m = _import_module(ev, name, package)
    except Raised:
        return None
    return OpaqueObj(f"ModuleSpec({m.module.name})")


def _binom(ev, n, k):
    # scipy.special.binom is a ufunc: it broadcasts over arrays of (concrete, integral) arguments
    if isinstance(n, Arr) or isinstance(k, Arr):
        def rec(a, b):
            if isinstance(a, list) or isinstance(b, list):
                la = a if isinstance(a, list) else [a] * len(b)
                lb = b if isinstance(b, list) else [b] * len(a)
                return [rec(x, y) for x, y in zip(la, lb)]
            return _binom(ev, a, b)
        return Arr(rec(n.data if isinstance(n, Arr) else n, k.data if isinstance(k, Arr) else k))
    n, k = num_norm(n), num_norm(k)
    if isinstance(n, Rat) or isinstance(k, Rat):
        raise Undecided("binomial coefficient of symbolic arguments")
    return math.comb(int(n), int(k))


def _isclose(ev, a, b, rel_tol=None, abs_tol=None, rtol=None, atol=None, **kw):
    """numpy.isclose / math.isclose: |a - b| <= atol + rtol |b| (numpy defaults 1e-5, 1e-8; math: max(rel|a|, rel|b|, abs)).
    Concrete operands are decided exactly. For a symbolic operand the test holds on a set of inputs of positive measure
    and fails on the rest: it is folded with the generic outcome (False unless the operands are identically equal) and
    *recorded* in ev.tolerance_tests, so that a rule whose property quantifies over all inputs can report that a quantity is
    compared within a tolerance instead of exactly."""
    rt = rtol if rtol is not None else (rel_tol if rel_tol is not None else Fraction(1, 10**5))
    at = atol if atol is not None else (abs_tol if abs_tol is not None else Fraction(1, 10**8))

    def one(x, y):
        x, y = num_norm(x), num_norm(y)
        if isinstance(x, Rat) or isinstance(y, Rat):
            if A.equal(A.to_rat(x), A.to_rat(y), tol=Fraction(0)):
                return True
            ev.tolerance_tests.append((getattr(ev, "current_call_node", None), x, y))
            return False
        if is_inf(x) or is_inf(y):
            return x == y
        return abs(Fraction(x) - Fraction(y)) <= Fraction(at) + Fraction(rt) * abs(Fraction(y))

    if isinstance(a, Arr) or isinstance(b, Arr):
        aa = a if isinstance(a, Arr) else None
        bb = b if isinstance(b, Arr) else None
        if aa is not None and bb is not None:
            return aa._zip(bb, one)
        return (aa or bb)._map((lambda x: one(x, b)) if aa is not None else (lambda y: one(a, y)))
    return one(a, b)


def _allclose(ev, a, b, **kw):
    r = _isclose(ev, a, b, **kw)
    if isinstance(r, Arr):
        return all(bool(x) for x in r.flat())
    return bool(r)


def _it(x):
    if type(x).__name__ in ("count", "cycle", "repeat"):
        raise Undecided("an unbounded iterator is consumed as a whole")
    return list(_DUMMY.iterate(x))


class PartialVal(_NativeFn):
    """functools.partial(func, *args, **kwargs): callable, and structured (rules name a kernel by what it is made of, never by an address)."""

    def __init__(self, ev, func, args, kwargs):
        super().__init__(lambda *a2, **k2: ev.call(func, list(args) + list(a2), {**kwargs, **k2}))
        self.func, self.args, self.keywords = func, tuple(args), dict(kwargs)


def _groupby(ev, it, key):
    out, cur_key, cur = [], None, None
    for x in _it(it):
        k = ev.call(key, [x], {}) if key is not None else x
        if cur is None or not _eq(ev, num_norm(cur_key), num_norm(k)):
            cur = []
            out.append((k, cur))
            cur_key = k
        cur.append(x)
    return out


def _partial(ev, f, *a, **k):
    return PartialVal(ev, f, a, k)


def _reduce(ev, f, it, *init):
    items = _it(it)
    if init:
        acc = init[0]
    elif items:
        acc, items = items[0], items[1:]
    else:
        raise Raised("TypeError", "reduce() of empty iterable with no initial value")
    for x in items:
        acc = ev.call(f, [acc, x], {})
    return acc


def _namedtuple(ev, typename, field_names, **kw):
    names = field_names.replace(",", " ").split() if isinstance(field_names, str) else [str(n) for n in _it(field_names)]
    defaults = list(_it(kw.get("defaults") or []))

    def make(*a, **k):
        vals = dict(zip(names, a))
        for kk, vv in k.items():
            if kk not in names or kk in vals:
                raise Raised("TypeError", f"{typename}() got an unexpected or repeated argument '{kk}'")
            vals[kk] = vv
        for n, d in zip(names[len(names) - len(defaults):], defaults):
            vals.setdefault(n, d)
        missing = [n for n in names if n not in vals]
        if missing:
            raise Raised("TypeError", f"{typename}() missing arguments {missing}")
        o = record(typename, **{n: vals[n] for n in names})
        o.attrs["__strict__"] = True
        o.store["__list__"] = [vals[n] for n in names]
        o.attrs["_fields"] = tuple(names)
        o.attrs["_asdict"] = _NativeFn(lambda: {n: o.attrs[n] for n in names})
        o.attrs["_replace"] = _NativeFn(lambda **kk: make(**{**{n: o.attrs[n] for n in names}, **kk}))
        return o

    return _NativeFn(make)


def _dc_field(ev, **kw):
    return record("dataclass_field", **kw)


def _dc_replace(ev, obj, **changes):
    if not (isinstance(obj, ObjVal) and obj.cinfo is not None):
        raise Undecided("dataclasses.replace on a non-dataclass value")
    names = [f[0] for f in ev._fields(obj.cinfo)]
    return ev.instantiate(ClassVal(ev, obj.cinfo), [], {**{n: obj.attrs[n] for n in names}, **changes})


def _dc_asdict(ev, obj):
    return {f[0]: obj.attrs[f[0]] for f in ev._fields(obj.cinfo)}


def _math_int(fn):
    def f(ev, v):
        v = num_norm(v)
        if isinstance(v, Rat):
            raise Undecided(f"math.{fn.__name__} of a symbol")
        return fn(v)

    return f


def _accumulate(ev, it, func=None, initial=None):
    out = []
    items = _it(it)
    if initial is not None:
        items = [initial] + items
    for i, x in enumerate(items):
        out.append(x if i == 0 else (ev.call(func, [out[-1], x], {}) if func is not None else ev.binop(ast.Add(), out[-1], x)))
    return out


def _defaultdict(ev, factory=None, *a, **k):
    raise Undecided("collections.defaultdict (missing-key semantics not modelled)")


import itertools as _itertools
import math as _math
import operator as _operator

_OPS = {"add": ast.Add, "sub": ast.Sub, "mul": ast.Mult, "truediv": ast.Div, "pow": ast.Pow, "mod": ast.Mod, "floordiv": ast.FloorDiv, "matmul": ast.MatMult}
_CMPS = {"eq": ast.Eq, "ne": ast.NotEq, "lt": ast.Lt, "le": ast.LtE, "gt": ast.Gt, "ge": ast.GtE}

_EXT_CALLS = {
    **{f"operator.{k}": (lambda ev, a, b, _o=o: ev.binop(_o(), a, b)) for k, o in _OPS.items()},
    **{f"operator.{k}": (lambda ev, a, b, _o=o: ev.compare(_o(), a, b, None)) for k, o in _CMPS.items()},
    "operator.neg": lambda ev, a: ev.binop(ast.Sub(), 0, a),
    "operator.not_": lambda ev, a: not ev.truth(a),
    "operator.itemgetter": lambda ev, *ks: _NativeFn(lambda o: ev.subscript(o, ks[0]) if len(ks) == 1 else tuple(ev.subscript(o, k) for k in ks)),
    "operator.attrgetter": lambda ev, *ns: _NativeFn(lambda o: ev.getattr(o, ns[0], None) if len(ns) == 1 else tuple(ev.getattr(o, n, None) for n in ns)),
    "operator.getitem": lambda ev, o, k: ev.subscript(o, k),
    "functools.partial": _partial,
    "dataclasses.fields": lambda ev, o: [record("dataclass_field_info", name=n) for n, _d, _c in ev._fields(o.cinfo)],
    "dataclasses.is_dataclass": lambda ev, o: isinstance(o, (ObjVal, ClassVal)) and o.cinfo is not None and ev._class_kind(o.cinfo) == "dataclass",
    "dataclasses.astuple": lambda ev, o: tuple(o.attrs[n] for n, _d, _c in ev._fields(o.cinfo)),
    "functools.reduce": _reduce,
    "functools.lru_cache": lambda ev, *a, **k: (a[0] if a and isinstance(a[0], FuncVal) else _NativeFn(lambda f: f)),
    "functools.cache": lambda ev, f: f,
    "functools.wraps": lambda ev, w: _NativeFn(lambda f: f),
    "itertools.product": lambda ev, *its, repeat=1: [tuple(t) for t in _itertools.product(*[_it(i) for i in its], repeat=repeat)],
    "itertools.chain": lambda ev, *its: [x for i in its for x in _it(i)],
    "itertools.chain.from_iterable": lambda ev, its: [x for i in _it(its) for x in _it(i)],
    "itertools.combinations": lambda ev, it, r: [tuple(t) for t in _itertools.combinations(_it(it), r)],
    "itertools.combinations_with_replacement": lambda ev, it, r: [tuple(t) for t in _itertools.combinations_with_replacement(_it(it), r)],
    "itertools.permutations": lambda ev, it, r=None: [tuple(t) for t in _itertools.permutations(_it(it), r)],
    "itertools.accumulate": _accumulate,
    "itertools.repeat": lambda ev, v, n=None: [v] * n if n is not None else _raise_undecided("unbounded itertools.repeat"),
    "itertools.islice": lambda ev, it, *a: list(_itertools.islice(iter(ev.iterate(it)), *a)),  # lazy: the source may be unbounded
    "itertools.zip_longest": lambda ev, *its, fillvalue=None: [tuple(t) for t in _itertools.zip_longest(*[_it(i) for i in its], fillvalue=fillvalue)],
    "itertools.starmap": lambda ev, f, it: [ev.call(f, list(a), {}) for a in _it(it)],
    "itertools.groupby": lambda ev, it, key=None: _groupby(ev, it, key),
    "itertools.count": lambda ev, start=0, step=1: _itertools.count(start, step) if isinstance(start, (int, Fraction)) and isinstance(step, (int, Fraction)) else _raise_undecided("itertools.count over symbols"),
    "itertools.pairwise": lambda ev, it: list(_itertools.pairwise(_it(it))),
    "itertools.tee": lambda ev, it, n=2: tuple(list(_it(it)) for _ in range(n)),
    "itertools.takewhile": lambda ev, f, it: list(_itertools.takewhile(lambda x: ev.truth(ev.call(f, [x], {})), _it(it))),
    "itertools.dropwhile": lambda ev, f, it: list(_itertools.dropwhile(lambda x: ev.truth(ev.call(f, [x], {})), _it(it))),
    "itertools.compress": lambda ev, d, sel: [x for x, s_ in zip(_it(d), _it(sel)) if ev.truth(s_)],
    "itertools.cycle": lambda ev, it: _raise_undecided("unbounded itertools.cycle"),
    "collections.namedtuple": _namedtuple,
    "collections.OrderedDict": lambda ev, *a, **k: dict(*[(x.store if isinstance(x, ObjVal) else x) for x in a], **k),
    "collections.defaultdict": _defaultdict,
    "collections.Counter": lambda ev, it=(): {k: _it(it).count(k) for k in dict.fromkeys(_it(it))},
    "dataclasses.field": _dc_field,
    "dataclasses.replace": _dc_replace,
    "dataclasses.asdict": _dc_asdict,
    "dataclasses.dataclass": lambda ev, *a, **k: (a[0] if a else _NativeFn(lambda c: c)),
    "enum.auto": lambda ev: OpaqueObj("enum.auto"),
    "math.floor": _math_int(_math.floor),
    "math.ceil": _math_int(_math.ceil),
    "math.trunc": _math_int(_math.trunc),
    "math.factorial": _math_int(_math.factorial),
    "math.comb": lambda ev, n, k: _math.comb(num_norm(n), num_norm(k)),
    "math.isfinite": lambda ev, v: not is_inf(num_norm(v)),
    "math.isinf": lambda ev, v: is_inf(num_norm(v)),
    "math.isnan": lambda ev, v: False,
    "math.fabs": lambda ev, v: _b_abs(v),
    "math.pow": lambda ev, a, b: ev.binop(ast.Pow(), a, b),
    "math.exp": _np_elementwise(_f_exp),
    "math.prod": lambda ev, it, start=1: _reduce(ev, _NativeFn(lambda a, b: ev.binop(ast.Mult(), a, b)), it, start),
    "numpy.concatenate": _np_concat,
    "numpy.hstack": lambda ev, seq: _np_concat(ev, seq, axis=0) if all(len(_as_arr(ev, x).shape) == 1 for x in ev.iterate(seq)) else _np_concat(ev, seq, axis=1),
    "numpy.vstack": lambda ev, seq: _np_stack(ev, seq) if all(len(_as_arr(ev, x).shape) == 1 for x in ev.iterate(seq)) else _np_concat(ev, seq, axis=0),
    "numpy.stack": _np_stack,
    "numpy.append": lambda ev, a, v, **k: _np_concat(ev, [a, v if _as_arr(ev, v) is not None else [v]]),
    "numpy.outer": _np_outer,
    "numpy.dot": lambda ev, a, b: ev.binop(ast.MatMult(), _as_arr(ev, a), _as_arr(ev, b)),
    "numpy.matmul": lambda ev, a, b: ev.binop(ast.MatMult(), _as_arr(ev, a), _as_arr(ev, b)),
    "numpy.einsum": _np_einsum,
    "numpy.where": _np_where,
    "numpy.isin": lambda ev, a, b, **k: (_as_arr(ev, a)._map(lambda x: any(_eq(ev, num_norm(x), num_norm(y)) for y in _it(b))) if _as_arr(ev, a) is not None
                                          else any(_eq(ev, num_norm(a), num_norm(y)) for y in _it(b))),
    "numpy.indices": lambda ev, dims, **k: _np_indices(dims),
    "numpy.argwhere": lambda ev, a: _np_argwhere(ev, _as_arr(ev, a)),
    "numpy.ix_": lambda ev, *a: _raise_undecided("np.ix_"),
    "numpy.sort": lambda ev, a, **k: Arr(_sorted_concrete(_as_arr(ev, a).flat())) if len(_as_arr(ev, a).shape) == 1 else _raise_undecided("np.sort of a matrix"),
    "numpy.argsort": lambda ev, a, **k: Arr([i for i, _ in sorted(enumerate(_concrete_list(_as_arr(ev, a).flat())), key=lambda t: t[1])]),
    "numpy.argmax": lambda ev, a, axis=None, **k: _np_arg(ev, a, axis, max),
    "numpy.argmin": lambda ev, a, axis=None, **k: _np_arg(ev, a, axis, min),
    "numpy.count_nonzero": lambda ev, a, **k: sum(1 for x in _as_arr(ev, a).flat() if ev.truth(x)),
    "numpy.flatnonzero": lambda ev, a: Arr([i for i, x in enumerate(_as_arr(ev, a).flat()) if ev.truth(x)]),
    "numpy.linspace": _np_linspace,
    "numpy.arange": _np_arange,
    "numpy.ones": _np_shape_fill(1),
    "numpy.empty": _np_shape_fill(0),
    "numpy.ones_like": lambda ev, x, **k: x._map(lambda _: 1) if isinstance(x, Arr) else 1,
    "numpy.full_like": lambda ev, x, v, **k: x._map(lambda _: v) if isinstance(x, Arr) else v,
    "numpy.empty_like": lambda ev, x, **k: x._map(lambda _: 0) if isinstance(x, Arr) else 0,
    "numpy.copy": lambda ev, x, **k: _deepcopy(ev, x),
    "numpy.transpose": lambda ev, x, *a: _as_arr(ev, x).T if not a else _raise_undecided("transpose with axes"),
    "numpy.prod": lambda ev, x, axis=None, **k: _reduce_axis(ev, x, axis, _prod_list(ev)),
    "numpy.max": lambda ev, x, axis=None, **k: _reduce_axis(ev, x, axis, _b_minmax(max)),
    "numpy.amax": lambda ev, x, axis=None, **k: _reduce_axis(ev, x, axis, _b_minmax(max)),
    "numpy.min": lambda ev, x, axis=None, **k: _reduce_axis(ev, x, axis, _b_minmax(min)),
    "numpy.amin": lambda ev, x, axis=None, **k: _reduce_axis(ev, x, axis, _b_minmax(min)),
    "numpy.maximum": _np_minmax2("max"),
    "numpy.minimum": _np_minmax2("min"),
    "numpy.clip": lambda ev, x, lo, hi: _np_minmax2("min")(ev, _np_minmax2("max")(ev, x, lo), hi),
    "numpy.cumsum": _np_cumsum,
    "numpy.diag": _np_diag,
    "numpy.unique": _np_unique,
    "numpy.atleast_1d": lambda ev, x: _as_arr(ev, x) if _as_arr(ev, x) is not None else Arr([x]),
    "numpy.square": lambda ev, x: ev.binop(ast.Mult(), x, x),
    "numpy.fromiter": lambda ev, it, dtype=None, count=-1, **kw: Arr([v for v in ev.iterate(it)][: (None if count is None or count < 0 else count)]),
    "numpy.log10": lambda ev, x: ev.binop(ast.Div(), _np_elementwise(_f_log)(ev, x), num_norm(A.fn_log(A.Rat.const(10)))),
    "numpy.log2": lambda ev, x: ev.binop(ast.Div(), _np_elementwise(_f_log)(ev, x), num_norm(A.fn_log(A.Rat.const(2)))),
    "numpy.fabs": _np_elementwise(_b_abs),
    "numpy.absolute": _np_elementwise(_b_abs),
    "numpy.float64": lambda ev, x=0: x,
    "numpy.float_": lambda ev, x=0: x,
    "numpy.int64": lambda ev, x=0: _b_int(x),
    "numpy.ndim": lambda ev, x: len(_as_arr(ev, x).shape) if _as_arr(ev, x) is not None else 0,
    "numpy.shape": lambda ev, x: _as_arr(ev, x).shape if _as_arr(ev, x) is not None else (),
    "numpy.size": lambda ev, x: len(_as_arr(ev, x).flat()) if _as_arr(ev, x) is not None else 1,
    "numpy.isscalar": lambda ev, x: _as_arr(ev, x) is None,
    "numpy.all": lambda ev, x, **k: all(ev.truth(v) for v in (_as_arr(ev, x).flat() if _as_arr(ev, x) is not None else [x])),
    "numpy.any": lambda ev, x, **k: any(ev.truth(v) for v in (_as_arr(ev, x).flat() if _as_arr(ev, x) is not None else [x])),
    "numpy.isclose": _isclose,
    "math.isclose": _isclose,
    "numpy.allclose": _allclose,
    "numpy.log": _np_elementwise(_f_log),
    "math.log": _np_elementwise(_f_log),
    "numpy.sqrt": _np_elementwise(_f_sqrt),
    "math.sqrt": _np_elementwise(_f_sqrt),
    "numpy.exp": _np_elementwise(_f_exp),
    "numpy.power": _np_elementwise(_f_power),
    "numpy.sign": _np_elementwise(_f_sign),
    "numpy.abs": _np_elementwise(_b_abs),
    "numpy.array": _np_array,
    "numpy.asarray": lambda ev, data, dtype=None, **kw: data if isinstance(data, (Arr, Arr0)) and _dtype_name(dtype) in _SAME_DTYPE else _np_array(ev, data, dtype=dtype, **kw),
    "numpy.asanyarray": lambda ev, data, dtype=None, **kw: data if isinstance(data, (Arr, Arr0)) and _dtype_name(dtype) in _SAME_DTYPE else _np_array(ev, data, dtype=dtype, **kw),
    "numpy.ascontiguousarray": lambda ev, data, dtype=None, **kw: data if isinstance(data, (Arr, Arr0)) and _dtype_name(dtype) in _SAME_DTYPE else _np_array(ev, data, dtype=dtype, **kw),
    "numpy.ravel": lambda ev, a, **kw: _np_ravel(a) if isinstance(a, Arr) else Arr(list(a)),
    "numpy.zeros": _np_zeros,
    "numpy.zeros_like": lambda ev, x, **k: x._map(lambda _: 0) if isinstance(x, Arr) else 0,
    "numpy.sum": _np_sum,
    "numpy.mean": _np_mean,
    "numpy.full": _np_shape_fill(None),
    "numpy.eye": lambda ev, n, **k: Arr([[1 if i == j else 0 for j in range(int(n))] for i in range(int(n))]),
    "numpy.isinf": lambda ev, x: is_inf(x),
    "numpy.isfinite": lambda ev, x: Mask(x, False) if isinstance(x, Arr) else (not is_inf(num_norm(x))),
    "numpy.isnan": lambda ev, x: Mask(x, True) if isinstance(x, Arr) else False,
    "scipy.special.zeta": _zeta,
    "scipy.special.spence": _spence,
    "scipy.special.binom": _binom,
    "copy.deepcopy": _deepcopy,
    "copy.copy": _copy,
    "importlib.import_module": _import_module,
    "importlib.util.find_spec": lambda ev, name, package=None: _find_spec(ev, name, package),
    "numba.njit": lambda ev, *a, **k: _NativeFn(lambda f: f),
    "logging.getLogger": lambda ev, *a, **k: OpaqueObj("logger"),
    # the analysed configuration is the default environment
    "os.environ.get": lambda ev, k, d=None: d,
}

UNIT_ARGS = ("x", "z", "xB", "y")  # integration / Bjorken variables live in (0, 1)


def _above_one(r):
    """+1 if the argument is evidently > 1 on the domain, -1 if evidently < 1, None otherwise."""
    try:
        return A.definite_sign(_r(r) - 1, unit=UNIT_ARGS)
    except (Undecided, ZeroDivisionError, TypeError):
        return None


def _li2_real(ev, x):
    """yadism's li2 is CERNlib DDILOG: the *real part* of Li2, also above the branch point:
    Re Li2(w) = pi^2/3 - ln^2(w)/2 - Li2(1/w) for w > 1."""
    x = num_norm(x)
    if isinstance(x, Cx):
        raise Undecided("dilogarithm of a complex value")
    r = _r(x)
    if _above_one(r) == 1:
        pi = A.sym("pi", positive=True)
        lw = A.fn_log(r)
        return num_norm(pi * pi * Fraction(1, 3) - lw * lw * Fraction(1, 2) - A.fn_li2(A.Rat.const(1) / r))
    return num_norm(A.fn_li2(r))


def _nielsen(ev, n, p, x):
    """Nielsen S_{n,p}(x) (complex-valued implementation): S_{1,1} = Li2, S_{2,1} = Li3 with their continuations above 1
    (principal branch, Im Li2(w) = -pi ln w, Im Li3(w) = -pi ln^2(w)/2); other indices stay opaque."""
    n, p, x = num_norm(n), num_norm(p), num_norm(x)
    if p == 1 and n in (1, 2) and not isinstance(x, Cx):
        r = _r(x)
        side = _above_one(r)
        pi = A.sym("pi", positive=True)
        if side == 1:
            lw = A.fn_log(r)
            if n == 1:
                return Cx(pi * pi * Fraction(1, 3) - lw * lw * Fraction(1, 2) - A.fn_li2(A.Rat.const(1) / r), -(pi * lw))
            return Cx(A.fn_li3(A.Rat.const(1) / r) + pi * pi * Fraction(1, 3) * lw - lw * lw * lw * Fraction(1, 6), -(pi * lw * lw * Fraction(1, 2)))
        if side == -1 or r.const_value() is not None:
            return Cx(A.fn_li2(r) if n == 1 else A.fn_li3(r), 0)
    return A.opaque(f"S{n}{p}", (x,))


PROJECT_SUMMARIES = {
    # yadism's own dilogarithm (CERNlib DDILOG re-implementation): trusted to be (the real part of) Li2
    "yadism.coefficient_functions.special::li2": _li2_real,
    # Nielsen generalised polylogarithm S_{n,p}(x)
    "yadism.coefficient_functions.special.nielsen::nielsen": _nielsen,
    # N3LO grid interpolator: an opaque callable
    "yadism.coefficient_functions.heavy.n3lo::interpolator": lambda ev, *a, **k: OpaqueObj("n3lo_interpolator"),
    # logging set-up has no bearing on any property
    "yadism.log::setup": lambda ev, *a, **k: None,
}

_DUMMY = Evaluator.__new__(Evaluator)
_DUMMY.proj = None
_DUMMY.depth = 0


# ---- convenience -------------------------------------------------------------
def record(label=None, **attrs):
    return ObjVal(None, dict(attrs), label=label)
