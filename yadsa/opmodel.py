"""Folded operators: the PDF-independent operator of one kinematic point as a table
order-key -> matrix (parton x basis function) of normal forms over opaque
convolution atoms.  Linear-structure properties (additivity, isospin rotation,
symmetries, scale-variation structure) become normal-form identities between
folded operators."""

from __future__ import annotations

from fractions import Fraction

from . import algebra as A
from . import pcmodel as P
from . import runmodel as R
from . import sweep
from . import symeval as S
from .algebra import Undecided


class FoldedOp:
    def __init__(self, cell, orders, pids, ev=None, runner=None, nf=None):
        self.cell = cell
        self.orders = orders  # key -> (values rows, error rows); rows indexed like pids
        self.pids = pids
        self.ev = ev
        self.runner = runner
        self.nf = nf

    def entry(self, key, pid, j=0, err=False):
        if key not in self.orders:
            return 0
        rows = self.orders[key][1 if err else 0]
        return rows[self.pids.index(pid)][j]

    def keys(self):
        return set(self.orders)


class FoldFailure(Exception):
    def __init__(self, outcome):
        super().__init__(f"{outcome.status}: {outcome.etype} {outcome.msg}")
        self.outcome = outcome


def fold_op(proj, cell, weights="opaque", below_threshold=False, prepare=None):
    """Fold the first point of cell.obs into a FoldedOp (raises FoldFailure)."""
    import time

    t0 = time.time()
    # below_threshold="fold": the predicate is not summarised - its own body is folded, the comparison inside it being decided by the
    # regime the rule installs through `prepare` (so that what the callers do with the value it returns is folded as written)
    hook = P._provenance if below_threshold == "fold" else (P.above_threshold_hook if not below_threshold else sweep.below_threshold_hook)
    try:
        ev, runner, th, ob = R.fold_runner(proj, cell, on_call=hook)
        R.install_result_summaries(ev)
        if weights == "opaque":
            R.opaque_weights(ev)
        elif weights == "semi":
            R.semi_opaque_weights(ev)
        if prepare is not None:
            prepare(ev, runner)
        o, elems = R.esf_of(ev, runner, cell.obs)
        if cell.points:
            # explicit points: evaluated one after the other as the runner would (whatever an earlier point leaves behind is there), the
            # request being the element whose kinematics are the last listed point
            want = cell.points[-1]
            target = None
            for e_ in elems:
                r_ = R.fold_point_result(ev, e_)
                if all(S.num_norm(r_.attrs.get(k)) == S.num_norm(v) for k, v in want.items() if k in ("x", "Q2", "y")):
                    target = r_
            if target is None:
                raise Undecided("the requested point is not among the results")
            res = target
        else:
            res = R.fold_point_result(ev, elems[0])
    except (Undecided, S.Raised) as e:
        raise FoldFailure(sweep.classify_exception(proj, cell, e, t0))
    pids = list(runner.attrs["_output"].store["pids"])
    orders = {}
    for k, v in res.attrs["orders"].items():
        vals, errs = v[0], v[1]
        orders[k] = (_rows(vals), _rows(errs))
    fo = FoldedOp(cell, orders, pids, ev, runner)
    fo.res_x = S.num_norm(res.attrs.get("x"))
    fo.res_Q2 = S.num_norm(res.attrs.get("Q2"))
    fo.res = res
    return fo


def _rows(a):
    d = a.data if isinstance(a, S.Arr) else a
    return [[S.num_norm(x) for x in row] for row in d]


def lin(*terms):
    """Linear combination sum(c*v)."""
    s = A.Rat.const(0)
    for c, v in terms:
        s = s + A.to_rat(c) * A.to_rat(v)
    return s


def tolerance_findings(proj, op, limit=2):
    """isclose-type tests that the folded run evaluated on symbolic quantities (see symeval._isclose): for a property that
    quantifies over all inputs, a quantity entering the operator is compared within an absolute/relative tolerance instead of exactly."""
    out, seen = [], set()
    for node, a, b in getattr(op.ev, "tolerance_tests", []):
        site, construct, stmt = sweep.locate(proj, node)
        key = (site, stmt)
        if key in seen:
            continue
        seen.add(key)
        out.append(f"{site} `{stmt[:70]}` ({construct}) compares {A.canon(a)[:50]} with {A.canon(b)[:20]} within a tolerance: inputs for which the "
                   "quantity is small but non-zero are treated as if it vanished")
    return out[:limit]


def same(a, b):
    return A.equal(A.to_rat(a), A.to_rat(b), tol=Fraction(1, 10**9))


def diff_text(a, b):
    d = A.difference(A.to_rat(a), A.to_rat(b), tol=Fraction(1, 10**9))
    return A.fmt_diffs(d, limit=3)


def sum_ops(ops):
    """Entry-wise sum of folded operators (union of keys)."""
    keys = set()
    for o in ops:
        keys |= o.keys()
    return keys


def compare_sum(lhs, rhs_list, what="values"):
    """lhs == sum(rhs_list) entry by entry; returns (n_entries, [(key, pid, j, text)])."""
    keys = set(lhs.keys())
    for o in rhs_list:
        keys |= o.keys()
    ncol = len(next(iter(lhs.orders.values()))[0][0]) if lhs.orders else 0
    bad = []
    n = 0
    for key in sorted(keys):
        for pid in lhs.pids:
            for j in range(ncol):
                n += 1
                got = lhs.entry(key, pid, j)
                exp = A.Rat.const(0)
                for o in rhs_list:
                    exp = exp + A.to_rat(o.entry(key, pid, j))
                if not same(got, exp):
                    bad.append((key, pid, j, diff_text(got, exp)))
    return n, bad
