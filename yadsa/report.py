"""Obligations, evidence files, known findings, exit codes."""

from __future__ import annotations

import json
import os
import pathlib
import time

VERIF = pathlib.Path(__file__).resolve().parent.parent
EVIDENCE = pathlib.Path(os.environ["YADSA_EVIDENCE_DIR"]) if os.environ.get("YADSA_EVIDENCE_DIR") else VERIF / "evidence"
REPLAY = EVIDENCE / "replay"
KNOWN = VERIF / "known_findings.json"

DISCHARGED = "discharged"
VIOLATED = "violated"
UNDECIDED = "undecided"


class Obligation:
    def __init__(self, rule, site, construct, status, detail="", key=None, data=None):
        self.rule = rule
        self.site = site  # file:line (diagnostic only, never a key)
        self.construct = construct  # qualified construct name
        self.status = status
        self.detail = detail
        self.key = key or ""  # normalised statement text or other line-free key
        self.data = data or {}

    def ident(self, prop):
        return (prop, self.rule, self.construct, self.key)

    def as_dict(self):
        d = dict(
            rule=self.rule,
            site=self.site,
            construct=self.construct,
            status=self.status,
            detail=self.detail,
        )
        if self.key:
            d["key"] = self.key
        if self.data:
            d["data"] = self.data
        return d


class Report:
    """Collects the obligations of one property check."""

    def __init__(self, prop, tier):
        self.prop = prop
        self.tier = tier
        self.obligations = []
        self.notes = []
        self.floors = []  # (label, found, floor)
        self.info = {}
        self.t0 = time.time()
        self.explanation = ""
        self.rule_text = ""
        self.assumptions = []
        self.trusted_base = []

    # -- recording ---------------------------------------------------------
    def ok(self, rule, site, construct, detail="", **kw):
        self.obligations.append(Obligation(rule, site, construct, DISCHARGED, detail, **kw))

    def bad(self, rule, site, construct, detail="", **kw):
        self.obligations.append(Obligation(rule, site, construct, VIOLATED, detail, **kw))

    def undecided(self, rule, site, construct, detail="", **kw):
        self.obligations.append(Obligation(rule, site, construct, UNDECIDED, detail, **kw))

    def check(self, cond, rule, site, construct, detail_ok="", detail_bad="", **kw):
        if cond:
            self.ok(rule, site, construct, detail_ok, **kw)
        else:
            self.bad(rule, site, construct, detail_bad or detail_ok, **kw)
        return cond

    def floor(self, label, found, floor):
        self.floors.append((label, found, floor))

    def note(self, text):
        self.notes.append(text)


def load_known():
    if not KNOWN.exists():
        return []
    data = json.loads(KNOWN.read_text())
    return data.get("findings", [])


def _census():
    """Which function bodies of the repository the partial evaluator walked statement by statement during this run (all pool workers
    included), and which it replaced by a rule-supplied summary: measured, so that a reader can see what the verdict rests on."""
    from . import symeval as S

    if not S.FOLDED and not S.SUMMARISED:
        return {}
    return dict(functions_folded=len(S.FOLDED), functions_folded_list=sorted(S.FOLDED), functions_summarised_list=sorted(S.SUMMARISED))


def finish(rep: Report, seed=0):
    """Write evidence, print the verdict lines, return the exit code."""
    from .model import AnalysisError

    known = [k for k in load_known() if k.get("property") == rep.prop and k.get("status") == "open"]
    violations = [o for o in rep.obligations if o.status == VIOLATED]
    listed, unlisted = [], []
    for o in violations:
        hit = None
        for k in known:
            if (
                k.get("rule") == o.rule
                and k.get("construct") == o.construct
                and (not k.get("key") or k.get("key") == o.key)
            ):
                hit = k
                break
        (listed if hit else unlisted).append((o, hit))

    if not unlisted:
        # floors only matter when nothing was reported: a rule that found a violation has not gone blind
        for label, found, floor in rep.floors:
            if found < floor:
                raise AnalysisError(
                    f"{rep.prop}: instance count for '{label}' fell to {found} (< floor {floor}); "
                    "the rule no longer sees what was confirmed by hand"
                )
    EVIDENCE.mkdir(parents=True, exist_ok=True)
    replay_paths = []
    if unlisted:
        REPLAY.mkdir(exist_ok=True)
    for n, (o, _) in enumerate(unlisted):
        p = REPLAY / f"{rep.prop}-{n}.json"
        p.write_text(json.dumps(dict(property=rep.prop, **o.as_dict()), indent=1, default=str))
        replay_paths.append(p)

    n_obl = len(rep.obligations)
    n_dis = sum(1 for o in rep.obligations if o.status == DISCHARGED)
    n_und = sum(1 for o in rep.obligations if o.status == UNDECIDED)
    distinct = len({(o.rule, o.construct, o.key) for o in rep.obligations if o.status != UNDECIDED})
    # samples: deterministic selection driven by the seed
    obs = rep.obligations
    samples = []
    if obs:
        step = max(1, len(obs) // 12)
        start = seed % step if step else 0
        samples = [o.as_dict() for o in obs[start::step][:12]]
    by_rule = {}
    for o in obs:
        r = by_rule.setdefault(o.rule, dict(obligations=0, discharged=0, undecided=0, violated=0))
        r["obligations"] += 1
        r[o.status] += 1
    coverage = dict(
        explanation=rep.explanation,
        rule=rep.rule_text,
        obligations=n_obl,
        discharged=n_dis,
        undecided=n_und,
        evaluations=n_obl,
        distinct_nontrivial=distinct,
        samples=samples,
        by_rule=by_rule,
        undecided_list=[o.as_dict() for o in obs if o.status == UNDECIDED][:60],
        floors=[dict(label=l, found=f, floor=fl) for l, f, fl in rep.floors],
        trusted_base=rep.trusted_base,
        exhaustive=True,
        checker_cmd=f"/venv/bin/python -m yadsa check {rep.prop} --tier {rep.tier}",
        notes=rep.notes,
        violations_listed=[dict(o.as_dict(), known=k.get("what")) for o, k in listed],
        violations_unlisted=[o.as_dict() for o, _ in unlisted],
        **_census(),
        **rep.info,
    )
    ev = dict(
        property_id=rep.prop,
        tier=rep.tier,
        seed=int(seed),
        level="other",
        coverage=coverage,
        assumptions=rep.assumptions,
        wall_s=round(time.time() - rep.t0, 3),
        violations=len(unlisted),
    )
    (EVIDENCE / f"{rep.prop}.json").write_text(json.dumps(ev, indent=1, default=str))

    # console
    print(f"[{rep.prop}] tier={rep.tier} obligations={n_obl} discharged={n_dis} undecided={n_und} "
          f"violated={len(violations)} (listed {len(listed)}) wall={ev['wall_s']}s")
    for r, c in sorted(by_rule.items()):
        print(f"  {r}: {c['discharged']}/{c['obligations']} discharged"
              + (f", {c['undecided']} undecided" if c["undecided"] else "")
              + (f", {c['violated']} VIOLATED" if c["violated"] else ""))
    for o in obs:
        if o.status == UNDECIDED:
            print(f"  UNDECIDED {o.rule} {o.site} {o.construct}: {o.detail}")
    for t in rep.notes:
        print(f"  NOTE {t}")
    for o, k in listed:
        print(f"KNOWN-FINDING: property={rep.prop} {o.rule} {o.construct} ({o.site}): {k.get('what') or o.detail}")
    for (o, _), p in zip(unlisted, replay_paths):
        print(f"  {o.rule} {o.site} {o.construct}: {o.detail}")
        print(f"VIOLATION property={rep.prop} replay={p}")
    return 1 if unlisted else 0
