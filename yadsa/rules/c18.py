"""C18 - compiled kernels agree with their Python semantics (static clauses).

Decided: (args) no kernel reads beyond the argument vector its RSL supplies, and
role agreement of the positions; (closed) every njit body only calls njit
functions / numba-supported numpy and builtins and reads only module constants;
(types) declared signature vs. arity and a small type inference for complex
leaks; (frozen) captured globals are never written from functions.
Not decided: LLVM vs CPython rounding.
"""

from __future__ import annotations

import ast
import re

from .. import algebra as A
from .. import flow
from .. import pcmodel as P
from .. import symeval as S
from ..algebra import Undecided
from ..model import AnalysisError, norm_text

NUMPY_OK = {"log", "power", "full", "array", "sqrt", "exp", "abs", "zeros", "pi", "nan", "log10", "arctan", "fabs", "log1p", "sin", "cos", "tan",
            "tanh", "sinh", "cosh", "arctan2", "where", "maximum", "minimum", "sign", "floor", "ceil", "isnan", "isfinite", "ones", "empty",
            "linspace", "sum", "dot", "log2", "expm1", "square", "cbrt", "absolute", "float64", "int64", "complex128", "real", "imag"}
BUILTIN_OK = {"range", "enumerate", "complex", "ValueError", "abs", "int", "float", "len", "min", "max"}


# ---------------------------------------------------------------------------
# C18.args
# ---------------------------------------------------------------------------
def role_matches(role, value):
    """Does the folded supply value fit the role name the kernel gives the position?"""
    r = role.lower()
    if isinstance(value, (int,)) or (hasattr(value, "denominator") and not isinstance(value, A.Rat)):
        atoms = set()
    else:
        try:
            atoms = A.to_rat(value).all_atoms()
        except Undecided:
            return None
    if r == "nf":
        return atoms == {"nf"}
    if r == "l":
        return "log(Q2)" in atoms and "nf" not in atoms and "n3lo_var" not in atoms
    if r == "variation":
        return atoms == {"n3lo_var"}
    return None  # role name not in the table: no obligation


def check_args(rep, proj):
    ev = S.Evaluator(proj, on_call=P.above_threshold_hook)
    sym = P.Sym()
    instances, problems = P.all_instances(proj, ev, sym)
    for construct, site, reason, kind in problems:
        if kind == "abstract":
            rep.note(f"{construct}: {reason}")
        else:
            rep.undecided("C18.args", site, construct, reason)
    memo = {}
    n_parts = 0
    n_demanding = 0
    for inst in instances:
        for part in ("reg", "sing", "loc"):
            f = inst.rsl.attrs.get(part)
            if f is None:
                continue
            n_parts += 1
            construct = f"{inst.construct}:{part}"
            try:
                supply = P.part_args(inst.rsl, part)
                n_supply = len(supply.data)
            except Undecided as u:
                rep.undecided("C18.args", inst.site, construct, f"supply not folded: {u}")
                continue
            fi = P.func_of(f)
            if fi is None:
                rep.undecided("C18.args", inst.site, construct, f"kernel is not a project function ({f!r})")
                continue
            d = flow.arg_demand(proj, fi, 1, memo)
            helper = fi.name in ("sing_from_distr_coeffs", "loc_from_distr_coeffs")
            if d.escapes and not helper:
                rep.undecided("C18.args", inst.site, construct,
                              f"argument vector escapes into an unmodelled construct: {norm_text(d.escapes[0])[:80]}")
                continue
            bad_nc = [k for _, k in d.nonconst if not helper]
            if bad_nc:
                rep.bad("C18.args", inst.site, construct,
                        f"non-constant subscript of the argument vector ({bad_nc[0]}) outside the *_from_distr_coeffs helpers",
                        key=part)
                continue
            if d.n:
                n_demanding += 1
            if d.n > n_supply:
                k = d.n - 1
                rep.bad("C18.args", inst.site, construct,
                        f"kernel demands args[{k}] ({d.chain.get(k, fi.fq)}) but the RSL supplies {n_supply} value(s) for '{part}': "
                        "IndexError in interpreter mode, out-of-bounds read when compiled",
                        key=part, data=dict(demand=d.n, supply=n_supply, kernel=fi.fq))
                continue
            if helper and n_supply < 1 and fi.name == "loc_from_distr_coeffs":
                rep.bad("C18.args", inst.site, construct, "loc_from_distr_coeffs needs at least the delta coefficient", key=part)
                continue
            # roles
            role_bad = None
            for k, roles in d.roles.items():
                if k >= n_supply:
                    continue
                for role in roles:
                    m = role_matches(role, supply.data[k])
                    if m is False:
                        role_bad = (k, role, supply.data[k])
            if role_bad:
                k, role, val = role_bad
                rep.bad("C18.args", inst.site, construct,
                        f"position {k} is read as '{role}' by the kernel but the RSL supplies {A.canon(val)[:60]}",
                        key=part, data=dict(kernel=fi.fq))
                continue
            # cross-check by folding the part with exactly the supplied vector
            A.set_budget(20_000)
            try:
                ev.call(f, [sym.z, supply], {})
            except S.Raised as r:
                if r.etype == "IndexError":
                    rep.bad("C18.args", inst.site, construct, f"folding the kernel with the supplied vector raises {r}", key=part)
                    continue
            except Undecided:
                pass
            finally:
                A.set_budget(None)
            rep.ok("C18.args", inst.site, construct, f"demand {d.n} <= supply {n_supply}", key=part,
                   data=dict(kernel=fi.fq, demand=d.n, supply=n_supply))
    # the TMC site: RSL(ker, args=[self.xi]) with ker flowing from the _convolve_FX call sites
    tmc = proj.module("yadism.esf.tmc")
    conv_fx = proj.func("yadism.esf.tmc", "EvaluatedStructureFunctionTMC._convolve_FX")
    rsl_calls = [n for n in ast.walk(conv_fx.node) if isinstance(n, ast.Call) and ast.unparse(n.func) == "RSL"]
    if not rsl_calls:
        # the construction may have moved into a helper of the TMC module: any RSL(...) built there from a kernel handed in as a value
        rsl_calls = [n for n in ast.walk(tmc.tree) if isinstance(n, ast.Call) and ast.unparse(n.func).split(".")[-1] == "RSL"]
    if not rsl_calls:
        raise AnalysisError("C18.args: RSL construction of the TMC integrals vanished from yadism.esf.tmc")
    site_supply = None
    for c in rsl_calls:
        for kw in c.keywords:
            if kw.arg == "args" and isinstance(kw.value, (ast.List, ast.Tuple)):
                site_supply = len(kw.value.elts)
                sup_txt = ast.unparse(kw.value)
    if site_supply is None:
        rep.undecided("C18.args", conv_fx.site, conv_fx.fq, "args= of the TMC RSL is not a list literal")
    else:
        n_tmc = 0
        # the kernels that can reach the RSL built in _convolve_FX: every compiled function of the module that is passed around as a
        # value (argument, table entry, ...), however the hand-over is spelled
        called = {id(n.func) for n in ast.walk(tmc.tree) if isinstance(n, ast.Call)}
        passed = {}
        for n in ast.walk(tmc.tree):
            if isinstance(n, ast.Name) and isinstance(n.ctx, ast.Load) and id(n) not in called:
                f_ = tmc.functions.get(n.id)
                if f_ is not None and f_.is_njit:
                    passed.setdefault(n.id, n)
        for name, n in sorted(passed.items()):
            f_ = tmc.functions[name]
            construct = f"{conv_fx.fq}<-{name}"
            d = flow.arg_demand(proj, f_, 1, memo)
            n_tmc += 1
            n_parts += 1
            roles_ok = all(role in ("xi",) for rs in d.roles.values() for role in rs)
            if d.n > site_supply:
                rep.bad("C18.args", f"{tmc.relpath}:{n.lineno}", construct, f"TMC kernel demands {d.n} values, RSL supplies {sup_txt}")
            elif not roles_ok or (d.roles and "xi" not in sup_txt):
                rep.bad("C18.args", f"{tmc.relpath}:{n.lineno}", construct, f"TMC kernel reads args[0] as {d.roles} but the RSL supplies {sup_txt}")
            else:
                rep.ok("C18.args", f"{tmc.relpath}:{n.lineno}", construct, f"demand {d.n} <= supply {site_supply} ({sup_txt})")
        rep.floor("TMC kernels handed to _convolve_FX", n_tmc, 3)
    rep.info["rsl_parts_checked"] = n_parts
    rep.info["kernels_with_nonzero_demand"] = n_demanding
    rep.floor("RSL parts with a kernel", n_parts, 230)
    rep.floor("parts with non-zero demand", n_demanding, 60)


# ---------------------------------------------------------------------------
# C18.closed / C18.frozen / C18.types
# ---------------------------------------------------------------------------
def parse_sig(sig):
    m = re.match(r"^\s*(\w+(?:\[:\])?)\s*\((.*)\)\s*$", sig or "")
    if not m:
        return None, None
    params = [p.strip() for p in m.group(2).split(",") if p.strip()]
    return m.group(1), params


def module_level_kind(proj, module, name):
    """Classify a module-level name read by a kernel."""
    r = proj.resolve_symbol(module, name)
    if r is None:
        return ("unknown", None)
    if r[0] == "func":
        return ("njit" if r[1].is_njit else "pyfunc", r[1])
    if r[0] == "const":
        return ("const", r[1])
    if r[0] in ("module", "ext", "class", "missing"):
        return (r[0], r[1])
    return ("unknown", None)


def const_value_ok(proj, module, stmt, _depth=0):
    """A captured global must be a number, an array of numbers, or an alias of an njit function."""
    v = stmt.value if isinstance(stmt, (ast.Assign, ast.AnnAssign)) else None
    if v is None:
        return False
    if isinstance(v, ast.Name):
        k, obj = module_level_kind(proj, module, v.id)
        return k in ("njit",) or (k == "const" and _depth < 5 and const_value_ok(proj, obj[0], obj[1], _depth + 1))
    for n in ast.walk(v):
        if isinstance(n, (ast.Dict, ast.Lambda, ast.ListComp, ast.DictComp, ast.JoinedStr)):
            return False
        if isinstance(n, ast.Constant) and isinstance(n.value, str):
            return False
    return True


def check_closed_and_frozen(rep, proj):
    kernels = [f for f in proj.all_functions if f.is_njit]
    rep.floor("njit kernels", len(kernels), 120)
    # names captured by kernels, per module
    captured = {}  # (module name, name) -> kernel
    for f in kernels:
        locals_ = flow.local_stores(f.node)
        problems = []
        unknown = []
        for n in flow.function_body_nodes(f.node, include_nested=True):
            if isinstance(n, (ast.FunctionDef, ast.Lambda, ast.ClassDef)):
                problems.append(f"nested {type(n).__name__} inside an njit kernel")
            if isinstance(n, (ast.Try, ast.With, ast.Yield, ast.YieldFrom, ast.Global, ast.JoinedStr, ast.Dict, ast.ListComp, ast.DictComp, ast.GeneratorExp)):
                if isinstance(n, ast.JoinedStr) and isinstance(getattr(n, "_parent", None), ast.Call) and isinstance(
                    getattr(n._parent, "_parent", None), ast.Raise
                ):
                    continue
                problems.append(f"{type(n).__name__} is not compilable in nopython mode")
            if isinstance(n, ast.Call):
                fn = n.func
                if isinstance(fn, ast.Name):
                    if fn.id in locals_:
                        # local alias such as `ddilog = li2`
                        continue
                    if fn.id in BUILTIN_OK:
                        continue
                    k, obj = module_level_kind(proj, f.module, fn.id)
                    if k == "njit":
                        continue
                    if k == "const" and const_value_ok(proj, obj[0], obj[1]):
                        continue
                    problems.append(f"call of '{fn.id}' ({k}) which is not an njit function or a whitelisted builtin")
                elif isinstance(fn, ast.Attribute):
                    r = proj.resolve_expr(f.module, fn, f)
                    if r is not None and r[0] == "func":
                        if not r[1].is_njit:
                            problems.append(f"call of plain-Python function {r[1].fq}")
                        continue
                    if r is not None and r[0] == "ext":
                        d = S._canon_ext(r[1])
                        if d.startswith("numpy.") and d.split(".", 1)[1] in NUMPY_OK:
                            continue
                        if d.startswith("numpy.") or d.startswith("math."):
                            unknown.append(f"call of {d}: not in the checker's list of numba-supported functions")
                            continue
                        problems.append(f"call of {d}: numba cannot compile calls into this library in nopython mode")
                        continue
                    problems.append(f"call of unresolved attribute {ast.unparse(fn)}")
                else:
                    problems.append(f"call through {type(fn).__name__}")
            elif isinstance(n, ast.Name) and isinstance(n.ctx, ast.Load) and n.id not in locals_:
                if n.id in BUILTIN_OK or n.id in ("True", "False", "None"):
                    continue
                k, obj = module_level_kind(proj, f.module, n.id)
                if k in ("njit", "module", "ext"):
                    if k == "ext":
                        # from eko.constants import CF -> a number; from x import func -> must be compilable
                        pass
                    continue
                if k == "const":
                    captured[(obj[0].name, _const_name(obj[1], n.id))] = f
                    if not const_value_ok(proj, obj[0], obj[1]):
                        problems.append(f"captured global '{n.id}' is not a numeric constant/array")
                    continue
                if k == "pyfunc":
                    par = getattr(n, "_parent", None)
                    if not (isinstance(par, ast.Call) and par.func is n):
                        problems.append(f"reference to plain-Python function {n.id}")
                    continue
                problems.append(f"free name '{n.id}' is {k}")
        if problems:
            rep.bad("C18.closed", f.site, f.fq, "; ".join(sorted(set(problems))[:3]))
        elif unknown:
            rep.undecided("C18.closed", f.site, f.fq, "; ".join(sorted(set(unknown))[:2]))
        else:
            rep.ok("C18.closed", f.site, f.fq, "all callees njit/whitelisted, all free names module constants")
    # frozen: no function writes a module-level name that a kernel captured
    n_frozen = 0
    writes = {}  # (module, name) -> [site]
    for f in proj.all_functions:
        m = f.module
        globals_declared = set()
        for n in ast.walk(f.node):
            if isinstance(n, ast.Global):
                globals_declared.update(n.names)
        locals_ = flow.local_stores(f.node) - globals_declared
        for n in flow.function_body_nodes(f.node, include_nested=False):
            tgt = None
            if isinstance(n, (ast.Assign, ast.AugAssign, ast.AnnAssign)):
                tgts = n.targets if isinstance(n, ast.Assign) else [n.target]
                for t in tgts:
                    base = t
                    while isinstance(base, (ast.Subscript, ast.Attribute)):
                        base = base.value
                    if isinstance(base, ast.Name):
                        direct = base is t
                        if direct and base.id in globals_declared:
                            tgt = (m.name, base.id)
                        elif not direct and base.id not in locals_ and base.id in m.symbols:
                            r = proj.resolve_symbol(m, base.id)
                            if r and r[0] == "const":
                                tgt = (r[1][0].name, base.id)
                            elif r and r[0] == "module" and isinstance(t, ast.Subscript) and isinstance(t.value, ast.Attribute):
                                tgt = (r[1].name, t.value.attr)
                        if tgt:
                            writes.setdefault(tgt, []).append(f"{m.relpath}:{n.lineno} in {f.fq}")
    for key, kern in sorted(captured.items()):
        n_frozen += 1
        if key in writes:
            rep.bad("C18.frozen", kern.site, f"{key[0]}::{key[1]}",
                    f"module-level value captured by njit kernel {kern.fq} is written at run time: {writes[key][0]}")
        else:
            rep.ok("C18.frozen", kern.site, f"{key[0]}::{key[1]}", "assigned at module level only")
    rep.floor("captured globals", n_frozen, 15)
    return kernels


def _const_name(stmt, default):
    return default


NARROW_TYPES = {"f4", "float32", "c8", "complex64", "i4", "i2", "i1", "int32", "int16", "int8", "u4", "u2", "u1", "uint32", "uint16", "uint8", "f2", "float16"}


def _syntactically_negative(n):
    if isinstance(n, ast.UnaryOp) and isinstance(n.op, ast.USub):
        return not _syntactically_negative(n.operand)
    if isinstance(n, ast.Constant) and isinstance(n.value, int) and not isinstance(n.value, bool):
        return n.value < 0
    return False


class TypeInfer:
    ORDER = {"i8": 0, "f8": 1, "c16": 2}

    def __init__(self, proj, f):
        self.proj = proj
        self.f = f
        ret, params = parse_sig(f.njit_sig)
        self.ret = ret
        self.env = {}
        for name, t in zip(f.params, params or []):
            self.env[name] = "arr" if t.endswith("[:]") else t
        self.problems = []

    def join(self, a, b):
        if a == b:
            return a
        if "unknown" in (a, b):
            return "unknown"
        if a in self.ORDER and b in self.ORDER:
            return a if self.ORDER[a] >= self.ORDER[b] else b
        if a.startswith("arr") and b in self.ORDER:
            return a
        if b.startswith("arr") and a in self.ORDER:
            return b
        return "unknown"

    def run(self):
        # two passes so that loop-carried types stabilise
        for _ in range(3):
            self.visit_block(self.f.node.body, collect=False)
        self.returns = []
        self.visit_block(self.f.node.body, collect=True)
        return self.returns

    def visit_block(self, stmts, collect):
        for s in stmts:
            if isinstance(s, ast.Assign):
                t = self.expr(s.value)
                for tg in s.targets:
                    if isinstance(tg, ast.Name):
                        old = self.env.get(tg.id)
                        self.env[tg.id] = t if old is None else self.join(old, t)
                    elif isinstance(tg, ast.Tuple):
                        for e in tg.elts:
                            if isinstance(e, ast.Name):
                                self.env[e.id] = "unknown"
            elif isinstance(s, ast.AugAssign):
                if isinstance(s.target, ast.Name):
                    t = self.join(self.env.get(s.target.id, "unknown"), self.expr(s.value))
                    if isinstance(s.op, ast.Div) and t == "i8":
                        t = "f8"
                    self.env[s.target.id] = t
            elif isinstance(s, ast.For):
                if isinstance(s.target, ast.Name):
                    self.env[s.target.id] = "i8" if "range" in ast.unparse(s.iter) else "f8"
                elif isinstance(s.target, ast.Tuple):
                    names = [e.id for e in s.target.elts if isinstance(e, ast.Name)]
                    if ast.unparse(s.iter).startswith("enumerate") and len(names) == 2:
                        self.env[names[0]] = "i8"
                        self.env[names[1]] = "f8"
                self.visit_block(s.body, collect)
                self.visit_block(s.orelse, collect)
            elif isinstance(s, (ast.If, ast.While)):
                self.visit_block(s.body, collect)
                self.visit_block(s.orelse, collect)
            elif isinstance(s, ast.Return) and collect and s.value is not None:
                self.returns.append((s, self.expr(s.value)))

    def expr(self, n):
        if isinstance(n, ast.Constant):
            v = n.value
            if isinstance(v, bool) or isinstance(v, int):
                return "i8"
            if isinstance(v, float):
                return "f8"
            if isinstance(v, complex):
                return "c16"
            return "unknown"
        if isinstance(n, ast.Name):
            if n.id in self.env:
                return self.env[n.id]
            k, obj = module_level_kind(self.proj, self.f.module, n.id)
            if k == "const":
                return self.const_type(obj)
            if k == "ext":
                return "f8"  # from eko.constants import CF
            return "unknown"
        if isinstance(n, ast.UnaryOp):
            return self.expr(n.operand)
        if isinstance(n, ast.BinOp):
            a, b = self.expr(n.left), self.expr(n.right)
            t = self.join(a, b)
            if isinstance(n.op, ast.Div) and t == "i8":
                return "f8"
            if isinstance(n.op, ast.Pow) and a == "i8" and b == "i8" and _syntactically_negative(n.right):
                # numba's integer power (int_power_impl / static_power_impl) stays in int64: base ** -n is 0 for |base| >= 2,
                # the interpreter returns the float 1 / base ** n
                self.problems.append(
                    f"integer ** negative integer ({norm_text(n)[:50]}): the compiled kernel computes in int64 (0 unless the base is +-1), "
                    "the interpreter gives the float reciprocal")
                return "i8"
            if t.startswith("arr"):
                return t
            return t
        if isinstance(n, ast.IfExp):
            return self.join(self.expr(n.body), self.expr(n.orelse))
        if isinstance(n, ast.Compare) or isinstance(n, ast.BoolOp):
            return "i8"
        if isinstance(n, ast.Attribute):
            if n.attr == "real" or n.attr == "imag":
                return "f8"
            r = self.proj.resolve_expr(self.f.module, n, self.f)
            if r is not None and r[0] == "const":
                return self.const_type(r[1])
            if r is not None and r[0] == "ext":
                return "f8"
            return "unknown"
        if isinstance(n, ast.Subscript):
            t = self.expr(n.value)
            if t == "arr":
                return "f8"
            if t == "arr_c16":
                return "c16"
            if t == "arr_i8":
                return "i8"
            return "unknown"
        if isinstance(n, ast.Call):
            fn = n.func
            name = ast.unparse(fn)
            argts = [self.expr(a) for a in n.args]
            if name == "complex":
                return "c16"
            if name == "int":
                return "i8"
            if name == "float":
                return "f8"
            if name in ("abs", "min", "max"):
                t = "i8"
                for a in argts:
                    t = self.join(t, a)
                return "f8" if t == "c16" and name == "abs" else t
            if name in ("np.log", "np.sqrt", "np.exp", "np.power", "np.abs"):
                t = "f8"
                for a in argts:
                    t = self.join(t, a)
                return "f8" if (name == "np.abs" and t == "c16") else t
            if name in ("np.array",):
                return "arr"
            if name == "np.full":
                if len(argts) >= 2 and argts[1] == "c16":
                    return "arr_c16"
                return "arr"
            # project kernels
            if isinstance(fn, ast.Name) and fn.id in self.env and self.env[fn.id].startswith("fn:"):
                return self.env[fn.id][3:]
            r = self.proj.resolve_expr(self.f.module, fn, self.f)
            if r is None and isinstance(fn, ast.Name):
                # local alias of a kernel: `ddilog = li2`
                for st in ast.walk(self.f.node):
                    if isinstance(st, ast.Assign) and len(st.targets) == 1 and isinstance(st.targets[0], ast.Name) and st.targets[0].id == fn.id:
                        r = self.proj.resolve_expr(self.f.module, st.value, self.f)
            if r is not None and r[0] == "func" and r[1].is_njit:
                ret, params = parse_sig(r[1].njit_sig)
                if params is not None and len(params) != len(n.args):
                    self.problems.append(f"call of {r[1].fq} with {len(n.args)} argument(s), its signature '{r[1].njit_sig}' takes {len(params)}")
                elif params is not None:
                    for a, at, pt in zip(n.args, argts, params):
                        if pt.endswith("[:]") and not at.startswith("arr") and at != "unknown":
                            self.problems.append(f"scalar passed where {r[1].fq} expects an array")
                        if not pt.endswith("[:]") and at.startswith("arr"):
                            self.problems.append(f"array passed where {r[1].fq} expects a scalar")
                        if pt in ("f8", "i8") and at == "c16":
                            self.problems.append(f"complex value passed to {pt} parameter of {r[1].fq}")
                return ret or "unknown"
            if r is not None and r[0] == "const":
                # alias of a function at module level
                return "unknown"
            return "unknown"
        return "unknown"

    def const_type(self, obj):
        module, stmt = obj
        v = getattr(stmt, "value", None)
        if v is None:
            return "unknown"
        txt = ast.unparse(v)
        if "np.array" in txt or "np.full" in txt or "np.zeros" in txt:
            return "arr"
        if isinstance(v, ast.Name):
            k, o = module_level_kind(self.proj, module, v.id)
            if k == "const":
                return self.const_type(o)
            return "unknown"
        if any(isinstance(x, ast.Constant) and isinstance(x.value, complex) for x in ast.walk(v)):
            return "c16"
        return "f8"


def check_python_callers(rep, proj):
    """Interpreted code that calls a compiled kernel directly (closures of the channel classes do): an argument that only the
    interpreter accepts - None, a list / tuple / number / string literal where the declared signature has an array - makes the eager
    dispatcher raise TypeError when compilation is on, while the interpreted kernel (which may never read it) runs fine."""
    n = 0
    # names of arrays made read-only somewhere in their module (X.setflags(write=False) / X.flags.writeable = False): numba types such an
    # array as `readonly array`, which an eager signature with a mutable `f8[:]` parameter never matches
    readonly = {}
    for m in proj.modules.values():
        for node in ast.walk(m.tree):
            if isinstance(node, ast.Call) and isinstance(node.func, ast.Attribute) and node.func.attr == "setflags" and isinstance(node.func.value, ast.Name):
                off = [k for k in node.keywords if k.arg == "write" and isinstance(k.value, ast.Constant) and k.value.value in (False, 0)]
                if off or (node.args and isinstance(node.args[0], ast.Constant) and node.args[0].value in (False, 0)):
                    readonly[(m.name, node.func.value.id)] = node.lineno
            if isinstance(node, ast.Assign) and isinstance(node.value, ast.Constant) and node.value.value in (False, 0):
                for t in node.targets:
                    if isinstance(t, ast.Attribute) and t.attr == "writeable" and isinstance(t.value, ast.Attribute) and t.value.attr == "flags" and isinstance(t.value.value, ast.Name):
                        readonly[(m.name, t.value.value.id)] = node.lineno
    for m in proj.modules.values():
        for node in ast.walk(m.tree):
            if not isinstance(node, ast.Call):
                continue
            caller = proj.enclosing_function(node)
            if caller is not None and caller.is_njit:
                continue  # kernel-to-kernel calls are typed by check_types
            r = proj.resolve_expr(m, node.func, caller)
            if r is None or r[0] != "func" or not r[1].is_njit:
                continue
            ret, params = parse_sig(r[1].njit_sig)
            if not params:
                continue
            n += 1
            problems = []
            for a, pt in zip(node.args, params):
                if not pt.endswith("[:]"):
                    if isinstance(a, ast.Constant) and (a.value is None or isinstance(a.value, str)):
                        problems.append(f"{ast.unparse(a)} passed for the {pt} parameter")
                    continue
                if isinstance(a, ast.Constant) or isinstance(a, (ast.List, ast.Tuple, ast.Dict, ast.Set, ast.ListComp)):
                    problems.append(f"{ast.unparse(a)[:30]} passed where the signature '{r[1].njit_sig}' declares an array ({pt})")
                if isinstance(a, ast.Name):
                    ra = proj.resolve_expr(m, a, caller)
                    owner = ra[1].name if ra is not None and ra[0] == "const" and hasattr(ra[1], "name") else m.name
                    for mod_name in {owner, m.name}:
                        if (mod_name, a.id) in readonly:
                            problems.append(f"{a.id} (made read-only at line {readonly[(mod_name, a.id)]}) passed where the signature '{r[1].njit_sig}' declares a mutable array ({pt})")
                            break
            site = f"{m.relpath}:{node.lineno}"
            construct = f"{caller.fq if caller else m.name}->{r[1].fq}"
            rep.check(not problems, "C18.callers", site, construct, f"arguments compatible with '{r[1].njit_sig}'",
                      "; ".join(problems) + ": the compiled dispatcher rejects it (TypeError: no matching definition), the interpreter does not", key=f"{site}")
    rep.floor("direct Python -> kernel call sites", n, 20)


def check_types(rep, proj, kernels):
    for f in kernels:
        ret, params = parse_sig(f.njit_sig)
        if ret is None:
            rep.undecided("C18.types", f.site, f.fq, f"signature '{f.njit_sig}' not parsed (lazy compilation)")
            continue
        # the interpreter computes in Python int / float64 / complex128: a declared type of lower precision makes the compiled
        # kernel round (or wrap) where the interpreted one does not
        narrow = [t for t in [ret] + params if re.sub(r"\[.*\]$", "", t) in NARROW_TYPES]
        if narrow:
            rep.bad("C18.types", f.site, f.fq,
                    f"declared signature '{f.njit_sig}' uses {sorted(set(narrow))}: narrower than the float64 / complex128 / int64 the interpreter computes in "
                    "(the compiled kernel silently downcasts)", key="narrow")
            continue
        if len(params) != len(f.params):
            rep.bad("C18.types", f.site, f.fq,
                    f"declared signature '{f.njit_sig}' has {len(params)} parameter(s), the function takes {len(f.params)}: numba raises at import")
            continue
        ti = TypeInfer(proj, f)
        returns = ti.run()
        bad = None
        unknown = False
        for s, t in returns:
            if t == "unknown":
                unknown = True
            elif ret in ("f8", "i8") and t == "c16":
                bad = f"returns a complex value ({norm_text(s.value)[:60]}) from a kernel declared '{ret}': typing error when compiled, silently complex in interpreter mode"
            elif ret in ("f8", "i8", "c16") and t.startswith("arr"):
                bad = f"returns an array from a kernel declared '{ret}'"
        if ti.problems:
            bad = ti.problems[0]
        if not returns:
            bad = "kernel has no return statement with a value"
        if bad:
            rep.bad("C18.types", f.site, f.fq, bad)
        elif unknown:
            rep.undecided("C18.types", f.site, f.fq, "return type not inferred")
        else:
            rep.ok("C18.types", f.site, f.fq, f"arity and inferred return type fit '{f.njit_sig}'")


# ----------------------------------------------------------------------------- definite assignment
def _nonneg_tables(module_tree):
    """Module-level names bound to a literal list / np.array([...]) of non-negative integers (loop bounds read from such a table are >= 0)."""
    out = set()
    for st in module_tree.body:
        if isinstance(st, ast.Assign) and len(st.targets) == 1 and isinstance(st.targets[0], ast.Name):
            v = st.value
            if isinstance(v, ast.Call) and ast.unparse(v.func) in ("np.array", "numpy.array") and v.args:
                v = v.args[0]
            if isinstance(v, (ast.List, ast.Tuple)) and v.elts and all(isinstance(e, ast.Constant) and isinstance(e.value, int) and e.value >= 0 for e in v.elts):
                out.add(st.targets[0].id)
    # a table written to after its definition is not a constant
    for n in ast.walk(module_tree):
        if isinstance(n, (ast.Assign, ast.AugAssign)):
            for t in (n.targets if isinstance(n, ast.Assign) else [n.target]):
                if isinstance(t, ast.Subscript) and isinstance(t.value, ast.Name):
                    out.discard(t.value.id)
    return out


def _int_literal(e):
    try:
        v = ast.literal_eval(ast.unparse(e)) if not any(isinstance(x, (ast.Name, ast.Call, ast.Attribute, ast.Subscript)) for x in ast.walk(e)) else None
        if v is None and not any(isinstance(x, (ast.Name, ast.Call, ast.Attribute, ast.Subscript)) for x in ast.walk(e)):
            v = eval(compile(ast.Expression(e), "<lit>", "eval"), {"__builtins__": {}})  # pure integer arithmetic such as 0-1
        return v if isinstance(v, int) and not isinstance(v, bool) else None
    except Exception:
        try:
            if not any(isinstance(x, (ast.Name, ast.Call, ast.Attribute, ast.Subscript)) for x in ast.walk(e)):
                v = eval(compile(ast.Expression(e), "<lit>", "eval"), {"__builtins__": {}})
                return v if isinstance(v, int) and not isinstance(v, bool) else None
        except Exception:
            return None
        return None


def _loop_runs(st, nonneg):
    """Does this for-loop provably execute its body at least once?"""
    it = st.iter
    if isinstance(it, (ast.List, ast.Tuple)) and it.elts:
        return True
    if isinstance(it, ast.Call) and isinstance(it.func, ast.Name) and it.func.id == "range" and 1 <= len(it.args) <= 3:
        lits = [_int_literal(a) for a in it.args]
        if all(v is not None for v in lits):
            return len(range(*lits)) > 0
        # range(T[i], -1, -1) with T a table of non-negative integers: T[i], ..., 0
        if len(it.args) == 3 and lits[1] == -1 and lits[2] == -1 and isinstance(it.args[0], ast.Subscript) and isinstance(it.args[0].value, ast.Name) \
                and it.args[0].value.id in nonneg:
            return True
    return False


def definite_assignment(fn, nonneg=frozenset()):
    """Reads of a local variable that is not assigned on every path reaching the read.  In the interpreter that read raises
    UnboundLocalError; numba compiles the function (the variable has other definitions) and reads a zero-initialised slot: the two
    modes disagree without any diagnostic.  Flow-sensitive over if / for / while / try / with / match / return with two sets per point:
    MUST (assigned on every path) and MAY (assigned on some path).
    -> [(name, line, kind)]: kind 'never' = no path to the read assigns it (a definite defect on that path);
                             kind 'maybe' = some paths do, some do not (a loop that may be empty, an if/elif chain without else: only a
                             defect if that path can be taken - not decidable here)."""
    a = fn.args
    params = {x.arg for x in a.posonlyargs + a.args + a.kwonlyargs} | ({a.vararg.arg} if a.vararg else set()) | ({a.kwarg.arg} if a.kwarg else set())
    own = [n for n in ast.walk(fn) if n is not fn]

    def in_nested_scope(n):
        p = getattr(n, "_parent", None)
        while p is not None and p is not fn:
            if isinstance(p, (ast.FunctionDef, ast.AsyncFunctionDef, ast.Lambda, ast.ClassDef, ast.ListComp, ast.SetComp, ast.DictComp, ast.GeneratorExp)):
                return True
            p = getattr(p, "_parent", None)
        return False

    locals_ = {n.id for n in own if isinstance(n, ast.Name) and isinstance(n.ctx, ast.Store) and not in_nested_scope(n)}
    locals_ |= {n.name for n in own if isinstance(n, (ast.FunctionDef, ast.ClassDef)) and getattr(n, "_parent", None) is not None and not in_nested_scope(n)}
    locals_ -= {nm for n in own if isinstance(n, (ast.Global, ast.Nonlocal)) for nm in n.names}
    problems = []

    def note(name, line, st):
        must, may = st
        if name in locals_ and name not in params and name not in must:
            problems.append((name, line, "maybe" if name in may else "never"))

    def reads(expr, st):
        for n in ast.walk(expr):
            if isinstance(n, ast.Name) and isinstance(n.ctx, ast.Load):
                p, shadow = getattr(n, "_parent", None), False
                while p is not None and p is not expr:
                    if isinstance(p, (ast.ListComp, ast.SetComp, ast.DictComp, ast.GeneratorExp)):
                        if any(isinstance(t, ast.Name) and t.id == n.id for g in p.generators for t in ast.walk(g.target)):
                            shadow = True
                    if isinstance(p, ast.Lambda) and any(x.arg == n.id for x in p.args.args):
                        shadow = True
                    p = getattr(p, "_parent", None)
                if not shadow:
                    note(n.id, n.lineno, st)

    def bind(target, st):
        must, may = st
        for n in ast.walk(target):
            if isinstance(n, ast.Name) and isinstance(n.ctx, ast.Store):
                must.add(n.id)
                may.add(n.id)
            elif isinstance(n, (ast.Subscript, ast.Attribute)) and n is target:
                reads(n, st)

    def bound_names(node):
        return {x.id for x in ast.walk(node) if isinstance(x, ast.Name) and isinstance(x.ctx, ast.Store)}

    def join(states, fallback):
        alive = [s_ for s_ in states if s_ is not None]
        if not alive:
            return None
        return (set.intersection(*[set(m) for m, _ in alive]), set.union(*[set(y) for _, y in alive]))

    def block(stmts, st):
        """-> (must, may) after the block, or None if every path through it leaves (return / raise / continue / break)"""
        st = (set(st[0]), set(st[1]))
        for s_ in stmts:
            if isinstance(s_, ast.Assign):
                reads(s_.value, st)
                for t in s_.targets:
                    bind(t, st)
            elif isinstance(s_, ast.AugAssign):
                reads(s_.value, st)
                if isinstance(s_.target, ast.Name):
                    note(s_.target.id, s_.lineno, st)
                    st[0].add(s_.target.id)
                    st[1].add(s_.target.id)
                else:
                    reads(s_.target, st)
            elif isinstance(s_, ast.AnnAssign):
                if s_.value is not None:
                    reads(s_.value, st)
                    bind(s_.target, st)
            elif isinstance(s_, (ast.Return, ast.Raise)):
                for v in ast.iter_child_nodes(s_):
                    if isinstance(v, ast.expr):
                        reads(v, st)
                return None
            elif isinstance(s_, (ast.Continue, ast.Break)):
                return None
            elif isinstance(s_, ast.If):
                reads(s_.test, st)
                d1 = block(s_.body, st)
                d2 = block(s_.orelse, st) if s_.orelse else (set(st[0]), set(st[1]))
                j = join([d1, d2], st)
                if j is None:
                    return None
                st = j
            elif isinstance(s_, (ast.For, ast.While)):
                body_binds = bound_names(s_)
                if isinstance(s_, ast.For):
                    reads(s_.iter, st)
                    inner = (set(st[0]), set(st[1]) | body_binds)  # from the second iteration on, what the body binds may be bound
                    bind(s_.target, inner)
                else:
                    inner = (set(st[0]), set(st[1]) | body_binds)
                    reads(s_.test, inner)
                d_body = block(s_.body, inner)
                if s_.orelse:
                    block(s_.orelse, (set(st[0]), set(st[1]) | body_binds))
                runs = isinstance(s_, ast.For) and _loop_runs(s_, nonneg) and d_body is not None and not any(isinstance(x, (ast.Break, ast.Continue)) for x in ast.walk(s_))
                st = ((set(d_body[0]) if runs else set(st[0])), set(st[1]) | body_binds)
            elif isinstance(s_, ast.With):
                for it in s_.items:
                    reads(it.context_expr, st)
                    if it.optional_vars is not None:
                        bind(it.optional_vars, st)
                d = block(s_.body, st)
                if d is None:
                    return None
                st = d
            elif isinstance(s_, ast.Try):
                d0 = block(s_.body, st)
                outs = []
                for h in s_.handlers:
                    hs = (set(st[0]), set(st[1]) | bound_names(ast.Module(body=s_.body, type_ignores=[])))
                    if h.name:
                        hs[0].add(h.name)
                        hs[1].add(h.name)
                    outs.append(block(h.body, hs))
                if s_.orelse and d0 is not None:
                    d0 = block(s_.orelse, d0)
                j = join([d0] + outs, st)
                if j is None:
                    return None
                st = j
                if s_.finalbody:
                    d = block(s_.finalbody, st)
                    if d is None:
                        return None
                    st = d
            elif isinstance(s_, (ast.FunctionDef, ast.AsyncFunctionDef, ast.ClassDef)):
                st[0].add(s_.name)
                st[1].add(s_.name)
            elif isinstance(s_, (ast.Import, ast.ImportFrom)):
                for al in s_.names:
                    nm = (al.asname or al.name).split(".")[0]
                    st[0].add(nm)
                    st[1].add(nm)
            elif isinstance(s_, ast.Expr):
                reads(s_.value, st)
            elif isinstance(s_, ast.Assert):
                reads(s_.test, st)
            elif isinstance(s_, ast.Delete):
                for t in s_.targets:
                    if isinstance(t, ast.Name):
                        st[0].discard(t.id)
            elif isinstance(s_, ast.Match):
                reads(s_.subject, st)
                outs = []
                for c in s_.cases:
                    cs = (set(st[0]), set(st[1]))
                    for n in ast.walk(c.pattern):
                        if isinstance(n, (ast.MatchAs, ast.MatchStar)) and n.name:
                            cs[0].add(n.name)
                            cs[1].add(n.name)
                    outs.append(block(c.body, cs))
                exhaustive = any(isinstance(c.pattern, ast.MatchAs) and c.pattern.pattern is None and c.guard is None for c in s_.cases)
                j = join(outs + ([] if exhaustive else [st]), st)
                if j is None:
                    return None
                st = j
        return st

    block(fn.body, (set(params), set(params)))
    seen = set()
    out = []
    for name, line, kind in problems:
        if (name, line) not in seen:
            seen.add((name, line))
            out.append((name, line, kind))
    return out


def check_definite_assignment(rep, proj):
    n = 0
    for m in proj.modules.values():
        for f in m.functions.values():
            if not f.is_njit or isinstance(f.node, ast.Lambda):
                continue
            n += 1
            nonneg = _nonneg_tables(m.tree)
            probs = definite_assignment(f.node, nonneg)
            never = [p_ for p_ in probs if p_[2] == "never"]
            maybe = [p_ for p_ in probs if p_[2] == "maybe"]
            if never:
                rep.bad("C18.assigned", f.site, f.fq,
                        "; ".join(f"`{nm}` is read at line {ln} where no path from the function's entry has assigned it" for nm, ln, _ in never[:3])
                        + ": the interpreter raises UnboundLocalError there, the compiled kernel reads a zero-initialised slot and returns a number", key="assigned")
            elif maybe:
                rep.undecided("C18.assigned", f.site, f.fq, "; ".join(f"`{nm}` (line {ln}) is assigned on some paths to the read only (a loop that is not shown to run, "
                              "an if/elif chain without else)" for nm, ln, _ in maybe[:3]), key="assigned")
            else:
                rep.ok("C18.assigned", f.site, f.fq, "every local is assigned on every path before it is read (loops assumed possibly empty unless their range is a non-empty literal "
                       "or counts down from a table of non-negative integers)", key="assigned")
    rep.floor("compiled bodies checked for definite assignment", n, 120)


def run(rep, proj, tier):
    rep.explanation = (
        "Decides the clauses of C18 that are static by nature and invisible to a NUMBA_DISABLE_JIT=1 test suite: "
        "(args) for every RSL part of every partonic channel/order, every splitting kernel and the TMC kernels, the "
        "interprocedural demand on the float vector `args` (1 + max constant subscript, joined over callees) does not exceed "
        "the number of values the RSL supplies for that part, and positions read as nf/L/variation receive values of that role; "
        "(closed) each njit body calls only njit functions or whitelisted numpy/builtins and captures only numeric module constants; "
        "(types) declared signature arity, arity/type of kernel-to-kernel calls, no complex value returned from an f8 kernel; "
        "(frozen) captured module-level values are never written from a function. NOT decided: numerical agreement to rounding."
    )
    rep.rule_text = (
        "instances: RSL parts (class x order x part) folded through the MRO, splitting factories, TMC kernels; each njit function "
        "(closed, types); each captured module-level name (frozen). Distinct by construct and part; non-trivial = has a kernel."
    )
    rep.trusted_base = ["CPython ast", "yadsa resolver (printed resolver model in DESIGN.md 2.2)", "numba's supported numpy subset (whitelist in rules/c18.py)"]
    rep.assumptions = ["numba compiles what the whitelist contains; decorator signature strings are the only typing contract"]
    check_args(rep, proj)
    kernels = check_closed_and_frozen(rep, proj)
    check_types(rep, proj, kernels)
    check_python_callers(rep, proj)
    check_definite_assignment(rep, proj)
