"""C10 - target-mass-corrected results equal the published formulas.

Decided end to end on partially evaluated operators, for every kind with a TMC implementation,
every mode (1 APFEL, 2 approximate, 3 exact), heavyness, process and scheme of a lattice:
the operator folded with TMC on equals, for every order key and entry, the combination

   exact  F2   : x^2/(xi^2 r^3) F2(xi) + 6 mu x^3/r^4 h2 + 12 mu^2 x^4/r^5 g2
          FL   : x^2/(xi^2 r)   FL(xi) + 4 mu x^3/r^2 h2 +  8 mu^2 x^4/r^3 g2
          xF3  : x^2/(xi^2 r^2) xF3(xi) + 2 mu x^3/r^3 h3
          2xg1 : x^2/(xi^2 r^3) G(xi) + x (r^2-1)/r^4 [ (x+xi)/xi K1 - (3-r^2)/(2r) K2 ]
   APFEL  = exact with the nested integrals (g2, K2) dropped;   approximate = the published closed forms
   h2 = int_xi^1 du F2(u)/u^2,  g2 = int_xi^1 du (u-xi) F2(u)/u^2,  h3 = int_xi^1 du [xF3](u)/u^2,
   K1 = int_xi^1 du G(u)/u^2,   K2 = int_xi^1 du ln(u/xi) G(u)/u^2

(Schienbein et al. 2008 for F2, FL, F3 - multiplied through by x for xF3; Accardi-Melnitchouk (D.26)
for g1 in yadism's normalisation G = 2 x g1; mu = M^2/Q^2, r = sqrt(1+4 x^2 mu), xi = 2x/(1+r)) of the
operators folded *without* TMC at the shifted point and at the grid nodes, the integrals being the
opaque quadratures of the kernels whose folded closed form is z/xi, 1-z, z ln(1/z)/xi.
Also: every coefficient of an integral carries the factor mu, the F(xi) coefficient tends to 1 as
mu -> 0; requests whose shifted x is below the grid are rejected (C16.kin covers the guards).
Not decided: the accuracy of the quadratures.
"""

from __future__ import annotations

import itertools
from fractions import Fraction

from .. import algebra as A
from .. import opmodel as O
from .. import runmodel as R
from .. import sweep
from .. import symeval as S

TMCMOD = "yadism.esf.tmc"
MODES = {1: "APFEL", 2: "approx", 3: "exact"}


def tmc_vars():
    x = A.sym("xB", True)
    Q2 = A.sym("Q2", True)
    M = A.sym("MP", True)
    one = A.Rat.const(1)
    mu = M * M / Q2
    rho = A.fn_sqrt(one + x * x * mu * 4)
    xi = x * 2 / (one + rho)
    return dict(x=x, Q2=Q2, mu=mu, rho=rho, xi=xi)


def kernel_table(proj, ev, xi):
    """Fold every two-argument njit kernel of esf/tmc.py to its closed form; return name -> (normal form, FuncVal)."""
    m = proj.module(TMCMOD)
    z = A.sym("x", True)
    out = {}
    for name, f in m.functions.items():
        if f.is_njit and len(f.params) == 2 and "." not in name:
            try:
                v = ev.call(S.FuncVal(ev, f), [z, S.Arr([xi])], {})
                out[name] = (A.to_rat(S.num_norm(v)), f)
            except (A.Undecided, S.Raised):
                continue
    return out


def find_kernel(table, want):
    for name, (nf_, f) in table.items():
        if A.equal(nf_, want, tol=Fraction(0)):
            return f
    return None


def integral_atoms(ev, proj, kernel_f, xi, n):
    """Opaque quadrature values conv(RSL(kernel, args=[xi]), xi, basis j) exactly as the folded code names them."""
    rsl_cls = proj.cls("yadism.coefficient_functions.partonic_channel", "RSL")
    rsl = ev.instantiate(S.ClassVal(ev, rsl_cls), [S.FuncVal(ev, kernel_f)], {"args": [xi]})
    key = R.rsl_key(rsl)
    return [A.opaque("conv", (key, S.num_norm(xi), j)) for j in range(n)]


def _job(kw):
    from .. import model

    proj = model.project()
    kw = dict(kw)
    kind = kw.pop("kind")
    fl = kw.pop("fl")
    mode = kw["tmc"]
    v = tmc_vars()
    x, mu, rho, xi = v["x"], v["mu"], v["rho"], v["xi"]
    one = A.Rat.const(1)
    n = R.GRID_N
    try:
        op = O.fold_op(proj, R.Cell(obs=f"{kind}_{fl}", **kw))
    except O.FoldFailure as f:
        return ("fold", f.outcome.status, f"{f.outcome.etype} {f.outcome.msg}"[:160], f.outcome.site, f.outcome.construct)
    ev = op.ev
    raw_kw = dict(kw, tmc=0)
    cache = {}

    def raw(k, at):
        key = (k, A.canon(at))
        if key not in cache:
            cache[key] = O.fold_op(proj, R.Cell(obs=f"{k}_{fl}", kin_x=at, **raw_kw))
        return cache[key]

    zsym = A.sym("x", True)
    ktab = kernel_table(proj, ev, xi)
    K_h2 = find_kernel(ktab, zsym / xi)
    K_g2 = find_kernel(ktab, one - zsym)
    K_k2 = find_kernel(ktab, zsym * A.fn_log(one / zsym) / xi)
    nodes = [A.sym(f"xg{j}", True) for j in range(n)]

    def integral(kernel_f, k, what):
        if kernel_f is None:
            raise LookupError(f"no TMC kernel with the closed form needed for {what}")
        atoms = integral_atoms(ev, proj, kernel_f, xi, n)
        ops = [raw(k, nodes[j]) for j in range(n)]
        return [(atoms[j], ops[j]) for j in range(n)]

    try:
        terms = []  # list of (coefficient Rat, FoldedOp) ; expected = sum coeff * op
        lnxi = A.fn_log(xi)
        if kind == "F2":
            a = x * x / (xi * xi * rho * rho * rho)
            if mode == 2:
                terms.append((a * (one + mu * x * xi * 6 / rho * (one - xi) * (one - xi)), raw("F2", xi)))
            else:
                terms.append((a, raw("F2", xi)))
                b = mu * 6 * x * x * x / A.rat_pow(rho, 4)
                terms += [(b * at, o_) for at, o_ in integral(K_h2, "F2", "h2")]
                if mode == 3:
                    c = mu * mu * 12 * A.rat_pow(x, 4) / A.rat_pow(rho, 5)
                    terms += [(c * at, o_) for at, o_ in integral(K_g2, "F2", "g2")]
        elif kind == "FL":
            a = x * x / (xi * xi * rho)
            terms.append((a, raw("FL", xi)))
            if mode == 2:
                t = mu * x * xi / rho
                terms.append((a * (t * 4 * (one - xi) + t * t * 8 * (-lnxi - one + xi)), raw("F2", xi)))
            else:
                b = mu * 4 * x * x * x / (rho * rho)
                terms += [(b * at, o_) for at, o_ in integral(K_h2, "F2", "h2")]
                if mode == 3:
                    c = mu * mu * 8 * A.rat_pow(x, 4) / A.rat_pow(rho, 3)
                    terms += [(c * at, o_) for at, o_ in integral(K_g2, "F2", "g2")]
        elif kind == "F3":
            a = x * x / (xi * xi * rho * rho)
            if mode == 2:
                terms.append((a * (one - mu * x * xi / rho * (one - xi) * lnxi), raw("F3", xi)))
            else:
                terms.append((a, raw("F3", xi)))
                b = mu * 2 * x * x * x / A.rat_pow(rho, 3)
                terms += [(b * at, o_) for at, o_ in integral(K_h2, "F3", "h3 = int du [xF3](u)/u^2")]
        elif kind == "g1":
            a = x * x / (xi * xi * rho * rho * rho)
            pre = x * (rho * rho - one) / A.rat_pow(rho, 4)
            c1 = pre * (x + xi) / xi
            c2 = -pre * (A.Rat.const(3) - rho * rho) / (rho * 2)
            if mode == 2:
                terms.append((a + c1 * (one - xi) / xi + c2 * (one / xi - one + lnxi), raw("g1", xi)))
            else:
                terms.append((a, raw("g1", xi)))
                terms += [(c1 * at, o_) for at, o_ in integral(K_h2, "g1", "K1 = int du G(u)/u^2")]
                if mode == 3:
                    terms += [(c2 * at, o_) for at, o_ in integral(K_k2, "g1", "K2 = int du ln(u/xi) G(u)/u^2")]
        else:
            return ("fold", "undecided", f"no oracle for kind {kind}", "", "")
    except O.FoldFailure as f:
        return ("fold", f.outcome.status, f"raw operator: {f.outcome.etype} {f.outcome.msg}"[:160], f.outcome.site, f.outcome.construct)
    except LookupError as e:
        return ("bad", str(e))
    bad = []
    ncmp = 0
    # basis functions may only be skipped according to the lower end of the integrals, the Nachtmann point
    interp = R.manager(op.runner, "interpolator")
    for j, arg in interp.attrs.get("_below_calls", []):
        if not (isinstance(arg, A.Rat) and A.equal(arg, xi, tol=Fraction(0))):
            bad.append(("support", 0, j, f"basis function {j} is skipped according to is_below_x({A.canon(arg)[:60]}) instead of the Nachtmann point xi, "
                        "the lower end of the TMC integrals"))
            break
    # the result is reported at the requested kinematics, not the shifted ones
    if not (isinstance(op.res_x, A.Rat) and A.equal(op.res_x, x, tol=Fraction(0))):
        bad.append(("kinematics", 0, 0, f"result carries x = {A.canon(op.res_x)[:80]} instead of the requested x"))
    if not (isinstance(op.res_Q2, A.Rat) and A.equal(op.res_Q2, v["Q2"], tol=Fraction(0))):
        bad.append(("kinematics", 0, 0, f"result carries Q2 = {A.canon(op.res_Q2)[:80]} instead of the requested Q2"))
    keys = set(op.keys())
    for _, o_ in terms:
        keys |= o_.keys()
    for key in sorted(keys):
        for p in op.pids:
            for j in range(n):
                ncmp += 1
                exp = A.Rat.const(0)
                for c, o_ in terms:
                    e = o_.entry(key, p, j)
                    if isinstance(e, A.Rat) or e != 0:
                        exp = exp + c * A.to_rat(e)
                got = op.entry(key, p, j)
                if not O.same(got, exp):
                    bad.append((key, p, j, O.diff_text(got, exp)))
    return ("cmp", ncmp, bad[:2], len(bad))


def jobs(tier):
    out = []
    flavors = ["total", "charm"] if tier == "quick" else ["total", "light", "charm", "bottom"]
    schemes = [("ZM-VFNS", 4, 4), ("FFNS", 3, None)] if tier == "quick" else [("ZM-VFNS", 4, 4), ("ZM-VFNS", 4, 5), ("FFNS", 3, None), ("FFN0", 3, None), ("FONLL-FFNS", 4, None)]
    for kind, fl, (proc, projectile), (fns, nfff, nf), mode, pto in itertools.product(
        ["F2", "FL", "F3", "g1"], flavors, [("NC", "electron"), ("CC", "neutrino")], schemes, [1, 2, 3], [1] if tier == "quick" else [0, 2]
    ):
        if kind == "g1" and proc == "CC":
            continue
        if tier == "quick" and fl == "charm" and (proc == "CC" or fns != "FFNS"):
            continue
        out.append(dict(kind=kind, fl=fl, process=proc, projectile=projectile, fns=fns, nfff=nfff, nf=nf, pto=pto, tmc=mode,
                        ren_sv=False, fact_sv=False))
    return out


def _shared_job(kw):
    """The corrected operator of an observable must not depend on another observable having been requested with the same kinematics objects."""
    from .. import model

    proj = model.project()
    kw = dict(kw)
    obs, before = kw.pop("obs"), kw.pop("before")
    try:
        alone = O.fold_op(proj, R.Cell(obs=obs, **kw))
        shared = O.fold_op(proj, R.Cell(obs=obs, shared_before=before, **kw))
    except O.FoldFailure as f:
        return ("fold", f.outcome.status, f"{f.outcome.etype} {f.outcome.msg}"[:160])
    bad = []
    n = 0
    for key in sorted(alone.keys() | shared.keys()):
        for p in alone.pids:
            for j in range(R.GRID_N):
                n += 1
                if not O.same(alone.entry(key, p, j), shared.entry(key, p, j)):
                    bad.append((key, p, j, O.diff_text(shared.entry(key, p, j), alone.entry(key, p, j))))
    return ("cmp", n, bad[:2], len(bad))


def check_shared(rep, proj, tier):
    jobs_ = []
    for (obs, before), mode, (fns, nfff, nf) in itertools.product(
        [("FL_total", ("F2_total",)), ("F2_total", ("F3_total", "FL_total")), ("F3_total", ("F2_total",)), ("g1_total", ("F2_total",))], [1, 2, 3],
        [("ZM-VFNS", 4, 4)] if tier == "quick" else [("ZM-VFNS", 4, 4), ("FFNS", 3, None)]
    ):
        jobs_.append(dict(obs=obs, before=before, process="NC", projectile="electron", fns=fns, nfff=nfff, nf=nf, pto=1, tmc=mode, ren_sv=False, fact_sv=False))
    outs = sweep.run_cells(_shared_job, jobs_)
    n_cmp = 0
    for kw, o in zip(jobs_, outs):
        label = f"{kw['obs']} after {'+'.join(kw['before'])} (one kinematics list)|{kw['fns']}|TMC={kw['tmc']}"
        if o[0] == "fold":
            if o[1] == "rejected":
                rep.ok("C10.shared", "", label, f"configuration explicitly rejected ({o[2][:50]})")
            else:
                rep.undecided("C10.shared", "", label, f"not foldable ({o[1]}): {o[2]}")
            continue
        _, n, bad, nbad = o
        n_cmp += n
        if nbad:
            key, p, j, txt = bad[0]
            rep.bad("C10.shared", "src/yadism/esf/tmc.py", label,
                    f"{nbad} of {n} entries differ from the operator of the observable requested alone (the corrected point moves when the kinematics "
                    f"objects are shared), e.g. order {key} pid {p} node {j}: {txt[:300]}", key=label)
        else:
            rep.ok("C10.shared", "", label, f"{n} entries identical to the observable requested alone")
    rep.floor("shared-kinematics entries compared", n_cmp, 500)


def _massless_job(kw):
    """A target of mass exactly 0: xi = x, rho = 1, mu = 0 - the corrected operator is the uncorrected one."""
    from .. import model

    proj = model.project()
    kw = dict(kw)
    mode = kw.pop("tmc")
    try:
        plain = O.fold_op(proj, R.Cell(tmc=0, **kw))
        corrected = O.fold_op(proj, R.Cell(tmc=mode, theory_overrides={"MP": 0}, **kw))
    except O.FoldFailure as f:
        return ("fold", f.outcome.status, f"{f.outcome.etype} {f.outcome.msg}"[:160])
    bad = []
    n = 0
    for key in sorted(plain.keys() | corrected.keys()):
        for p in plain.pids:
            for j in range(R.GRID_N):
                n += 1
                if not O.same(plain.entry(key, p, j), corrected.entry(key, p, j)):
                    bad.append((key, p, j, O.diff_text(corrected.entry(key, p, j), plain.entry(key, p, j))))
    return ("cmp", n, bad[:2], len(bad))


def check_massless(rep, proj, tier):
    jobs_ = [dict(obs=obs, process="NC", projectile="electron", fns="ZM-VFNS", nfff=4, nf=4, pto=1, tmc=mode, ren_sv=False, fact_sv=False)
             for obs, mode in itertools.product(["F2_total", "FL_total", "F3_total"], [1, 2, 3])]
    outs = sweep.run_cells(_massless_job, jobs_)
    n_cmp = 0
    for kw, o in zip(jobs_, outs):
        label = f"{kw['obs']}|{kw['fns']}|TMC={kw['tmc']}|MP=0"
        if o[0] == "fold":
            if o[1] == "rejected":
                rep.ok("C10.massless", "", label, f"configuration explicitly rejected ({o[2][:50]})")
            else:
                rep.undecided("C10.massless", "", label, f"not foldable ({o[1]}): {o[2]}")
            continue
        _, n, bad, nbad = o
        n_cmp += n
        if nbad:
            key, p, j, txt = bad[0]
            rep.bad("C10.massless", "src/yadism/esf/tmc.py", label,
                    f"{nbad} of {n} entries of the operator corrected for a target of mass 0 differ from the uncorrected operator (the correction must vanish with "
                    f"the mass: the card's MP = 0 is not what reaches the correction), e.g. order {key} pid {p} node {j}: {txt[:300]}", key=label)
        else:
            rep.ok("C10.massless", "", label, f"{n} entries identical to the uncorrected operator")
    rep.floor("massless-target entries compared", n_cmp, 300)


def _domain_job(kw):
    """Concrete kinematics: x = 1/2, Q2 = 10, M^2 = 30 put the Nachtmann point at exactly 1/3.  On a grid starting at 2/5 the requested x lies
    inside the grid and the shifted one below it: the request must end in an explicit rejection, in every correction mode (each mode reaches
    the uncorrected structure functions through its own code path).  On a grid starting at 1/4 the same request is served."""
    from .. import model
    from . import c14
    import ast

    proj = model.project()
    base = dict(process=kw["process"], fns="ZM-VFNS", nfff=4, pto=1, tmc=kw["tmc"], ren_sv=False, fact_sv=False, projectile=kw["projectile"])
    try:
        c14.fold_history(proj, base, [(kw["obs"], [1])], xgrid=[kw["xmin"], Fraction(1)])
    except A.Undecided as e:
        return ("undecided", str(e)[:200])
    except S.Raised as e:
        explicit = isinstance(e.node, ast.Raise) and S.raised_is(e, "ValueError")
        site, construct, stmt = sweep.locate(proj, e.node)
        return ("rejected" if explicit else "internal", f"{e.etype}: {str(e.msg)[:100]} at {site} ({construct})")
    return ("served", "")


def _q2_history_job(kw):
    """One observable with target-mass corrections at two points of the SAME x and different Q2, evaluated in the runner's order, against the
    second point evaluated alone: the integrals of the second point are taken over structure functions at ITS Q2 (whatever helper
    observables cached while the first point was served must not be reused)."""
    from .. import model
    from . import c14

    proj = model.project()
    base = dict(process="NC", fns=kw["fns"], nfff=3, pto=1, tmc=kw["tmc"], ren_sv=False, fact_sv=False, projectile="electron")
    try:
        # (1/4, 10) then (1/4, 30): with matching scales 1, 25, 10^4 the two points differ in the number of active flavours, so their
        # uncorrected structure functions differ visibly (massless kernels alone do not depend on Q2)
        p1, p2 = (Fraction(1, 4), 10), (Fraction(1, 4), 30)
        _, both = c14.fold_history(proj, base, [(kw["obs"], [p1, p2])])
        _, alone = c14.fold_history(proj, base, [(kw["obs"], [p2])])
    except (A.Undecided, S.Raised) as e:
        return ("fold", f"{type(e).__name__}: {e}"[:200])
    a = c14.point_snaps(both[0], kw["obs"], [1, 2]).get(2)
    b = c14.point_snaps(alone[0], kw["obs"], [2]).get(2)
    return ("cmp", a == b and a is not None)


def check_q2_history(rep, proj, tier):
    js = [dict(obs=o, tmc=t, fns=f) for o, t, f in itertools.product(["FL_total", "F2_total", "F3_total", "FL_light"], [1, 3] if tier == "quick" else [1, 2, 3],
                                                                   ["ZM-VFNS"] if tier == "quick" else ["ZM-VFNS", "FFNS"])]
    outs = sweep.run_cells(_q2_history_job, js)
    n = 0
    for kw, o in zip(js, outs):
        label = f"{kw['obs']}|{kw['fns']}|TMC={kw['tmc']}|x = 1/4 at Q2 = 10 (nf 4), then at Q2 = 30 (nf 5)"
        if o[0] == "fold":
            rep.undecided("C10.history", "src/yadism/esf/tmc.py", label, o[1])
            continue
        n += 1
        rep.check(o[1], "C10.history", "src/yadism/esf/tmc.py", label, "the corrected operator at Q2 = 30 is the one obtained when the point is requested alone",
                  "the corrected operator at Q2 = 30 differs from the one obtained when the point is requested alone: its integrals reuse structure "
                  "functions of the point served before (another Q2)", key=label)
    rep.floor("TMC two-Q2 histories decided", n, 6)


def check_domain(rep, proj, tier):
    kinds = ["F2_total", "FL_total", "F3_total", "g1_total"] if tier == "quick" else ["F2_total", "FL_total", "F3_total", "g1_total", "F2_charm", "FL_light", "F3_light"]
    js = [dict(obs=o, tmc=t, xmin=xm, process=pr, projectile=pj) for o, t, xm, (pr, pj) in itertools.product(
        kinds, [1, 2, 3], [Fraction(2, 5), Fraction(1, 4)], [("NC", "electron")] if tier == "quick" else [("NC", "electron"), ("CC", "neutrino")])
          if not (pr == "CC" and o.startswith("g1"))]
    outs = sweep.run_cells(_domain_job, js)
    n = 0
    for kw, (status, msg) in zip(js, outs):
        below = kw["xmin"] > Fraction(1, 3)
        label = f"{kw['obs']}|{kw['process']}|TMC={kw['tmc']}|x = 1/2, xi = 1/3, grid from {kw['xmin']}"
        if status == "undecided":
            rep.undecided("C10.domain", "src/yadism/esf/tmc.py", label, msg)
            continue
        n += 1
        if below:
            rep.check(status == "rejected", "C10.domain", "src/yadism/esf/tmc.py", label, "shifted point below the grid: explicit rejection",
                      ("the request is served although the uncorrected structure functions are needed at xi = 1/3, below the first grid node 2/5"
                       if status == "served" else f"ends in an internal error instead of a rejection: {msg}"), key=label)
        else:
            rep.check(status == "served", "C10.domain", "src/yadism/esf/tmc.py", label, "shifted point inside the grid: served", f"valid request ends in {msg}", key=label)
    rep.floor("TMC domain requests decided", n, 20)


def check_vars_and_limits(rep, proj):
    """xi, rho, mu as folded from the TMC constructor == published definitions; integral coefficients carry mu;
    the F(xi) coefficient -> 1 and xi -> x as mu -> 0."""
    v = tmc_vars()
    cell = R.Cell(obs="F2_total", tmc=3, ren_sv=False, fact_sv=False, nf=4)
    ev, runner, th, ob = R.fold_runner(proj, cell)
    sfobj, elems = R.esf_of(ev, runner, cell.obs)
    e = elems[0]
    cls = proj.cls(TMCMOD, "EvaluatedStructureFunctionTMC")
    for name in ("mu", "rho", "xi"):
        got = e.attrs.get(name)
        ok = got is not None and A.equal(A.to_rat(S.num_norm(got)), v[name], tol=Fraction(0))
        rep.check(ok, "C10.vars", cls.site, f"{cls.fq}.{name}", "== published definition (mu = M^2/Q^2, rho = sqrt(1+4x^2 mu), xi = 2x/(1+rho))",
                  f"= {A.canon(S.num_norm(got))[:120] if got is not None else None}", key=name)
    sk = e.attrs.get("_shifted_kinematics")
    ok = isinstance(sk, dict) and set(sk) == {"x", "Q2"} and A.equal(A.to_rat(S.num_norm(sk["x"])), v["xi"], tol=Fraction(0)) and \
        A.equal(A.to_rat(S.num_norm(sk["Q2"])), v["Q2"], tol=Fraction(0))
    rep.check(ok, "C10.vars", cls.site, f"{cls.fq}._shifted_kinematics", "== {x: xi, Q2: Q2}", f"= {sk}")
    # mu -> 0 limits on the published variables themselves: rho -> 1, xi -> x (syntactic substitution MP -> 0)
    zero = {"MP": A.Rat.const(0)}
    rho0 = A.subs(v["rho"], zero)
    xi0 = A.subs(v["xi"], zero)
    rep.check(S.num_norm(rho0) == 1 and A.equal(xi0, v["x"], tol=Fraction(0)), "C10.limit", cls.site, f"{cls.fq}[M->0]", "rho -> 1, xi -> x", f"rho -> {rho0}, xi -> {xi0}")
    # per class: the prefactor attributes set in __init__
    for cname in ("ESFTMC_F2", "ESFTMC_FL", "ESFTMC_F3", "ESFTMC_g1"):
        c = proj.cls(TMCMOD, cname)
        kind = cname.split("_")[1]
        cell = R.Cell(obs=f"{kind}_total", tmc=3, ren_sv=False, fact_sv=False, nf=4)
        try:
            ev, runner, th, ob = R.fold_runner(proj, cell)
            _, elems = R.esf_of(ev, runner, cell.obs)
            obj = elems[0]
        except (A.Undecided, S.Raised) as e_:
            rep.undecided("C10.limit", c.site, c.fq, f"constructor not foldable: {e_}")
            continue
        for attr, val in sorted(obj.attrs.items()):
            if not attr.startswith("_factor"):
                continue
            val = A.to_rat(S.num_norm(val))
            lim = S.num_norm(A.subs(val, zero))
            if attr == "_factor_shifted":
                # coefficient of F(xi): -> 1 (F2, FL, F3) ; g1 stores it divided by 2 xi
                ok = (lim == 1) or (kind == "g1" and A.equal(A.to_rat(lim) * v["x"] * 2, A.Rat.const(1), tol=Fraction(0)))
                rep.check(ok, "C10.limit", c.site, f"{c.fq}.{attr}", "-> 1 as M -> 0", f"-> {lim} as M -> 0", key=attr)
            elif attr in ("_factor_h2", "_factor_h3", "_factor_k1_k2"):
                rep.check(lim == 0, "C10.limit", c.site, f"{c.fq}.{attr}", "integral coefficient vanishes with the target mass", f"-> {lim} as M -> 0", key=attr)


def run(rep, proj, tier):
    rep.explanation = (
        "Decides end to end on partially evaluated operators: for F2, FL, xF3, 2xg1 x TMC modes 1/2/3 x heavyness x NC/CC x schemes, the operator "
        "folded with TMC on equals for every order key and entry the published combination (Schienbein et al. 2008; Accardi-Melnitchouk D.26 in "
        "yadism's 2xg1 normalisation; APFEL = exact without the nested integral; approximate = published closed forms) of the operators folded "
        "without TMC at the Nachtmann point and at the grid nodes, with the integrals being the opaque quadratures of the kernels whose folded "
        "closed form is z/xi (h2, h3, K1), 1-z (g2), z ln(1/z)/xi (K2) convolved with the right structure function. Also xi, rho, mu and the shifted "
        "kinematics equal their definitions, integral coefficients vanish and the F(xi) coefficient tends to 1 as M -> 0. "
        "The corrected operator of an observable is the same whether or not other observables were requested before it with the very same kinematics objects. "
        "A request whose Nachtmann point falls below the first grid node ends in an explicit rejection in every mode (concrete kinematics with xi = 1/3 exactly). "
        "NOT decided: quadrature accuracy."
    )
    rep.rule_text = "jobs from literal domains; entries = order key x parton row x basis node; distinct by job label; non-trivial = TMC and raw operators fold."
    rep.trusted_base = ["CPython ast", "yadsa partial evaluator", "the formulas in this module's docstring (Schienbein et al. 2008 eqs. for F2/FL/F3 exact and "
                        "approximate; Accardi-Melnitchouk 2008 (D.26) for g1), transcribed from the literature, not from the code"]
    rep.assumptions = ["yadism's F3 observable is xF3 and its g1 observable is 2xg1 (LO operators, decided in C02.lo)",
                       "APFEL mode = exact formula with the nested integrals (g2, K2) dropped (docs/source/theory/misc.rst)"]
    from . import state

    state.check(rep, proj, "C10.state", module_filter=lambda m: m.name in ('yadism.esf.tmc', 'yadism.sf', 'yadism.esf.conv'), floor=1)
    check_vars_and_limits(rep, proj)
    check_shared(rep, proj, tier)
    check_massless(rep, proj, tier)
    check_domain(rep, proj, tier)
    check_q2_history(rep, proj, tier)
    js = jobs(tier)
    outs = sweep.run_cells(_job, js)
    n_entries = 0
    groups = {}
    for kw, o in zip(js, outs):
        label = f"{kw['kind']}_{kw['fl']}|{MODES[kw['tmc']]}|{kw['process']}|{kw['fns']}|NfFF={kw['nfff']}|PTO={kw['pto']}"
        if o[0] == "fold":
            _, status, msg, site, construct = o
            if status == "rejected":
                rep.bad("C10.form", site, f"{kw['kind']}|{MODES[kw['tmc']]}", f"documented TMC request is rejected ({msg[:80]}), e.g. {label}", key="rejected")
            else:
                rep.undecided("C10.form", site, label, f"not foldable ({status}): {msg}")
            continue
        if o[0] == "bad":
            rep.bad("C10.form", "src/yadism/esf/tmc.py", f"{kw['kind']}|{MODES[kw['tmc']]}", o[1], key=o[1][:50])
            continue
        _, n, bad, nbad = o
        n_entries += n
        if nbad == 0:
            rep.ok("C10.form", "", label, f"{n} entries equal the published {MODES[kw['tmc']]} formula")
        else:
            groups.setdefault((kw["kind"], MODES[kw["tmc"]]), []).append((label, n, bad, nbad))
    for (kind, mode), lst in sorted(groups.items()):
        label, n, bad, nbad = lst[0]
        key, p, j, txt = bad[0]
        cname = f"yadism.esf.tmc::ESFTMC_{kind}._get_result_{mode}"
        rep.bad("C10.form", "src/yadism/esf/tmc.py", cname,
                f"{len(lst)} cell(s) differ from the published {mode} formula for {kind}; e.g. {label}: {nbad} of {n} entries, order {key} pid {p} node {j}: {txt[:260]}",
                key=f"{kind}|{mode}", data=dict(cells=[l for l, *_ in lst[:20]]))
    rep.info["entries_compared"] = n_entries
    rep.floor("TMC jobs", len(js), 40)
    rep.floor("TMC entries compared", n_entries, 1500)
