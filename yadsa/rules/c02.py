"""C02 - LO parton model and electroweak / CKM coupling weights.

Decided (identities in Q2, sin^2 theta_W, MZ, MW, polarisation, propagator
correction and the nine CKM elements, all symbolic):
  (tables)  charge / weak isospin tables folded from CouplingConstants.__init__ == PDG
  (weight)  get_weight(pid, Q2, type) == PDG expression, for EM/NC x 6 quarks x VV/AA/VA/AV x e-/e+
            (neutrino beams: same expression up to the helicity convention, and nu/nubar opposite)
  (ww)      CC weight == 2 x sum of the documented CKM elements; propagator_factor('WW') == PDG eta_W
  (lo)      the partially evaluated LO operator of every kind in ZM-VFNS nf=3..6 and of the heavy CC
            channels is the parton model: row q = weight x (x conv(delta)), row qbar = +/- the same for
            parity conserving/violating kinds, all other rows zero; CC rows select quark vs antiquark
            by projectile and carry the F3 sign.
Not decided: numerical CKM input; the delta-function quadrature itself (C01/C03).
"""

from __future__ import annotations

import itertools
from fractions import Fraction

from .. import algebra as A
from .. import opmodel as O
from .. import runmodel as R
from .. import sweep
from .. import symeval as S
from ..spec import ew

CC_MOD = "yadism.coefficient_functions.coupling_constants"
PROJ = {"electron": 11, "positron": -11, "neutrino": 12, "antineutrino": -12}


def make_cc(ev, proj, process, projectile, pos=None):
    """A CouplingConstants instance folded from CouplingConstants.from_dict on a symbolic card."""
    cell = R.Cell(process=process, projectile=projectile, pos_charge=pos)
    th = R.theory_card(cell)
    ob = R.observables_card(cell)
    cls = proj.cls(CC_MOD, "CouplingConstants")
    return ev.call(ev.getattr(S.ClassVal(ev, cls), "from_dict", None), [th, ob], {})


def check_ckm_card(rep, proj):
    """The card may spell the CKM matrix as a string (nine numbers, row by row: Vud Vus Vub Vcd ...) or as a list: either way the object the
    couplings read holds the SQUARED element of row u/c/t and column d/s/b where the lookups by flavour name and by pid expect it."""
    cls = proj.cls(CC_MOD, "CouplingConstants")
    rows, cols = "uct", "dsb"
    for spelling, value in (("string", "1 2 3 4 5 6 7 8 9"), ("list", [1, 2, 3, 4, 5, 6, 7, 8, 9]), ("string of decimals", "0.5 1.5 2.5 3.5 4.5 5.5 6.5 7.5 8.5")):
        construct = f"{cls.fq}.from_dict[CKM given as {spelling}]"
        ev = S.Evaluator(proj, lenient_ext=True)
        cell = R.Cell(process="CC", projectile="neutrino")
        th, ob = R.theory_card(cell), R.observables_card(cell)
        th["CKM"] = value
        nums = [Fraction(x) for x in (value.split(" ") if isinstance(value, str) else value)]
        try:
            cc = ev.call(ev.getattr(S.ClassVal(ev, cls), "from_dict", None), [th, ob], {})
            ckm = cc.attrs["theory_config"]["CKM"]
            problems = []
            for r in range(3):
                for c in range(3):
                    want = nums[3 * r + c] ** 2
                    by_name = S.num_norm(ev.call(ev.getattr(ckm, "__getitem__", None), [(rows[r], cols[c])], {}))
                    by_pid = S.num_norm(ev.call(ev.getattr(ckm, "__getitem__", None), [(2 * r + 2, 2 * c + 1)], {}))
                    if isinstance(by_name, A.Rat) or Fraction(by_name) != want or isinstance(by_pid, A.Rat) or Fraction(by_pid) != want:
                        problems.append(f"|V{rows[r]}{cols[c]}|^2: by name {by_name}, by pid {by_pid}, card {want}")
            rep.check(not problems, "C02.ckm", cls.site, construct, "squared elements, row u/c/t x column d/s/b, found by name and by pid", "; ".join(problems[:3]), key=spelling)
        except A.Undecided as e:
            rep.undecided("C02.ckm", cls.site, construct, str(e)[:200])
        except S.Raised as e:
            rep.bad("C02.ckm", cls.site, construct, f"raises {e.etype}: {e.msg}", key=spelling)


def check_tables(rep, proj):
    ev = S.Evaluator(proj, lenient_ext=True)
    cc = make_cc(ev, proj, "NC", "electron")
    cls = proj.cls(CC_MOD, "CouplingConstants")
    for name, oracle in (("electric_charge", ew.CHARGE), ("weak_isospin_3", ew.T3)):
        got = cc.attrs.get(name)
        if not isinstance(got, dict):
            rep.bad("C02.tables", cls.site, f"{cls.fq}.{name}", "table not folded to a dict")
            continue
        for pid, val in sorted(oracle.items()):
            g = S.num_norm(got.get(pid))
            rep.check(g is not None and Fraction(g) == val, "C02.tables", cls.site, f"{cls.fq}.{name}[{pid}]",
                      f"= {val}", f"= {g}, PDG {val}", key=str(pid))
        extra = set(got) - set(oracle)
        if extra:
            rep.undecided("C02.tables", cls.site, f"{cls.fq}.{name}", f"entries for pids {sorted(extra)} not in the oracle table")


def check_weights(rep, proj):
    s = ew.syms()
    cls = proj.cls(CC_MOD, "CouplingConstants")
    gw = cls.find_method("get_weight")
    n = 0
    for process, (pname, ppid) in itertools.product(["EM", "NC"], PROJ.items()):
        ev = S.Evaluator(proj, lenient_ext=True)
        cc = make_cc(ev, proj, process, pname)
        # sign convention of the effective helicity: PDG for charged leptons (e-: -P, e+: +P)
        for q, ctype in itertools.product(range(1, 7), ["VV", "AA", "VA", "AV"]):
            construct = f"{gw.fq}[{process},{pname},q={q},{ctype}]"
            try:
                got = ev.call(S.FuncVal(ev, gw, bound=cc), [q, s["Q2"], ctype], {})
            except A.Undecided as e:
                rep.undecided("C02.weight", gw.site, construct, f"not foldable: {e}")
                continue
            except S.Raised as e:
                n += 1
                rep.bad("C02.weight", gw.site, construct, f"raises {e} for a documented configuration", key=f"{process}|{pname}|{ctype}")
                continue
            n += 1
            if abs(ppid) == 11:
                sign = -1 if ppid > 0 else 1
                exp = ew.nc_weight_by_type(q, ppid, ctype, process, s, sign)
                ok = A.equal(A.to_rat(got), exp, tol=Fraction(0))
                rep.check(ok, "C02.weight", gw.site, construct, "== PDG expression for all Q2, s2w, MZ, P, delta",
                          "differs from the PDG expression: " + (A.fmt_diffs(A.difference(A.to_rat(got), exp, tol=Fraction(0))) if not ok else ""),
                          key=f"{process}|{pname}|{ctype}")
            else:
                # neutrinos: either helicity convention, but nu and nubar opposite (decided pairwise below)
                e1 = ew.nc_weight_by_type(q, ppid, ctype, process, s, 1)
                e2 = ew.nc_weight_by_type(q, ppid, ctype, process, s, -1)
                ok = A.equal(A.to_rat(got), e1, tol=Fraction(0)) or A.equal(A.to_rat(got), e2, tol=Fraction(0))
                rep.check(ok, "C02.weight", gw.site, construct, "== PDG expression (neutral lepton, either helicity convention)",
                          "differs from the PDG expression for a neutral lepton", key=f"{process}|{pname}|{ctype}")
    rep.floor("NC/EM weight forms", n, 150)
    # the helicity flips exactly once per conjugate pair
    for a, b in (("electron", "positron"), ("neutrino", "antineutrino")):
        ev = S.Evaluator(proj, lenient_ext=True)
        ca, cb = make_cc(ev, proj, "NC", a), make_cc(ev, proj, "NC", b)
        allok = True
        for q, ctype in itertools.product((1, 2), ["VV", "VA"]):
            wa = ev.call(S.FuncVal(ev, gw, bound=ca), [q, s["Q2"], ctype], {})
            wb = ev.call(S.FuncVal(ev, gw, bound=cb), [q, s["Q2"], ctype], {})
            flipped = A.subs(A.to_rat(wb), {"pol": -A.to_rat(s["pol"])})
            if not A.equal(A.to_rat(wa), flipped, tol=Fraction(0)) or A.equal(A.to_rat(wa), A.to_rat(wb), tol=Fraction(0)):
                allok = False
        rep.check(allok, "C02.weight", gw.site, f"{gw.fq}[{a} vs {b}]", f"weights of {b} == weights of {a} with P -> -P (and they differ)",
                  f"{a}/{b} are not related by P -> -P", key=f"{a}|{b}")


def check_ww(rep, proj):
    s = ew.syms()
    cls = proj.cls(CC_MOD, "CouplingConstants")
    gw = cls.find_method("get_weight")
    pf = cls.find_method("propagator_factor")
    V2 = {(u, d): A.sym(f"V{u}{d}", True) * A.sym(f"V{u}{d}", True) for u in ew.UP for d in ew.DOWN}
    n = 0
    for pname in ("neutrino", "electron"):
        ev = S.Evaluator(proj, lenient_ext=True)
        cc = make_cc(ev, proj, "CC", pname)
        for mask, q in itertools.product(["dus", "dusc", "duscb", "duscbt", "c", "b", "t", "d", "s"], range(1, 7)):
            construct = f"{gw.fq}[CC,{pname},q={q},mask={mask}]"
            try:
                got = ev.call(S.FuncVal(ev, gw, bound=cc), [q, s["Q2"], None], {"cc_mask": mask})
            except A.Undecided as e:
                rep.undecided("C02.ckm", gw.site, construct, f"not foldable: {e}")
                continue
            except S.Raised as e:
                n += 1
                rep.bad("C02.ckm", gw.site, construct, f"raises {e} for a documented quark/mask", key=f"{mask}|{q}")
                continue
            exp = ew.ckm_sum(q, mask, V2) * 2
            n += 1
            ok = A.equal(A.to_rat(got), exp, tol=Fraction(0))
            rep.check(ok, "C02.ckm", gw.site, construct, "== 2 x sum of the documented |V|^2",
                      f"= {A.canon(S.num_norm(got))[:80]}, documented selection gives {exp.canon()[:80]}", key=f"{mask}|{q}")
    rep.floor("CKM weight forms", n, 100)
    ev = S.Evaluator(proj, lenient_ext=True)
    cc = make_cc(ev, proj, "CC", "neutrino")
    got = ev.call(S.FuncVal(ev, pf, bound=cc), ["WW", s["Q2"]], {})
    ok = A.equal(A.to_rat(got), ew.eta_W(s), tol=Fraction(0))
    rep.check(ok, "C02.weight", pf.site, f"{pf.fq}[WW]", "== [eta_gZ/2 (1+Q2/MZ2)/(1+Q2/MW2)]^2", "differs from the PDG eta_W")
    for mode, exp in (("phph", A.Rat.const(1)), ("phZ", ew.eta_gZ(s)), ("ZZ", ew.eta_gZ(s) * ew.eta_gZ(s))):
        got = ev.call(S.FuncVal(ev, pf, bound=cc), [mode, s["Q2"]], {})
        rep.check(A.equal(A.to_rat(got), exp, tol=Fraction(0)), "C02.weight", pf.site, f"{pf.fq}[{mode}]", "== PDG propagator ratio",
                  f"differs from the PDG propagator ratio: {A.canon(S.num_norm(got))[:100]}")


# ---------------------------------------------------------------------------
# LO operators
# ---------------------------------------------------------------------------
PV = {"F3", "gL", "g4"}
LO_VANISHES = {"FL", "gL"}


def _lo_job(job):
    from .. import model

    proj = model.project()
    kind, process, pname, nf, fl = job
    tagged = {"charm": 4, "bottom": 5, "top": 6}.get(fl)
    s = ew.syms()
    cell = R.Cell(obs=f"{kind}_{fl}", process=process, fns="ZM-VFNS", nfff=4, nf=nf, pto=0, projectile=pname, ren_sv=False, fact_sv=False)
    try:
        op = O.fold_op(proj, cell, weights="full")
    except O.FoldFailure as f:
        return ("fold", f.outcome.status, f"{f.outcome.etype} {f.outcome.msg}"[:140])
    ppid = PROJ[pname]
    key = (0, 0, 0, 0)
    bad = []
    n = 0
    ncol = 2
    V2 = {(u, d): A.sym(f"V{u}{d}", True) * A.sym(f"V{u}{d}", True) for u in ew.UP for d in ew.DOWN}
    xB = A.sym("xB", True)
    mask = "dusbct"  # placeholder, replaced below
    # kernels are tagged with the class that produced them; at LO all of them must be the delta distribution with
    # coefficient 1, whichever class it came from: identify them
    import re as _re

    DELTA = A.sym("DELTA_CONV")
    strip = _re.compile(r"@[\w.]+'")
    for j in range(ncol):
        base = None
        ident = {}
        for pid in op.pids:
            e = op.entry(key, pid, j)
            if isinstance(e, A.Rat):
                for a in e.atoms():
                    if a.startswith("conv("):
                        core = strip.sub("'", a)
                        if "loc_from_delta[1]" not in core or not core.startswith("conv('-|-|"):
                            bad.append((pid, j, f"LO entry is not a pure delta-function kernel with coefficient 1: {a[:90]}"))
                        ident[a] = DELTA
        if ident:
            base = DELTA * xB
            for pid in op.pids:
                e = op.entry(key, pid, j)
                if isinstance(e, A.Rat):
                    op.orders[key][0][op.pids.index(pid)][j] = A.subs(e, ident)
        for pid in op.pids:
            n += 1
            got = op.entry(key, pid, j)
            q = abs(pid)
            if kind in LO_VANISHES or q == 0 or q > nf or pid in (21, 22) or (tagged is not None and q != tagged):
                exp = A.Rat.const(0)
            elif process in ("EM", "NC"):
                sign = (-1 if ppid > 0 else 1) if abs(ppid) == 11 else None
                par = "pv" if kind in PV else "pc"
                if sign is None:
                    # neutral lepton: accept either helicity convention
                    e1 = ew.nc_weight(q, ppid, par, process, s, 1)
                    e2 = ew.nc_weight(q, ppid, par, process, s, -1)
                    cand = [e1, e2]
                else:
                    cand = [ew.nc_weight(q, ppid, par, process, s, sign)]
                if par == "pv" and pid < 0:
                    cand = [-c for c in cand]
                if base is None:
                    exp = None if any(not c.n.is_zero() for c in cand) else A.Rat.const(0)
                    if exp is None:
                        bad.append((pid, j, "operator row vanishes but the parton-model weight does not"))
                        continue
                else:
                    if any(O.same(got, c * base) for c in cand):
                        continue
                    bad.append((pid, j, "row != weight x (x conv(delta)): " + O.diff_text(got, cand[0] * base)))
                    continue
            else:  # CC
                flavs = "dusbct"[:0]
                from ..spec.ew import QUARK

                names = "duscbt"[:nf]
                flavs = names
                # which of quark / antiquark takes part: nu (W+) and e+ hit d-type quarks and u-type antiquarks
                wplus = ppid in (12, -11)
                down_type = q % 2 == 1
                takes_part = (down_type == wplus) if pid > 0 else (down_type != wplus)
                if not takes_part:
                    exp = A.Rat.const(0)
                else:
                    w = ew.ckm_sum(q, _mask_for(names), V2) * 2
                    if kind in PV and pid < 0:
                        w = -w
                    if base is None:
                        bad.append((pid, j, "operator row vanishes but the CKM weight does not"))
                        continue
                    exp = w * base
            if exp is not None and not O.same(got, exp):
                bad.append((pid, j, "row differs from the parton model: " + O.diff_text(got, exp)))
    for t in O.tolerance_findings(proj, op):
        bad.append((0, 0, "the weights reach the operator through a tolerance test: " + t))
    return ("cmp", n, bad[:3], len(bad))


def _mask_for(names):
    # br.quark_names[:nf] = "dus", "dusc", "duscb", "duscbt" (eko's ordering d,u,s,c,b,t)
    return names


def check_lo(rep, proj, tier):
    jobs = []
    for kind, nf in itertools.product(["F2", "FL", "F3", "g1", "gL", "g4"], [3, 4, 5, 6]):
        for process, pname in (("EM", "electron"), ("NC", "electron"), ("NC", "positron"), ("NC", "neutrino"), ("NC", "antineutrino"),
                               ("CC", "neutrino"), ("CC", "antineutrino"), ("CC", "electron"), ("CC", "positron")):
            if process == "CC" and kind in ("g1", "gL", "g4"):
                continue
            if tier == "quick" and nf in (3, 6) and pname in ("positron", "antineutrino") and process == "NC":
                continue
            jobs.append((kind, process, pname, nf, "light"))
            # flavour-tagged observables of a quark that is massless in the scheme: the same parton model restricted to that quark
            if process != "CC" and pname in ("electron", "neutrino") and nf >= 4:
                for fl in ("charm", "bottom", "top"):
                    if tier == "quick" and fl == "top" and kind not in ("F2", "F3"):
                        continue
                    jobs.append((kind, process, pname, nf, fl))
    outs = sweep.run_cells(_lo_job, jobs)
    n_entries = 0
    for job, o in zip(jobs, outs):
        kind, process, pname, nf, fl = job
        label = f"LO {kind}_{fl} {process} {pname} nf={nf}"
        if o[0] == "fold":
            rep.undecided("C02.lo", "", label, f"not foldable ({o[1]}): {o[2]}")
            continue
        _, n, bad, nbad = o
        n_entries += n
        if nbad == 0:
            rep.ok("C02.lo", "", label, f"{n} LO operator entries equal the parton model")
        else:
            pid, j, txt = bad[0]
            rep.bad("C02.lo", "src/yadism/coefficient_functions/light/kernels.py", label,
                    f"{nbad} of {n} LO entries differ from the parton model, e.g. pid {pid} node {j}: {txt[:300]}", key=label)
    rep.info["lo_entries_compared"] = n_entries
    rep.floor("LO operator jobs", len(jobs), 100)
    rep.floor("LO entries compared", n_entries, 2500)


# ---------------------------------------------------------------------------
# assignment of coefficient functions to partons at all orders (massless NC/EM)
# ---------------------------------------------------------------------------
import re

_OWNER = re.compile(r"@light\.(\w+)\.(\w+)'")


def _assign_job(job):
    from .. import model

    proj = model.project()
    kind, process, nf, pto = job
    cell = R.Cell(obs=f"{kind}_light", process=process, fns="ZM-VFNS", nfff=4, nf=nf, pto=pto, ren_sv=False, fact_sv=False)
    try:
        op = O.fold_op(proj, cell)  # opaque weights w(q, type)
    except O.FoldFailure as f:
        return ("fold", f.outcome.status, f"{f.outcome.etype} {f.outcome.msg}"[:140])
    pv = kind in PV
    t1, t2 = ("VA", "AV") if pv else ("VV", "AA")
    xB = A.sym("xB", True)
    W = {q: A.opaque("w", (q, t1)) + A.opaque("w", (q, t2)) for q in range(1, nf + 1)}
    Wfl = {q: A.opaque("wfl11", (q, nf, "VV")) + A.opaque("wfl11", (q, nf, "AA")) for q in range(1, nf + 1)}
    avg = sum((W[q] for q in W), A.Rat.const(0)) / nf
    avgfl = sum((Wfl[q] for q in Wfl), A.Rat.const(0)) / nf
    bad = []
    n = 0
    seen_tags = set()
    for k in range(pto + 1):
        key = (k, 0, 0, 0)
        if key not in op.orders:
            continue
        atoms = set()
        for row in op.orders[key][0]:
            for e in row:
                if isinstance(e, A.Rat):
                    atoms |= {a for a in e.atoms() if a.startswith("conv(")}
        for a in sorted(atoms):
            m = _OWNER.search(a)
            ad = A.ATOMS.get(a)
            if m is None or ad is None or not ad.payload:
                bad.append((k, 0, f"quadrature atom without a light-family producer: {a[:80]}"))
                continue
            cls = m.group(2)
            j = ad.payload[1][2]
            seen_tags.add(cls)
            for p, pid in enumerate(op.pids):
                n += 1
                got = A.coeff_of(A.to_rat(op.orders[key][0][p][j]), a, 1)
                q = abs(pid)
                zero = A.Rat.const(0)
                if "FL11" in cls:
                    if "Gluon" in cls:
                        exp = avgfl * xB if pid == 21 else zero
                    else:
                        exp = Wfl[q] * xB if 1 <= q <= nf and pid not in (21, 22) else zero
                elif "NonSinglet" in cls:
                    exp = (W[q] * xB * (-1 if (pv and pid < 0) else 1)) if 1 <= q <= nf and pid not in (21, 22) else zero
                elif "Singlet" in cls:
                    exp = avg * xB if 1 <= q <= nf and pid not in (21, 22) else zero
                elif "Gluon" in cls:
                    exp = avg * xB if pid == 21 else zero
                elif "Valence" in cls:
                    exp = (avg * xB * (1 if pid > 0 else -1)) if 1 <= q <= nf and pid not in (21, 22) else zero
                else:
                    bad.append((k, pid, f"kernel of class {cls} has no parton-assignment rule"))
                    continue
                if not O.same(got, exp):
                    bad.append((k, pid, f"{cls} kernel enters row {pid} with {A.canon(got)[:70]} instead of {A.canon(exp)[:70]}"))
    return ("cmp", n, bad[:3], len(bad), sorted(seen_tags))


def check_assign(rep, proj, tier):
    jobs = []
    for kind, process, nf in itertools.product(["F2", "FL", "F3", "g1", "gL", "g4"], ["EM", "NC"], [3, 4, 5, 6]):
        for pto in ([2] if tier == "quick" and kind not in ("F2", "FL") else [2, 3]):
            if tier == "quick" and pto == 3 and nf not in (4, 5):
                continue
            jobs.append((kind, process, nf, pto))
    outs = sweep.run_cells(_assign_job, jobs)
    n_entries = 0
    tags = set()
    for job, o in zip(jobs, outs):
        kind, process, nf, pto = job
        label = f"{kind}_light {process} nf={nf} PTO={pto}"
        if o[0] == "fold":
            rep.undecided("C02.assign", "", label, f"not foldable ({o[1]}): {o[2]}")
            continue
        _, n, bad, nbad, seen = o
        n_entries += n
        tags.update(seen)
        if nbad == 0:
            rep.ok("C02.assign", "", label, f"{n} (kernel, parton row) coefficients: non-singlet kernels weighted per quark, singlet/gluon/valence by the flavour average")
        else:
            k, pid, txt = bad[0]
            rep.bad("C02.assign", "src/yadism/coefficient_functions/light/kernels.py", label,
                    f"{nbad} of {n} (kernel, parton) assignments wrong, e.g. order {k}: {txt[:300]}", key=label)
    rep.info["assign_entries_compared"] = n_entries
    rep.info["assign_channel_classes"] = sorted(tags)
    rep.floor("assignment jobs", len(jobs), 40)
    rep.floor("assignment coefficients compared", n_entries, 4000)


# ---------------------------------------------------------------------------
# CKM masks reaching the weights in charged-current runs of every scheme
# ---------------------------------------------------------------------------
def _mask_job(kw):
    from .. import model

    proj = model.project()
    try:
        op = O.fold_op(proj, R.Cell(**kw))
    except O.FoldFailure as f:
        return ("fold", f.outcome.status, f"{f.outcome.etype} {f.outcome.msg}"[:140])
    masks = set()
    for key, (vals, errs) in op.orders.items():
        for row in vals:
            for e in row:
                if isinstance(e, A.Rat):
                    for a in e.atoms():
                        m = re.match(r"w\((-?\d+), (?:None|'[A-Z]+'), '([^']*)'\)$", a)
                        if m:
                            masks.add(m.group(2))
    return ("ok", sorted(masks))


def check_masks(rep, proj, tier):
    """CKM2Matrix.masked reads its argument as a set of single-letter flags (C02.ckm decides what each flag selects); decided here is the
    caller side: in every charged-current run the mask handed to the weights is one of the documented spellings - the active massless
    quarks as a prefix of eko's 'duscbt', or the single letter of a massive quark - and a flavour-tagged observable of a massive quark
    carries the letter of that quark only."""
    jobs = []
    for kind, fl, (fns, nfff), projectile in itertools.product(["F2", "F3", "FL"], ["charm", "bottom", "top", "total", "light"],
                                                               [("FFNS", 3), ("FFNS", 4), ("FFNS", 5), ("FONLL-FFNS", 4), ("ZM-VFNS", 4)], ["neutrino", "antineutrino"]):
        if tier == "quick" and (projectile == "antineutrino" and kind != "F3" or kind == "FL" and fl in ("total", "light")):
            continue
        jobs.append(dict(obs=f"{kind}_{fl}", process="CC", projectile=projectile, fns=fns, nfff=nfff, nf=5 if fns == "ZM-VFNS" else None, pto=1, ren_sv=False, fact_sv=False))
    outs = sweep.run_cells(_mask_job, jobs)
    n = 0
    LETTER = {"charm": "c", "bottom": "b", "top": "t"}
    for kw, o in zip(jobs, outs):
        label = f"{kw['obs']}|CC|{kw['projectile']}|{kw['fns']}|NfFF={kw['nfff']}"
        if o[0] == "fold":
            if o[1] == "rejected":
                rep.ok("C02.mask", "", label, f"configuration explicitly rejected ({o[2][:50]})")
            else:
                rep.undecided("C02.mask", "", label, f"not foldable ({o[1]}): {o[2]}")
            continue
        masks = o[1]
        n += 1
        nl = kw["nfff"] if kw["fns"] != "ZM-VFNS" else kw["nf"]
        # a mask is read flag by flag ("dus" in m, "c" in m, "b" in m, "t" in m - CKM2Matrix.masked): what counts is the set of flags it raises
        def flags(m):
            return frozenset(f for f in ("dus", "c", "b", "t") if f in m)

        light = frozenset(["dus"] + [f for f, k in (("c", 4), ("b", 5), ("t", 6)) if nl >= k])
        massive = {frozenset([f]) for f, k in (("c", 4), ("b", 5), ("t", 6)) if k > nl}
        fl = kw["obs"].split("_")[1]
        hq = {"charm": 4, "bottom": 5, "top": 6}.get(fl)
        problems = []
        for m in masks:
            fm = flags(m)
            if hq is not None:
                if fm != frozenset([LETTER[fl]]):
                    problems.append(f"the {fl}-tagged observable carries weights whose mask {m!r} opens the CKM groups {sorted(fm)} instead of ['{LETTER[fl]}'] only")
            elif fm != light and fm not in massive:
                problems.append(f"mask {m!r} opens the CKM groups {sorted(fm)}: neither the massless quarks {sorted(light)} nor a single massive quark")
        rep.check(not problems, "C02.mask", "src/yadism/coefficient_functions/kernels.py", label, f"CKM masks {masks}", "; ".join(problems), key=label)
    rep.floor("charged-current runs scanned for CKM masks", n, 30)


def run(rep, proj, tier):
    rep.explanation = (
        "Decides, as identities in Q2, sin^2(theta_W), MZ, MW, beam polarisation, propagator correction and the nine CKM elements: "
        "the charge/isospin tables; get_weight for EM/NC x six quarks x VV/AA/VA/AV x e-/e+ (and neutrino beams up to the helicity "
        "convention) against the PDG expressions; propagator ratios; CC weights against the documented CKM partition; and that the partially "
        "evaluated LO operator of every kind in ZM-VFNS nf=3..6, for EM/NC/CC and the four projectiles, is the parton model: row q = weight x "
        "(x conv(delta of coefficient 1)), row qbar = +/- that for parity conserving/violating kinds, zero elsewhere; and at every order of "
        "the massless EM/NC operators (ZM-VFNS nf=3..6, PTO 2 and 3) each kernel enters exactly the parton rows its class stands for: "
        "non-singlet kernels with the quark's own weight (and the parity sign on antiquarks), singlet/gluon/valence and fl11 kernels with the "
        "flavour average. "
        "NOT decided: the numerical CKM input and the delta-function quadrature (C01/C03)."
    )
    rep.rule_text = "instances enumerated from literal domains (processes, projectile table, quark pids, coupling types, masks, kinds, nf); distinct by construct."
    rep.trusted_base = ["CPython ast", "yadsa partial evaluator", "spec/ew.py: PDG review formulas transcribed independently of the code",
                        "docs/source/theory/fns.rst for the CKM partition by heavyness"]
    rep.assumptions = ["tree-level relation G_F MZ^2/(2 sqrt2 pi alpha) = 1/(4 s^2 c^2) as used by yadism's eta_gammaZ"]
    from . import state

    state.check(rep, proj, "C02.state", module_filter=lambda m: m.name in ('yadism.coefficient_functions.coupling_constants', 'yadism.coefficient_functions.kernels', 'yadism.coefficient_functions.light.kernels', 'yadism.coefficient_functions.heavy.kernels', 'yadism.coefficient_functions.intrinsic.kernels', 'yadism.coefficient_functions.asy.kernels'))
    check_tables(rep, proj)
    check_ckm_card(rep, proj)
    check_weights(rep, proj)
    check_ww(rep, proj)
    check_lo(rep, proj, tier)
    check_masks(rep, proj, tier)
    check_assign(rep, proj, tier)
