"""C11 - cross sections are the documented combinations of structure functions.

Decided: (coeffs) for each of the ten cross-section kinds and both lepton charges the coefficient
vector folded from xs_coeffs_(un)polarized equals, for all x, y, Q2, M_h, M_W, G_F, the documented
N [1, -yL/y+, +/- y-/y+] up to one documented unit-conversion constant; (exhaustive) no kind of
observable_name.xs falls through to a vanishing normalisation, unknown kinds raise; (combo) the
partially evaluated operator of a cross section equals, for every order key and entry, that
combination of the partially evaluated F2/FL/F3 (g4/gL/g1) operators of the same heavyness in
the same run, with and without TMC.  Not decided: numerical values.
"""

from __future__ import annotations

import itertools
from fractions import Fraction

from .. import algebra as A
from .. import opmodel as O
from .. import runmodel as R
from .. import sweep
from .. import symeval as S
from ..spec import xs as XS

EXS = "yadism.esf.exs"


def fold_coeffs(proj, kind, pid):
    ev = S.Evaluator(proj, lenient_ext=True)
    s = XS.syms()
    f = proj.func(EXS, "xs_coeffs_unpolarized")
    params = {"projectilePID": pid, "M2target": s["Mh"] * s["Mh"], "M2W": s["MW"] * s["MW"], "GF": s["GF"]}
    v = ev.call(S.FuncVal(ev, f), [kind, s["y"]], {"x": s["x"], "Q2": s["Q2"], "params": params})
    return [S.num_norm(x) for x in (v.data if isinstance(v, S.Arr) else v)]


def check_coeffs(rep, proj):
    ev0 = S.Evaluator(proj)
    on = proj.module("yadism.observable_name")
    kinds = list(ev0.module_global(on, "xs"))
    f = proj.func(EXS, "xs_coeffs_unpolarized")
    fp = proj.func(EXS, "xs_coeffs_polarized")
    s = XS.syms()
    n = 0
    for kind in kinds:
        if kind == "g5":
            try:
                ev = S.Evaluator(proj, lenient_ext=True)
                v = ev.call(S.FuncVal(ev, fp), [kind], {})
                v = [S.num_norm(x) for x in (v.data if isinstance(v, S.Arr) else v)]
                rep.check(v == [1, -1, 0], "C11.coeffs", fp.site, f"{fp.fq}[g5]", "2xg5 = g4 - gL", f"coefficients {v}, documented (1, -1, 0)", key="g5")
                n += 1
            except (A.Undecided, S.Raised) as e:
                rep.bad("C11.exhaustive", fp.site, f"{fp.fq}[g5]", f"documented kind not handled: {e}", key="g5")
            continue
        for pid in (11, -11, 12, -12):
            construct = f"{f.fq}[{kind},projectile={pid}]"
            try:
                got = fold_coeffs(proj, kind, pid)
            except A.Undecided as e:
                rep.undecided("C11.coeffs", f.site, construct, str(e), key=kind)
                continue
            except S.Raised as e:
                rep.bad("C11.exhaustive", f.site, construct, f"documented kind raises {e}", key=kind)
                continue
            n += 1
            if all(not isinstance(g, A.Rat) and g == 0 for g in got):
                rep.bad("C11.exhaustive", f.site, construct, "kind falls through to a vanishing normalisation: the cross section is identically zero", key=kind)
                continue
            try:
                exp = XS.vector(kind, s, antilepton=pid < 0)
            except KeyError:
                rep.undecided("C11.coeffs", f.site, construct, "kind has no documented formula in docs/source/theory/intro.rst", key=kind)
                continue
            ok_unit = None
            for u in XS.UNITS:
                if all(A.equal(A.to_rat(g), A.to_rat(e) * u, tol=Fraction(1, 10**7)) for g, e in zip(got, exp)):
                    ok_unit = u
                    break
            if ok_unit is not None:
                rep.ok("C11.coeffs", f.site, construct, f"== documented N[1, -yL/y+, +/-y-/y+] x unit {float(ok_unit):g}", key=kind)
            else:
                # describe the mismatch: ratio of the first component if it is a constant
                ratio = ""
                try:
                    r = A.to_rat(got[0]) / A.to_rat(exp[0])
                    cv = S.num_norm(r)
                    if not isinstance(cv, A.Rat):
                        ratio = f"; code/docs = {float(cv):.6g} on the F2 component"
                        for u in XS.UNITS:
                            if u and Fraction(cv) / u in (2, Fraction(1, 2), 4, Fraction(1, 4)):
                                ratio += f" (= {Fraction(cv)/u} x unit {float(u):g})"
                except (A.Undecided, ZeroDivisionError):
                    pass
                rep.bad("C11.coeffs", f.site, construct, "coefficient vector differs from the documented combination" + ratio, key=kind)
    # unknown kinds
    ev = S.Evaluator(proj, lenient_ext=True)
    try:
        ev.call(S.FuncVal(ev, fp), ["g7"], {})
        rep.bad("C11.exhaustive", fp.site, f"{fp.fq}[unknown]", "unknown polarised kind accepted")
    except S.Raised as r:
        rep.check(S.raised_is(r, "ValueError"), "C11.exhaustive", fp.site, f"{fp.fq}[unknown]", "unknown polarised kind raises ValueError", f"ends in {r}")
    rep.floor("coefficient vectors folded", n, 30)


def _combo_job(kw):
    from .. import model

    proj = model.project()
    kw = dict(kw)
    kind = kw.pop("kind")
    fl = kw.pop("fl")
    pol = kind == "g5"
    base = ("g4", "gL", "g1") if pol else ("F2", "FL", "F3")
    try:
        xs_op = O.fold_op(proj, R.Cell(obs=f"{kind}_{fl}", kin_y=True, **kw))
        comps = [O.fold_op(proj, R.Cell(obs=f"{b}_{fl}", kin_y=False, **kw)) for b in base]  # structure functions are requested without y
    except O.FoldFailure as f:
        return ("fold", f.outcome.status, f"{f.outcome.etype} {f.outcome.msg}"[:160], f.outcome.site, f.outcome.construct)
    s = XS.syms()
    pid = {"electron": 11, "positron": -11, "neutrino": 12, "antineutrino": -12}[kw["projectile"]]
    if pol:
        coeffs = [A.Rat.const(1), A.Rat.const(-1), A.Rat.const(0)]
    else:
        try:
            coeffs = [A.to_rat(c) for c in fold_coeffs(proj, kind, pid)]
        except (A.Undecided, S.Raised) as e:
            return ("fold", "undecided", f"coefficients not foldable: {e}", "", "")
    bad = []
    n = 0
    keys = set(xs_op.keys())
    for c in comps:
        keys |= c.keys()
    for key in sorted(keys):
        for p in xs_op.pids:
            for j in range(R.GRID_N):
                n += 1
                exp = A.Rat.const(0)
                for c, comp in zip(coeffs, comps):
                    if c.n.is_zero():
                        continue
                    exp = exp + c * A.to_rat(comp.entry(key, p, j))
                got = xs_op.entry(key, p, j)
                if not O.same(got, exp):
                    bad.append((key, p, j, O.diff_text(got, exp)))
    # the returned point is labelled with the requested kinematics
    for name, got_, want in (("x", xs_op.res_x, "xB"), ("Q2", xs_op.res_Q2, "Q2")):
        n += 1
        if A.canon(got_) != want:
            bad.append((("label",), name, 0, f"the result is labelled {name} = {A.canon(got_)[:30]} instead of the requested {want}"))
    return ("cmp", n, bad[:3], len(bad))


def _mirror_job(kw):
    """Two points of one cross-section observable with the same Q2 and interchanged (x, y): the second one is still the combination of the
    structure functions at ITS x (objects remembered for the first point must not be handed to the second)."""
    from .. import model

    proj = model.project()
    kw = dict(kw)
    kind = kw.pop("kind")
    fl = kw.pop("fl")
    pair = kw.pop("pair", "mirror")
    a_, b_, q2 = Fraction(1, 5), Fraction(1, 2), 20
    if pair == "mirror":
        first, second = {"x": a_, "Q2": q2, "y": b_}, {"x": b_, "Q2": q2, "y": a_}
    else:
        # two points with the SAME inelasticity (another x, another Q2): whatever is remembered per y must not carry the first point's
        # target-mass shift into the second
        first, second = {"x": a_, "Q2": q2, "y": b_}, {"x": b_, "Q2": 30, "y": b_}
    b_, q2, a_ = second["x"], second["Q2"], second["y"]  # from here on: the kinematics of the SECOND point (x, Q2, y)
    base = ("F2", "FL", "F3")
    try:
        xs_op = O.fold_op(proj, R.Cell(obs=f"{kind}_{fl}", kin_y=True, points=[first, second], **kw))
        comps = [O.fold_op(proj, R.Cell(obs=f"{b}_{fl}", kin_y=False, points=[{"x": b_, "Q2": q2}], **kw)) for b in base]
    except O.FoldFailure as f:
        return ("fold", f.outcome.status, f"{f.outcome.etype} {f.outcome.msg}"[:160], f.outcome.site, f.outcome.construct)
    pid = {"electron": 11, "positron": -11, "neutrino": 12, "antineutrino": -12}[kw["projectile"]]
    try:
        coeffs = [A.subs(A.to_rat(c), {"xB": A.Rat.const(b_), "y": A.Rat.const(a_), "Q2": A.Rat.const(q2)}) for c in fold_coeffs(proj, kind, pid)]
    except (A.Undecided, S.Raised) as e:
        return ("fold", "undecided", f"coefficients not foldable: {e}", "", "")
    bad = []
    n = 0
    keys = set(xs_op.keys())
    for c in comps:
        keys |= c.keys()
    for key in sorted(keys):
        for p in xs_op.pids:
            for j in range(R.GRID_N):
                n += 1
                exp = A.Rat.const(0)
                for c, comp in zip(coeffs, comps):
                    if c.n.is_zero():
                        continue
                    exp = exp + c * A.to_rat(comp.entry(key, p, j))
                got = xs_op.entry(key, p, j)
                if not O.same(got, exp):
                    bad.append((key, p, j, O.diff_text(got, exp)))
    return ("cmp", n, bad[:3], len(bad))


def check_mirror(rep, proj, tier):
    jobs = [dict(kind=kind, fl="total", process=proc, projectile=projectile, fns="ZM-VFNS", nfff=4, nf=4, pto=1, tmc=tmc, ren_sv=False, fact_sv=False, pair=pair)
            for kind, (proc, projectile), tmc, pair in itertools.product(["XSHERANC", "XSCHORUSCC", "XSNUTEVCC", "FW"], [("NC", "electron"), ("CC", "neutrino")], [0, 1],
                                                                         ["mirror", "same-y"])
            if (kind == "XSHERANC") == (proc == "NC")]
    outs = sweep.run_cells(_mirror_job, jobs)
    n_entries = 0
    for kw, o in zip(jobs, outs):
        label = f"{kw['kind']}_total|{kw['process']}|{kw['projectile']}|TMC={kw['tmc']}|points (x, Q2, y) = " + ("(1/5, 20, 1/2) then (1/2, 20, 1/5)" if kw["pair"] == "mirror" else "(1/5, 20, 1/2) then (1/2, 30, 1/2)")
        if o[0] == "fold":
            _, status, msg, site, construct = o
            if status == "rejected":
                rep.ok("C11.mirror", "", label, f"configuration explicitly rejected ({msg[:50]})")
            else:
                rep.undecided("C11.mirror", "", label, f"not foldable ({status}): {msg}")
            continue
        _, n, bad, nbad = o
        n_entries += n
        if nbad:
            key, p, j, txt = bad[0]
            rep.bad("C11.mirror", "src/yadism/esf/exs.py", label, f"{nbad} of {n} entries of the second point differ from coeffs . (F2, FL, xF3) at its own kinematics "
                    f"(something remembered for the first point is used), e.g. order {key} pid {p} node {j}: {txt[:300]}", key=label)
        else:
            rep.ok("C11.mirror", "", label, f"{n} entries of the second point == the combination of the structure functions at its own kinematics")
    rep.floor("mirrored-pair entries compared", n_entries, 600)


def check_combo(rep, proj, tier):
    ev0 = S.Evaluator(proj)
    kinds = list(ev0.module_global(proj.module("yadism.observable_name"), "xs"))
    jobs = []
    for kind, fl, (proc, projectile), (fns, nfff, nf), tmc in itertools.product(
        kinds, ["total", "charm", "light"], [("NC", "electron"), ("NC", "positron"), ("CC", "neutrino"), ("CC", "antineutrino")],
        [("ZM-VFNS", 4, 4), ("FFNS", 3, None)], [0, 1, 3]
    ):
        if kind == "g5" and proc == "CC":
            continue
        if tmc and kind == "g5":
            continue  # gL, g4 have no TMC (explicit rejection, C16)
        if tier == "quick":
            if tmc and not (fl == "total" and fns == "ZM-VFNS" and tmc == 1 and projectile in ("electron", "neutrino")):
                continue
            if fl == "light" and fns != "ZM-VFNS":
                continue
            if projectile in ("positron", "antineutrino") and fl != "total":
                continue
        jobs.append(dict(kind=kind, fl=fl, process=proc, projectile=projectile, fns=fns, nfff=nfff, nf=nf, pto=1, tmc=tmc,
                         ren_sv=(tmc == 0 and fl == "total"), fact_sv=(tmc == 0 and fl == "total")))
        if fl == "total" and fns == "ZM-VFNS" and tmc == 0 and projectile in ("electron", "neutrino"):
            # a kinematic point is a mapping: the order in which x, Q2, y are written is not part of the request
            for order in (("Q2", "x", "y"), ("y", "Q2", "x")):
                jobs.append(dict(kind=kind, fl=fl, process=proc, projectile=projectile, fns=fns, nfff=nfff, nf=nf, pto=1, tmc=0, ren_sv=False, fact_sv=False, kin_order=order))
    outs = sweep.run_cells(_combo_job, jobs)
    n_entries = 0
    for kw, o in zip(jobs, outs):
        label = "|".join(f"{k}={v}" for k, v in sorted(kw.items()) if k not in ("ren_sv", "fact_sv", "pto", "nf"))
        if o[0] == "fold":
            _, status, msg, site, construct = o
            if status == "rejected":
                rep.ok("C11.combo", site, label, f"configuration explicitly rejected ({msg[:60]})")
            else:
                rep.undecided("C11.combo", site, label, f"not foldable ({status}): {msg}")
            continue
        _, n, bad, nbad = o
        n_entries += n
        if nbad == 0:
            rep.ok("C11.combo", "", label, f"{n} entries equal the combination of the structure-function operators of the same run")
        else:
            key, p, j, txt = bad[0]
            rep.bad("C11.combo", "src/yadism/esf/exs.py", label,
                    f"{nbad} of {n} entries differ from coeffs . (F2, FL, xF3) of the same heavyness, e.g. order {key} pid {p} node {j}: {txt[:300]}", key=label)
    rep.info["combo_entries_compared"] = n_entries
    rep.floor("combination jobs", len(jobs), 80)
    rep.floor("combination entries compared", n_entries, 5000)


def run(rep, proj, tier):
    rep.explanation = (
        "Decides (coeffs) that the coefficient vector folded from xs_coeffs_unpolarized/polarized equals, for all x, y, Q2, M_h, M_W, G_F, the "
        "combination documented in docs/source/theory/intro.rst (N[1, -yL/y+, (-1)^l y-/y+]) up to one documented unit-conversion constant, for the "
        "ten kinds and four projectiles; (exhaustive) no documented kind falls through to a zero normalisation and unknown kinds raise; "
        "(combo) the partially evaluated operator of each cross section equals, for every order key and entry, that combination of the partially "
        "evaluated F2/FL/F3 (g4/gL/g1) operators of the same heavyness in the same configuration, with and without TMC and scale variations. "
        "NOT decided: numerical values."
    )
    rep.rule_text = "kinds from observable_name.xs (folded from source) x projectile table; combination jobs over heavyness x process x scheme x TMC; distinct by construct/label."
    rep.trusted_base = ["CPython ast", "yadsa partial evaluator", "spec/xs.py: formulas transcribed from docs/source/theory/intro.rst"]
    rep.assumptions = ["unit conversions GeV^-2 -> cm^2 / pb are constants the docs mention only in words: 1, 3.893793e10, 3.893793e8 accepted"]
    check_coeffs(rep, proj)
    check_combo(rep, proj, tier)
    check_mirror(rep, proj, tier)
