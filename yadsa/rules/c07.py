"""C07 - heavyness, FONLL-part and coupling-restricted results add up.

Decided by normal-form identities between partially evaluated operators, for
every order key (scale-variation keys included) and every entry:
  (parts)  op(FONLLParts=full)  == op(massless) + op(massive)
  (ffns)   op(total) == op(light) + sum over the *massive* heavy quarks of op(<quark>)   in FFNS/FFN0
  (zm)     op(total) == op(light)   in ZM-VFNS
  (pos)    sum over the six quarks of op(NCPositivityCharge=<q>) == op(unrestricted)   for EM/NC
Not decided: numerical values.  The literal reading "total = light + charm + bottom + top"
for NfFF >= 4, where charm is already an active flavour, is not what the code documents
(docs: heavy already became heavylight) and is reported as not decided, not as a violation.
"""

from __future__ import annotations

import itertools

from .. import algebra as A
from .. import opmodel as O
from .. import runmodel as R
from .. import sweep

HEAVY = {4: "charm", 5: "bottom", 6: "top"}


def _cells(tier):
    jobs = []
    kinds = ["F2", "FL", "F3", "g1"] if tier == "quick" else ["F2", "FL", "F3", "g1", "gL", "g4"]
    ptos = [(2, 2)] if tier == "quick" else [(1, 1), (2, 2), (3, 3), (2, 1), (1, 2)]
    # parts
    for kind, fl, proc, (fns, nfff), (pto, pe), sv in itertools.product(
        kinds, ["total", "light", "charm", "bottom"], ["NC", "CC"],
        [("FONLL-FFNS", 3), ("FONLL-FFNS", 4), ("FONLL-FFN0", 3), ("FONLL-FFN0", 4), ("FONLL-FFN0", 5), ("FFNS", 3), ("FFN0", 4), ("ZM-VFNS", 4)],
        ptos, [False, True],
    ):
        if proc == "CC" and kind in ("g1", "gL", "g4"):
            continue
        if sv and not (fl in ("total", "charm") and fns.startswith("FONLL")):
            continue
        if tier == "quick" and fl == "bottom" and fns != "FONLL-FFN0":
            continue
        base = dict(obs=f"{kind}_{fl}", process=proc, fns=fns, nfff=nfff, nf=4 if fns == "ZM-VFNS" else None, pto=pto, pto_evol=pe,
                    projectile="neutrino" if proc == "CC" else "electron", ren_sv=sv, fact_sv=sv)
        jobs.append(("parts", base))
    # ffns / ffn0 totals
    for kind, proc, fns, nfff, (pto, pe), sv in itertools.product(kinds, ["NC", "CC"], ["FFNS", "FFN0"], [3, 4, 5], ptos, [False, True]):
        if proc == "CC" and kind in ("g1", "gL", "g4"):
            continue
        if sv and tier == "quick" and nfff != 3:
            continue
        base = dict(process=proc, fns=fns, nfff=nfff, pto=pto, pto_evol=pe, projectile="antineutrino" if proc == "CC" else "positron",
                    ren_sv=sv, fact_sv=sv)
        jobs.append(("ffns", dict(kind=kind, **base)))
    # the same additivity with target-mass corrections on (the correction is linear in the structure function: each part is corrected with
    # integrals over ITS OWN uncorrected structure function)
    for kind, tmc, fns in itertools.product(["F2", "FL", "F3"], [1, 2, 3], ["FFNS", "FFN0"]):
        if tier == "quick" and (fns == "FFN0" and tmc != 1):
            continue
        jobs.append(("ffns", dict(kind=kind, process="NC", fns=fns, nfff=3, pto=1, pto_evol=1, projectile="electron", ren_sv=False, fact_sv=False, tmc=tmc)))
    # zero mass
    for kind, proc, nf, pto in itertools.product(kinds, ["EM", "NC", "CC"], [3, 4, 5, 6], [1, 3] if tier == "quick" else [0, 1, 2, 3]):
        if proc == "CC" and kind in ("g1", "gL", "g4"):
            continue
        base = dict(process=proc, fns="ZM-VFNS", nfff=4, nf=nf, pto=pto, projectile="neutrino" if proc == "CC" else "electron",
                    ren_sv=(pto == 1), fact_sv=(pto == 1))
        jobs.append(("zm", dict(kind=kind, **base)))
    # positivity charge
    for kind, fl, proc, (fns, nfff, nf), pto in itertools.product(
        ["F2", "FL", "F3"] if tier == "quick" else kinds, ["total", "light", "charm"], ["EM", "NC"],
        [("ZM-VFNS", 4, 5), ("ZM-VFNS", 4, 6), ("ZM-VFNS", 4, 3), ("FFNS", 3, None), ("FFN0", 4, None), ("FONLL-FFNS", 4, None)], [1, 3] if tier == "quick" else [0, 1, 2, 3]
    ):
        if tier == "quick" and nf in (3, 6) and (fl != "total" or kind == "FL"):
            continue
        base = dict(obs=f"{kind}_{fl}", process=proc, fns=fns, nfff=nfff, nf=nf, pto=pto, ren_sv=False, fact_sv=False)
        jobs.append(("pos", base))
    return jobs


POS_NAMES = ["down", "up", "strange", "charm", "bottom", "top"]


def _run(job):
    from .. import model

    proj = model.project()
    kind, kw = job
    try:
        if kind == "parts":
            full = O.fold_op(proj, R.Cell(fonllparts="full", **kw))
            ml = O.fold_op(proj, R.Cell(fonllparts="massless", **kw))
            mv = O.fold_op(proj, R.Cell(fonllparts="massive", **kw))
            n, bad = O.compare_sum(full, [ml, mv])
            nontrivial = bool(ml.orders) and bool(mv.orders)
            return ("cmp", n, bad[:3], len(bad), "full == massless + massive")
        if kind == "ffns":
            k = kw.pop("kind")
            nfff = kw["nfff"]
            total = O.fold_op(proj, R.Cell(obs=f"{k}_total", **kw))
            parts = [O.fold_op(proj, R.Cell(obs=f"{k}_light", **kw))]
            names = ["light"]
            for h, name in HEAVY.items():
                if h > nfff:  # massive in this scheme
                    parts.append(O.fold_op(proj, R.Cell(obs=f"{k}_{name}", **kw)))
                    names.append(name)
            n, bad = O.compare_sum(total, parts)
            return ("cmp", n, bad[:3], len(bad), "total == " + " + ".join(names))
        if kind == "zm":
            k = kw.pop("kind")
            total = O.fold_op(proj, R.Cell(obs=f"{k}_total", **kw))
            light = O.fold_op(proj, R.Cell(obs=f"{k}_light", **kw))
            n, bad = O.compare_sum(total, [light])
            return ("cmp", n, bad[:3], len(bad), "total == light")
        if kind == "pos":
            whole = O.fold_op(proj, R.Cell(pos_charge=None, **kw), weights="semi")
            alls = O.fold_op(proj, R.Cell(pos_charge="all", **kw), weights="semi")
            # the spellings used by the positivity data cards (extras/data/POS_*: "up", "down", "strange", ...): the restriction is
            # defined by the first letter, whatever else the word contains
            parts = [O.fold_op(proj, R.Cell(pos_charge=name, **kw), weights="semi") for name in POS_NAMES]
            n, bad = O.compare_sum(whole, parts)
            n2, bad2 = O.compare_sum(whole, [alls])
            # each restricted run couples to its own quark only: every hadronic coupling factor names that quark
            import re as _re

            for i, (q, part) in enumerate(zip("duscbt", parts)):
                wrong = set()
                for key, (vals, _errs) in part.orders.items():
                    for row in vals:
                        for e in row:
                            if isinstance(e, A.Rat):
                                for a in e.atoms():
                                    m = _re.match(r"(had|hadfl11)\('\w+', (\d+),", a)
                                    if m and int(m.group(2)) != i + 1:
                                        wrong.add(a)
                if wrong:
                    bad.append((("restriction", q), 0, 0, f"the run restricted to NCPositivityCharge={q}W carries couplings of another quark: {sorted(wrong)[:2]}"))
            return ("cmp", n + n2, (bad + bad2)[:3], len(bad) + len(bad2), "unrestricted == sum over d,u,s,c,b,t restrictions (and == 'all')")
    except O.FoldFailure as f:
        return ("fold", f.outcome.status, f"{f.outcome.etype} {f.outcome.msg}"[:120], f.outcome.site, f.outcome.construct)
    return ("fold", "undecided", "unknown job", "", "")


def run(rep, proj, tier):
    rep.explanation = (
        "Decides additivity as polynomial identities between partially evaluated operators (every order key incl. scale-variation keys, every "
        "parton row and basis node; weights, masses, kinematics and convolution values symbolic): FONLLParts full == massless + massive; "
        "FFNS/FFN0 total == light + the heavy quarks that are massive in that scheme; ZM-VFNS total == light; EM/NC unrestricted == sum of the six "
        "NCPositivityCharge restrictions (and == 'all'). NOT decided: numerical values; the literal 'light+charm+bottom+top' for NfFF >= 4 "
        "(charm then also enters 'light': documented double counting) is outside the decided clause."
    )
    rep.rule_text = "jobs from literal domains (kinds, heavyness, processes, schemes, NfFF, orders); distinct by job label; non-trivial = both sides fold to operators."
    rep.trusted_base = ["CPython ast", "yadsa partial evaluator and summaries (quadrature, eko, LeProHQ opaque)"]
    rep.assumptions = ["generic-point folding of symbolic weights", "heavy coefficient functions folded above threshold"]
    jobs = _cells(tier)
    outs = sweep.run_cells(_run, [(k, dict(kw)) for k, kw in jobs])
    n_entries = 0
    counts = {}
    for (kind, kw), o in zip(jobs, outs):
        label = f"{kind}:" + "|".join(f"{k}={v}" for k, v in sorted(kw.items()) if k not in ("ren_sv", "fact_sv", "projectile")) + f"|sv={kw.get('ren_sv')}"
        rule = f"C07.{kind}"
        counts[kind] = counts.get(kind, 0) + 1
        if o[0] == "fold":
            _, status, msg, site, construct = o
            if status == "rejected":
                rep.ok(rule, site, label, f"configuration explicitly rejected ({msg[:60]})")
            else:
                rep.undecided(rule, site, label, f"not foldable ({status}): {msg}")
            continue
        _, n, bad, nbad, what = o
        n_entries += n
        if nbad == 0:
            rep.ok(rule, "", label, f"{what}: {n} entries identical")
        else:
            key, pid, j, txt = bad[0]
            rep.bad(rule, "src/yadism/coefficient_functions/__init__.py", label,
                    f"{what} fails for {nbad} of {n} entries, e.g. order {key} pid {pid} node {j}: {txt[:300]}", key=label)
    rep.info["entries_compared"] = n_entries
    rep.info["jobs"] = counts
    rep.floor("additivity jobs", len(jobs), 150)
    rep.floor("entries compared", n_entries, 20000)
