"""C03 - every kernel is one well-defined distribution.

Decided clause: for every RSL triple constructed anywhere in the package,
d/dx loc(x) + sing(x) == 0 identically (the x-derivative of the contract
loc(x) = delta - int_0^x sing), and d/dx loc(x) == 0 when there is no singular
part.  Not decided: finiteness/realness of the values, the regular parts, the
value of the delta coefficient.
"""

from __future__ import annotations

import ast

from .. import algebra as A
from .. import pcmodel as P
from .. import symeval as S
from ..algebra import Undecided
from ..model import norm_text

RULE = "C03.rsl"
SAMPLES = [{"x": 0.137}, {"x": 0.471}, {"x": 0.823}]
BUDGET = 4_000_000


def rsl_sites(proj):
    """All syntactic RSL construction sites: RSL(...), RSL.from_distr_coeffs(...), RSL.from_delta(...)."""
    rsl = P.rsl_class(proj)
    sites = []
    for m in proj.modules.values():
        for node in ast.walk(m.tree):
            if not isinstance(node, ast.Call):
                continue
            scope = proj.enclosing_function(node)
            r = proj.resolve_expr(m, node.func, scope)
            if r is None:
                continue
            if r[0] == "class" and r[1] is rsl:
                sites.append((m, node, "RSL"))
            elif r[0] == "func" and r[1].cls is rsl and r[1].name in ("from_distr_coeffs", "from_delta"):
                sites.append((m, node, r[1].name))
    return sites


def site_has_distribution_parts(node, kind):
    if kind != "RSL":
        return True
    if len(node.args) >= 2:
        return True
    return any(k.arg in ("sing", "loc") for k in node.keywords)


def check_triple(rep, ev, rsl, var, site, construct, key):
    """The sing/loc identity for one folded RSL."""
    A.set_budget(BUDGET)
    try:
        sing = P.eval_part(ev, rsl, "sing", var)
        loc = P.eval_part(ev, rsl, "loc", var)
    except Undecided as u:
        rep.undecided(RULE, site, construct, f"sing/loc outside the translatable fragment: {u}", key=key)
        return "undecided"
    except S.Raised as r:
        # an exception while evaluating a part is C18/C16 business; here the instance is undecided
        rep.undecided(RULE, site, construct, f"part raises on the folded path ({r}); see C18.args", key=key)
        return "undecided"
    finally:
        A.set_budget(None)
    if sing is None and loc is None:
        return "vacuous"
    try:
        A.set_budget(BUDGET)
        if loc is None:
            if isinstance(sing, A.Rat) or sing != 0:
                rep.bad(RULE, site, construct, "singular part without a local part: loc(x) = delta - int_0^x sing cannot hold", key=key)
                return "violated"
            return "vacuous"
        dloc = A.diff(loc, "x")
        target = -A.to_rat(sing) if sing is not None else A.Rat.const(0)
        diffs = A.difference(dloc, target)
        if not diffs:
            rep.ok(RULE, site, construct,
                   "d/dx loc + sing == 0" if sing is not None else "no singular part and d/dx loc == 0",
                   key=key, data=dict(sing=_short(sing), loc=_short(loc)))
            return "ok"
        if A.numerically_equal(dloc, target, SAMPLES):
            rep.undecided(RULE, site, construct,
                          "normal forms differ syntactically but agree numerically: normaliser incomplete for this pair", key=key)
            return "undecided"
        rep.bad(RULE, site, construct,
                "d/dx loc(x) != -sing(x); differing monomials (d loc/dx vs -sing): " + A.fmt_diffs(diffs),
                key=key, data=dict(sing=_short(sing), loc=_short(loc)))
        return "violated"
    except Undecided as u:
        rep.undecided(RULE, site, construct, f"derivative/comparison outside the fragment: {u}", key=key)
        return "undecided"
    finally:
        A.set_budget(None)


def _short(v):
    s = A.canon(v) if v is not None else "None"
    return s if len(s) < 300 else s[:300] + "..."


def run(rep, proj, tier):
    rep.explanation = (
        "Decides, for every RSL(reg, sing, loc) triple the package constructs, the identity "
        "d/dx loc(x) + sing(x) == 0 for all x and all parameter values, by translating both kernels "
        "into a canonical rational-polynomial normal form over atoms (x, log(1-x), log x, li2, nf, L, ...) "
        "and comparing coefficient by coefficient. This is the x-derivative of the property's contract "
        "loc(x) = delta - int_0^x sing. NOT decided: that values are finite and real, the regular parts, delta itself."
    )
    rep.rule_text = (
        "instances = (partonic-channel class x order) whose folded order method constructs an RSL, plus every "
        "splitting-function factory in split.raw_labels; non-trivial = has a singular or local part; distinct by (construct, order)."
    )
    rep.trusted_base = [
        "CPython ast", "yadsa.algebra normaliser (tolerance 5e-5 per monomial)",
        "summary: special.li2 is the dilogarithm; scipy.special.spence(z) = Li2(1-z)",
        "eko.constants read from the installed source",
    ]
    rep.assumptions = ["kernel variable in (0,1): x, 1-x treated as positive inside logarithms"]

    sites = rsl_sites(proj)
    site_nodes = {id(n): (m, n, k) for m, n, k in sites}
    visited = set()

    ev = S.Evaluator(proj, on_call=P.above_threshold_hook)

    def listener(node, callee):
        if id(node) in site_nodes:
            visited.add(id(node))

    ev.call_listener = listener
    sym = P.Sym()
    n_sing = n_decided = 0
    seen_keys = set()

    # 1. partonic channels
    for c in P.channel_classes(proj):
        try:
            obj = P.instantiate(ev, c, sym)
        except (Undecided, S.Raised) as e:
            # abstract bases that cannot be instantiated on their own (e.g. light_cls placeholder) are not instances
            rep.note(f"class {c.fq} not instantiable on its own: {e}")
            continue
        for k in range(4):
            r = P.fold_order(ev, obj, k)
            if r.status in ("none", "empty"):
                continue
            construct = f"{c.fq}.{P.ORDER_METHODS[k]}"
            msite = r.method.site if r.method is not None else c.site
            if r.status in ("undecided", "raised"):
                if c.name.startswith("PartonicChannelAsy") and "TypeError" in r.reason:
                    continue  # abstract intrinsic bases with the placeholder light_cls
                rep.undecided(RULE, msite, construct, f"order method not foldable: {r.reason}")
                continue
            has_sing = r.rsl.attrs.get("sing") is not None
            has_loc = r.rsl.attrs.get("loc") is not None
            if not has_sing and not has_loc:
                continue
            st = check_triple(rep, ev, r.rsl, sym.z, msite, construct, key=P.ORDER_METHODS[k])
            if has_sing:
                n_sing += 1
                if st in ("ok", "violated"):
                    n_decided += 1

    # 1b. purity: the functions an order method returns are functions of their arguments
    P.check_pure(rep, proj, "C03.pure", floor=150)

    # 2. splitting functions used by the scale variations
    split = proj.module(f"{P.CF}.splitting_functions")
    try:
        raw_labels = ev.module_global(split, "raw_labels")
        n_labels = 0
        for order_labels in raw_labels:
            for label, fnc in order_labels.items():
                n_labels += 1
                construct = f"{fnc.finfo.fq}[{label}]" if isinstance(fnc, S.FuncVal) else f"splitting[{label}]"
                site = fnc.finfo.site if isinstance(fnc, S.FuncVal) else split.relpath
                try:
                    rsl = ev.call(fnc, [sym.nf], {})
                except (Undecided, S.Raised) as e:
                    rep.undecided(RULE, site, construct, f"factory not foldable: {e}")
                    continue
                has_sing = rsl.attrs.get("sing") is not None
                st = check_triple(rep, ev, rsl, sym.z, site, construct, key=label)
                if has_sing:
                    n_sing += 1
                    if st in ("ok", "violated"):
                        n_decided += 1
        rep.floor("splitting labels", n_labels, 10)
    except (Undecided, S.Raised) as e:
        raise  # the registry itself must fold

    # 3. construction sites never reached by the folding above
    unreached = 0
    for nid, (m, node, kind) in site_nodes.items():
        if nid in visited:
            continue
        f = proj.enclosing_function(node)
        construct = f"{m.name}::{f.qualname if f else '<module>'}"
        site = f"{m.relpath}:{node.lineno}"
        if f is not None and f.cls is P.rsl_class(proj):
            continue  # RSL's own classmethods (cls(...)) - not a construction site of a kernel
        if not site_has_distribution_parts(node, kind):
            rep.ok(RULE + ".site", site, construct, "regular part only: no distribution pieces", key=norm_text(node))
            continue
        unreached += 1
        rep.undecided(RULE + ".site", site, construct, "RSL construction site not reached by any folded instance", key=norm_text(node))

    rep.info["rsl_sites"] = len(sites)
    rep.info["rsl_sites_reached"] = len(visited)
    rep.info["triples_with_singular_part"] = n_sing
    rep.info["triples_with_singular_part_decided"] = n_decided
    rep.floor("RSL construction sites", len(sites), 128)
    rep.floor("triples with a singular part", n_sing, 22)
    rep.floor("triples with a singular part decided", n_decided, 17)
