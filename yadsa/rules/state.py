"""Process-wide state: a shared sub-rule of the properties that quantify over any sequence of calls (C10, C14, C15, C17).

A result can only be independent of what the process did before if nothing that outlives a call carries run-dependent
information into the next one.  Decided here, on the syntax tree alone:

  every store into a *process-wide* container - a module-level or class-level dict/list/set, a mutable default argument,
  or a class attribute assigned from inside a function - is a memo whose key determines its value: every input the
  stored value is computed from (parameters, loop elements, attributes of self, enclosing-function variables) also
  occurs in the key.

A store whose value depends on something the key does not contain is a violation (the next call with an equal key gets a
value computed for other inputs); if the only missing inputs come from over-approximation (a method call on self, an
unresolved call) the instance is *undecided*, never an alarm.  Instances on today's tree: the N3LO grid memo
`heavy/n3lo/__init__.py::interpolators` (key = file name built from all three parameters) - confirmed by reading.
"""

from __future__ import annotations

import ast

MUTABLE_CALLS = {"dict", "list", "set", "defaultdict", "OrderedDict", "collections.defaultdict", "collections.OrderedDict", "deque", "collections.deque",
                 "np.zeros", "np.empty", "np.ones", "np.full", "numpy.zeros", "numpy.empty", "np.array", "numpy.array", "np.eye", "np.identity", "np.asarray"}
MUTATORS_KEYED = {"setdefault": (0, 1), "__setitem__": (0, 1)}
MUTATORS_UNKEYED = {"append", "extend", "insert", "add", "update", "appendleft"}
REMOVERS = {"pop", "popitem", "clear", "remove", "discard"}


def _is_mutable_expr(v):
    if isinstance(v, (ast.Dict, ast.List, ast.Set, ast.DictComp, ast.ListComp, ast.SetComp)):
        return True
    if isinstance(v, ast.Call):
        return ast.unparse(v.func) in MUTABLE_CALLS
    return False


# (container, input) pairs confirmed by reading: the key does determine the value although the rule cannot see it
CONFIRMED = {
    ("yadism.esf.scale_variations::ScaleVariations().operators", "element order_labels of self.raw_labels"):
        "the labels of the splitting-function registry are distinct across orders (splitting_functions/__init__.py: raw_labels = one dict per order, "
        "names carry the order; C05.labels decides on every run that the registry is not cross-wired): the label alone determines the generator",
    ("yadism.runner::Runner().observables", "obs_name"):
        "ObservableName is a value object built from its name (observable_name.py: name = kind + '_' + flavor, __eq__ compares kind and flavor): "
        "equal names denote equal objects",
}


class Container:
    def __init__(self, kind, module, owner, name, node):
        self.kind, self.module, self.owner, self.name, self.node = kind, module, owner, name, node

    @property
    def label(self):
        return f"{self.module.name}::{self.owner + '.' if self.owner else ''}{self.name}"


def containers(module):
    """Module-level and class-level mutable containers of one parsed module."""
    out = {}
    for st in module.tree.body:
        if isinstance(st, (ast.Assign, ast.AnnAssign)) and getattr(st, "value", None) is not None and _is_mutable_expr(st.value):
            for t in (st.targets if isinstance(st, ast.Assign) else [st.target]):
                if isinstance(t, ast.Name):
                    out[("module", None, t.id)] = Container("module", module, None, t.id, st)
        if isinstance(st, ast.ClassDef):
            for c in st.body:
                if isinstance(c, (ast.Assign, ast.AnnAssign)) and getattr(c, "value", None) is not None and _is_mutable_expr(c.value):
                    for t in (c.targets if isinstance(c, ast.Assign) else [c.target]):
                        if isinstance(t, ast.Name):
                            out[("class", st.name, t.id)] = Container("class", module, st.name, t.id, c)
    return out


def _instance_attrs(cls_node):
    """Attributes assigned on self somewhere in the class: they shadow class-level ones for `self.X` access."""
    s = set()
    for n in ast.walk(cls_node):
        if isinstance(n, (ast.Assign, ast.AnnAssign, ast.AugAssign)):
            for t in (n.targets if isinstance(n, ast.Assign) else [n.target]):
                if isinstance(t, ast.Attribute) and isinstance(t.value, ast.Name) and t.value.id == "self" and isinstance(n, (ast.Assign, ast.AnnAssign)):
                    s.add(t.attr)
    return s


def _enclosing(node, kinds):
    n = getattr(node, "_parent", None)
    while n is not None and not isinstance(n, kinds):
        n = getattr(n, "_parent", None)
    return n


class FuncDeps:
    """Flow-insensitive input roots of expressions inside one function."""

    def __init__(self, fn, module_consts, module_containers):
        self.fn = fn
        self.module_consts = module_consts
        self.module_containers = module_containers
        a = fn.args
        self.params = {x.arg for x in a.posonlyargs + a.args + a.kwonlyargs} | ({a.vararg.arg} if a.vararg else set()) | ({a.kwarg.arg} if a.kwarg else set())
        self.for_key = False
        self.assigns = {}  # local name -> [value expr]
        self.loops = {}  # local name -> [iter expr]
        for n in ast.walk(fn):
            if _enclosing(n, (ast.FunctionDef, ast.AsyncFunctionDef, ast.Lambda)) is not fn and n is not fn:
                continue
            if isinstance(n, ast.Assign):
                for t in n.targets:
                    self._bind(t, n.value)
            elif isinstance(n, ast.AnnAssign) and n.value is not None:
                self._bind(n.target, n.value)
            elif isinstance(n, ast.AugAssign):
                self._bind(n.target, n.value)
            elif isinstance(n, (ast.For, ast.comprehension)):
                for nm in ast.walk(n.target):
                    if isinstance(nm, ast.Name):
                        self.loops.setdefault(nm.id, []).append(n.iter)
            elif isinstance(n, ast.With):
                for it in n.items:
                    if it.optional_vars is not None:
                        self._bind(it.optional_vars, it.context_expr)
            elif isinstance(n, ast.NamedExpr):
                self._bind(n.target, n.value)
        # enclosing-function variables
        self.outer = set()
        p = _enclosing(fn, (ast.FunctionDef, ast.AsyncFunctionDef))
        while p is not None:
            a = p.args
            self.outer |= {x.arg for x in a.posonlyargs + a.args + a.kwonlyargs}
            for n in ast.walk(p):
                if isinstance(n, ast.Name) and isinstance(n.ctx, ast.Store):
                    self.outer.add(n.id)
            p = _enclosing(p, (ast.FunctionDef, ast.AsyncFunctionDef))

    def _bind(self, target, value):
        for nm in ast.walk(target):
            if isinstance(nm, ast.Name) and isinstance(getattr(nm, "ctx", None), (ast.Store, ast.Load)) and nm is target or isinstance(nm, ast.Name) and isinstance(target, (ast.Tuple, ast.List)):
                self.assigns.setdefault(nm.id, []).append(value)

    def roots(self, e, seen=None):
        """(definite roots, may-roots) of expression e."""
        seen = seen if seen is not None else set()
        D, M = set(), set()

        def merge(r):
            D.update(r[0])
            M.update(r[1])

        if e is None or isinstance(e, ast.Constant):
            return D, M
        if isinstance(e, ast.Name):
            n = e.id
            line = getattr(e, "lineno", None)
            if n in self.assigns or n in self.loops:
                # the bindings that textually precede the use (all of them if none does: a use inside a loop);
                # a parameter keeps its own identity unless an unconditional rebinding precedes the use
                assigns = self.assigns.get(n, [])
                before = [v for v in assigns if line is None or getattr(v, "lineno", 0) < line] or (assigns if n not in self.params else [])
                rebound = any(getattr(getattr(v, "_parent", None), "_parent", None) is self.fn for v in before)
                if n in self.params and not rebound:
                    D.add(n)
                key_ = (n, line)
                if key_ in seen:
                    return D, M
                seen = seen | {key_}
                for v in before:
                    merge(self.roots(v, seen))
                for it in self.loops.get(n, []):
                    if not self.for_key:
                        # a value computed from an element depends on the iterable too; a key holding the element's
                        # value does not contain the iterable
                        merge(self.roots(it, seen))
                    # the element is identified by its loop: targets of one loop (index and element, zipped sequences) move together
                    D.add(f"element {n} of {ast.unparse(it)[:40]} @loop{getattr(it, 'lineno', 0)}:{getattr(it, 'col_offset', 0)}")
            elif n in self.params:
                D.add(n)
            elif n in self.outer:
                D.add(n)
            elif ("module", None, n) in self.module_containers:
                M.add(f"global {n}")
            # module constants, imports, functions, classes, builtins: pure
            return D, M
        if isinstance(e, ast.Attribute):
            chain = _chain(e)
            if chain is not None:
                base = chain.split(".")[0]
                if base in self.params or base in self.outer:
                    D.add(chain)
                    return D, M
                if base in self.assigns or base in self.loops:
                    merge(self.roots(ast.Name(id=base, ctx=ast.Load()), seen))
                    return D, M
                return D, M  # module attribute / constant
            merge(self.roots(e.value, seen))
            return D, M
        if isinstance(e, ast.Call):
            f = e.func
            if isinstance(f, ast.Attribute):
                chain = _chain(f.value)
                base = chain.split(".")[0] if chain else None
                if base is not None and (base in self.params or base in self.outer):
                    # a method of an input object: depends on that object (its whole state: over-approximation)
                    M.add(chain)
                else:
                    merge(self.roots(f.value, seen))
            elif isinstance(f, ast.Name):
                if f.id in self.params or f.id in self.assigns or f.id in self.outer or f.id in self.loops:
                    merge(self.roots(f, seen))
            else:
                merge(self.roots(f, seen))
            for a in e.args:
                merge(self.roots(a.value if isinstance(a, ast.Starred) else a, seen))
            for k in e.keywords:
                merge(self.roots(k.value, seen))
            return D, M
        if isinstance(e, (ast.Lambda,)):
            inner = {x.arg for x in e.args.args}
            r = self.roots(e.body, seen)
            D.update(x for x in r[0] if x not in inner)
            M.update(r[1])
            return D, M
        if isinstance(e, (ast.ListComp, ast.SetComp, ast.GeneratorExp, ast.DictComp)):
            for g in e.generators:
                merge(self.roots(g.iter, seen))
                for c in g.ifs:
                    merge(self.roots(c, seen))
            for part in ([e.key, e.value] if isinstance(e, ast.DictComp) else [e.elt]):
                merge(self.roots(part, seen))
            return D, M
        for c in ast.iter_child_nodes(e):
            if isinstance(c, ast.expr):
                merge(self.roots(c, seen))
        return D, M


def _chain(e):
    parts = []
    while isinstance(e, ast.Attribute):
        parts.append(e.attr)
        e = e.value
    if isinstance(e, ast.Name):
        parts.append(e.id)
        return ".".join(reversed(parts))
    return None


def _covered(root, key_roots):
    """A root is covered by the key if the key contains it, a prefix object of it (`self.a` covers `self.a.b`), or - for a loop
    element - the element itself."""
    for k in key_roots:
        if root == k or root.startswith(k + "."):
            return True
    if root.startswith("element ") and "@loop" in root:
        loop = root.rsplit("@loop", 1)[1]
        # another target of the same loop is in the key (the iterable itself is a separate root and must be covered on its own)
        return any(k.startswith("element ") and k.rsplit("@loop", 1)[-1] == loop for k in key_roots)
    return False


def _eq_pair(test, want_equal):
    """(input chain, self chain) if `test` states input == self.attr (want_equal) or input != self.attr (not want_equal)."""
    if isinstance(test, ast.UnaryOp) and isinstance(test.op, ast.Not):
        return _eq_pair(test.operand, not want_equal)
    if isinstance(test, ast.Compare) and len(test.ops) == 1 and isinstance(test.ops[0], ast.Eq if want_equal else ast.NotEq):
        a, b = _chain(test.left), _chain(test.comparators[0])
        for x, y in ((a, b), (b, a)):
            if x and y and y.startswith("self.") and not x.startswith("self"):
                return x
    return None


def _always_leaves(stmts):
    return bool(stmts) and isinstance(stmts[-1], (ast.Return, ast.Raise, ast.Continue, ast.Break))


def _equal_to_self(fn, store_node):
    """Inputs equated with the object's own state on every path to the store: an enclosing `if input == self.attr:` body, the
    else branch of `if input != self.attr:`, or an earlier guard `if input != self.attr: return/raise` in an enclosing block."""
    out = set()
    child = store_node
    n = getattr(store_node, "_parent", None)
    while n is not None:
        if isinstance(n, ast.If):
            in_body = any(child is b for b in n.body)
            in_else = any(child is b for b in n.orelse)
            x = _eq_pair(n.test, True) if in_body else (_eq_pair(n.test, False) if in_else else None)
            if x:
                out.add(x)
        # earlier sibling guards that leave when the input differs
        for field in ("body", "orelse", "finalbody"):
            block = getattr(n, field, None)
            if isinstance(block, list) and any(child is b for b in block):
                for st in block:
                    if st is child:
                        break
                    if isinstance(st, ast.If) and not st.orelse and _always_leaves(st.body):
                        x = _eq_pair(st.test, False)
                        if x:
                            out.add(x)
        if n is fn:
            break
        child = n
        n = getattr(n, "_parent", None)
    return out


class Store:
    def __init__(self, container_label, node, key, value, how, fn, module, cls_name, scope="process"):
        self.container, self.node, self.key, self.value, self.how, self.fn, self.module, self.cls_name = container_label, node, key, value, how, fn, module, cls_name
        self.scope = scope  # 'process' (module/class/default-argument level) or 'instance' (memo on self)


def _instance_container(expr, cls_node, project_classes):
    """`self.X` where some method of the class (or a project base) assigns `self.X = <mutable container>`."""
    if not (isinstance(expr, ast.Attribute) and isinstance(expr.value, ast.Name) and expr.value.id == "self" and cls_node is not None):
        return None
    todo, seen = [cls_node], set()
    while todo:
        c = todo.pop()
        if c.name in seen:
            continue
        seen.add(c.name)
        for n in ast.walk(c):
            if isinstance(n, (ast.Assign, ast.AnnAssign)) and getattr(n, "value", None) is not None and _is_mutable_expr(n.value):
                for t in (n.targets if isinstance(n, ast.Assign) else [n.target]):
                    if isinstance(t, ast.Attribute) and isinstance(t.value, ast.Name) and t.value.id == "self" and t.attr == expr.attr:
                        return c.name
        for b in c.bases:
            nm = b.id if isinstance(b, ast.Name) else (b.attr if isinstance(b, ast.Attribute) else None)
            if nm in project_classes:
                todo.append(project_classes[nm])
    return None


def _is_memo_lookup(fn, container_expr):
    """The function looks the container up before computing: `K in C`, `C[K]` read, `C.get(K)` - the memo idiom."""
    txt = ast.unparse(container_expr)
    for n in ast.walk(fn):
        if isinstance(n, ast.Compare) and any(isinstance(o, (ast.In, ast.NotIn)) for o in n.ops) and any(ast.unparse(c) == txt for c in n.comparators):
            return True
        if isinstance(n, ast.Subscript) and isinstance(n.ctx, ast.Load) and ast.unparse(n.value) == txt:
            return True
        if isinstance(n, ast.Call) and isinstance(n.func, ast.Attribute) and n.func.attr == "get" and ast.unparse(n.func.value) == txt:
            return True
    return False


def _internal_callers(fn, cls_node):
    """Call sites `self.<fn>(...)` in the other methods of the class -> [(caller function, call node)]"""
    out = []
    if cls_node is None:
        return out
    for m in cls_node.body:
        if isinstance(m, (ast.FunctionDef, ast.AsyncFunctionDef)) and m is not fn:
            for n in ast.walk(m):
                if isinstance(n, ast.Call) and isinstance(n.func, ast.Attribute) and n.func.attr == fn.name and isinstance(n.func.value, ast.Name) and n.func.value.id == "self":
                    out.append((m, n))
    return out


def _memo_lookup_in_callers(fn, cls_node, container_expr):
    """A private helper that only stores: the lookup half of the memo idiom sits in the method(s) calling it."""
    if not fn.name.startswith("_") or fn.name.startswith("__"):
        return False
    callers = _internal_callers(fn, cls_node)
    return bool(callers) and all(_is_memo_lookup(c, container_expr) for c, _ in callers)


def _resolve_container(expr, fn, module, cls_node, table, project_classes):
    """Does `expr` (the object being indexed / mutated / assigned) denote a process-wide container? -> label or None"""
    if isinstance(expr, ast.Name):
        n = expr.id
        if ("module", None, n) in table:
            # not shadowed by a local binding or a parameter
            a = fn.args
            params = {x.arg for x in a.posonlyargs + a.args + a.kwonlyargs}
            local = any(isinstance(x, ast.Name) and isinstance(x.ctx, ast.Store) and x.id == n for x in ast.walk(fn))
            has_global = any(isinstance(x, ast.Global) and n in x.names for x in ast.walk(fn))
            if n not in params and (not local or has_global):
                return table[("module", None, n)].label
        # mutable default argument
        a = fn.args
        pos = a.posonlyargs + a.args
        for p, d in zip(pos[len(pos) - len(a.defaults):], a.defaults):
            if p.arg == n and _is_mutable_expr(d):
                return f"{module.name}::{getattr(fn, 'name', '<lambda>')}(default {n})"
        for p, d in zip(a.kwonlyargs, a.kw_defaults):
            if d is not None and p.arg == n and _is_mutable_expr(d):
                return f"{module.name}::{getattr(fn, 'name', '<lambda>')}(default {n})"
        return None
    if isinstance(expr, ast.Attribute):
        base = expr.value
        owner = None
        via_self = False
        if isinstance(base, ast.Name) and base.id in ("self",) and cls_node is not None:
            owner, via_self = cls_node, True
        elif isinstance(base, ast.Name) and base.id == "cls" and cls_node is not None:
            owner = cls_node
        elif isinstance(base, ast.Name) and base.id in project_classes:
            owner = project_classes[base.id]
        elif isinstance(base, ast.Call) and ast.unparse(base.func) == "type" and cls_node is not None:
            owner = cls_node
        elif isinstance(base, ast.Attribute) and base.attr == "__class__" and cls_node is not None:
            owner = cls_node
        if owner is None:
            return None
        # walk the class and its project bases for a class-level mutable of that name
        todo, seen = [owner], set()
        while todo:
            c = todo.pop()
            if c.name in seen:
                continue
            seen.add(c.name)
            if via_self and expr.attr in _instance_attrs(c):
                return None  # instance attribute shadows
            for st in c.body:
                if isinstance(st, (ast.Assign, ast.AnnAssign)) and getattr(st, "value", None) is not None and _is_mutable_expr(st.value):
                    for t in (st.targets if isinstance(st, ast.Assign) else [st.target]):
                        if isinstance(t, ast.Name) and t.id == expr.attr:
                            return f"{module.name}::{c.name}.{expr.attr}"
            for b in c.bases:
                nm = b.id if isinstance(b, ast.Name) else (b.attr if isinstance(b, ast.Attribute) else None)
                if nm in project_classes:
                    todo.append(project_classes[nm])
        return None
    return None


def stores(module, project_classes):
    """All run-time stores into process-wide state of one module."""
    table = containers(module)
    out = []
    for fn in ast.walk(module.tree):
        if not isinstance(fn, (ast.FunctionDef, ast.AsyncFunctionDef)):
            continue
        cls_node = _enclosing(fn, (ast.ClassDef,))
        # only direct methods / functions nested in them count as "inside the class"
        for n in ast.walk(fn):
            if _enclosing(n, (ast.FunctionDef, ast.AsyncFunctionDef)) is not fn:
                continue
            # C[K] = V ; C[K] += V ; del C[K]
            if isinstance(n, (ast.Assign, ast.AugAssign, ast.AnnAssign)):
                for t in (n.targets if isinstance(n, ast.Assign) else [n.target]):
                    if isinstance(t, ast.Subscript):
                        lab = _resolve_container(t.value, fn, module, cls_node, table, project_classes)
                        if lab:
                            out.append(Store(lab, n, t.slice, n.value, "[key] = value", fn, module, cls_node.name if cls_node else None))
                        else:
                            owner = _instance_container(t.value, cls_node, project_classes)
                            if owner and isinstance(n, ast.Assign) and (_is_memo_lookup(fn, t.value) or _memo_lookup_in_callers(fn, cls_node, t.value)):
                                out.append(Store(f"{module.name}::{owner}().{t.value.attr}", n, t.slice, n.value, "[key] = value (memo on the instance)", fn, module,
                                                 cls_node.name if cls_node else None, scope="instance"))
                    elif isinstance(t, ast.Attribute):
                        # cls.X = V / ClassName.X = V / type(self).X = V : a class attribute written at run time
                        b = t.value
                        is_cls = (isinstance(b, ast.Name) and (b.id == "cls" or b.id in project_classes)) or \
                                 (isinstance(b, ast.Call) and ast.unparse(b.func) == "type") or (isinstance(b, ast.Attribute) and b.attr == "__class__")
                        if is_cls and getattr(n, "value", None) is not None:
                            owner = b.id if isinstance(b, ast.Name) and b.id != "cls" else (cls_node.name if cls_node else "?")
                            out.append(Store(f"{module.name}::{owner}.{t.attr}", n, None, n.value, "class attribute = value", fn, module, cls_node.name if cls_node else None))
                    elif isinstance(t, ast.Name) and any(isinstance(g, ast.Global) and t.id in g.names for g in ast.walk(fn)):
                        out.append(Store(f"{module.name}::{t.id}", n, None, n.value, "global name = value", fn, module, None))
            elif isinstance(n, ast.Call) and isinstance(n.func, ast.Attribute):
                m = n.func.attr
                if m in MUTATORS_KEYED or m in MUTATORS_UNKEYED:
                    lab = _resolve_container(n.func.value, fn, module, cls_node, table, project_classes)
                    if lab:
                        if m in MUTATORS_KEYED and len(n.args) >= 2:
                            out.append(Store(lab, n, n.args[0], n.args[1], f".{m}(key, value)", fn, module, cls_node.name if cls_node else None))
                        else:
                            val = n.args[0] if n.args else None
                            out.append(Store(lab, n, None, val, f".{m}(value)", fn, module, cls_node.name if cls_node else None))
    return out, table



# ----------------------------------------------------------------------------- in-place changes through aliases
ELEMENT_MUTATORS = {"append", "extend", "insert", "add", "update", "appendleft", "setdefault", "pop", "popitem", "clear", "remove", "discard", "sort", "reverse",
                    "fill", "resize", "itemset", "put", "partition", "setfield", "setflags", "byteswap"}
SHALLOW_WRAPPERS = {"list", "tuple", "sorted", "reversed", "iter", "next", "dict", "set", "enumerate", "zip", "filter", "np.asarray", "numpy.asarray", "np.asanyarray",
                    "np.ascontiguousarray", "np.atleast_1d", "np.ravel", "itertools.chain"}
SHALLOW_METHODS = {"get", "values", "items", "copy", "pop", "setdefault", "ravel", "reshape", "view", "squeeze", "transpose"}
IMMUTABLE_NODES = (ast.Constant, ast.Tuple, ast.JoinedStr, ast.Lambda)


def _elements_immutable(container_node):
    """Container literal whose elements are all constants / tuples of constants / functions: an alias of an element cannot change it."""
    v = getattr(container_node, "value", None)
    if isinstance(v, ast.Dict):
        elems = v.values
    elif isinstance(v, (ast.List, ast.Set, ast.Tuple)):
        elems = v.elts
    else:
        return False
    def imm(e):
        if isinstance(e, ast.Constant) or isinstance(e, (ast.Lambda, ast.JoinedStr)):
            return True
        if isinstance(e, ast.Tuple):
            return all(imm(x) for x in e.elts)
        if isinstance(e, (ast.Name, ast.Attribute)):
            return True  # a function / class / constant named elsewhere (dispatch tables)
        if isinstance(e, ast.UnaryOp):
            return imm(e.operand)
        if isinstance(e, ast.BinOp):
            return imm(e.left) and imm(e.right)
        return False
    return bool(elems) and all(imm(e) for e in elems)


def _param_mutations(fn):
    """Parameters a function changes in place by itself (subscript store, augmented assignment, mutator method, out=)."""
    a = fn.args
    params = [x.arg for x in a.posonlyargs + a.args]
    rebound = {n.id for n in ast.walk(fn) if isinstance(n, ast.Name) and isinstance(n.ctx, ast.Store) and not isinstance(getattr(n, "_parent", None), ast.AugAssign)}
    out = set()
    for n in ast.walk(fn):
        if isinstance(n, (ast.Assign, ast.AugAssign)):
            for t in (n.targets if isinstance(n, ast.Assign) else [n.target]):
                if isinstance(t, ast.Subscript) and isinstance(t.value, ast.Name) and t.value.id in params and t.value.id not in rebound:
                    out.add(t.value.id)
                if isinstance(n, ast.AugAssign) and isinstance(t, ast.Name) and t.id in params and t.id not in rebound:
                    out.add(t.id)
        elif isinstance(n, ast.Call):
            if isinstance(n.func, ast.Attribute) and n.func.attr in ELEMENT_MUTATORS and isinstance(n.func.value, ast.Name) and n.func.value.id in params \
                    and n.func.value.id not in rebound:
                out.add(n.func.value.id)
            for k in n.keywords:
                if k.arg == "out" and isinstance(k.value, ast.Name) and k.value.id in params and k.value.id not in rebound:
                    out.add(k.value.id)
    return {p: params.index(p) for p in out}


def alias_mutations(module, project_classes, table, memo_attrs, mutating_functions):
    """Objects taken out of process-wide containers (or memos on self) through local names and then changed in place.
    -> [dict(node, fn, cls_name, label, alias, how, definite)]"""
    res = []
    for fn in ast.walk(module.tree):
        if not isinstance(fn, (ast.FunctionDef, ast.AsyncFunctionDef)):
            continue
        cls_node = _enclosing(fn, (ast.ClassDef,))
        own = [n for n in ast.walk(fn) if _enclosing(n, (ast.FunctionDef, ast.AsyncFunctionDef)) is fn or n is fn]

        def direct(expr):
            lab = _resolve_container(expr, fn, module, cls_node, table, project_classes)
            if lab:
                return lab
            if isinstance(expr, ast.Attribute) and isinstance(expr.value, ast.Name) and expr.value.id == "self" and cls_node is not None:
                c, seen = cls_node, set()
                todo = [cls_node]
                while todo:
                    c = todo.pop()
                    if c.name in seen:
                        continue
                    seen.add(c.name)
                    if (c.name, expr.attr) in memo_attrs:
                        return memo_attrs[(c.name, expr.attr)]
                    for b in c.bases:
                        nm = b.id if isinstance(b, ast.Name) else (b.attr if isinstance(b, ast.Attribute) else None)
                        if nm in project_classes:
                            todo.append(project_classes[nm])
            return None

        aliases = {}  # local name -> (label, binding node)

        def shared_of(e, extra=None):
            """label if the value of e is, or holds as elements, objects that live in a shared container"""
            env = dict(aliases)
            if extra:
                env.update(extra)
            if isinstance(e, ast.Name):
                return env.get(e.id, (None,))[0] or direct(e)
            lab = direct(e)
            if lab:
                return lab
            if isinstance(e, ast.Subscript):
                return shared_of(e.value, extra)
            if isinstance(e, ast.Starred):
                return shared_of(e.value, extra)
            if isinstance(e, (ast.Tuple, ast.List)):
                for x in e.elts:
                    r = shared_of(x, extra)
                    if r:
                        return r
                return None
            if isinstance(e, ast.IfExp):
                return shared_of(e.body, extra) or shared_of(e.orelse, extra)
            if isinstance(e, ast.Call):
                f = e.func
                if isinstance(f, ast.Attribute) and f.attr in SHALLOW_METHODS:
                    if f.attr == "copy" and not direct(f.value):
                        return None  # a copy of an element (array / dict / list): a new object; a copy of the container itself is shallow
                    return shared_of(f.value, extra)
                if ast.unparse(f) in SHALLOW_WRAPPERS and e.args:
                    for x in e.args:
                        r = shared_of(x, extra)
                        if r:
                            return r
                return None
            if isinstance(e, (ast.ListComp, ast.GeneratorExp, ast.SetComp)):
                loc = dict(extra or {})
                for g in e.generators:
                    r = shared_of(g.iter, loc)
                    if r:
                        for nm in ast.walk(g.target):
                            if isinstance(nm, ast.Name):
                                loc[nm.id] = (r, g)
                return shared_of(e.elt, loc)
            if isinstance(e, ast.Attribute):
                return None
            return None

        for _ in range(3):  # flow-insensitive fixpoint over the function's own bindings
            for n in own:
                if isinstance(n, ast.Assign):
                    r = shared_of(n.value)
                    if r:
                        for t in n.targets:
                            for nm in ([t] if isinstance(t, ast.Name) else [x for x in ast.walk(t) if isinstance(x, ast.Name)] if isinstance(t, (ast.Tuple, ast.List)) else []):
                                aliases.setdefault(nm.id, (r, n))
                elif isinstance(n, ast.For):
                    r = shared_of(n.iter)
                    if r:
                        for nm in ast.walk(n.target):
                            if isinstance(nm, ast.Name):
                                aliases.setdefault(nm.id, (r, n))
                elif isinstance(n, ast.NamedExpr):
                    r = shared_of(n.value)
                    if r:
                        aliases.setdefault(n.target.id, (r, n))
        # a name that is also bound to something fresh on another path stays an alias (may-analysis): reported as definite only if every binding is shared
        fresh = set()
        for n in own:
            if isinstance(n, ast.Assign) and not shared_of(n.value):
                for t in n.targets:
                    if isinstance(t, ast.Name):
                        fresh.add(t.id)
        params = {x.arg for x in fn.args.posonlyargs + fn.args.args + fn.args.kwonlyargs}

        def target_label(e):
            """(label, alias name) if e names a shared object itself (alias or the container attribute)"""
            if isinstance(e, ast.Name) and e.id in aliases and e.id not in params:
                return aliases[e.id][0], e.id
            if isinstance(e, ast.Subscript):
                # element of a container taken directly, e.g. self.masks["dus"] |= m
                r = direct(e.value) or (aliases[e.value.id][0] if isinstance(e.value, ast.Name) and e.value.id in aliases and e.value.id not in params else None)
                if r:
                    return r, ast.unparse(e)[:30]
            return None, None

        def report(node, lab, alias, how):
            cont = [c for c in table.values() if c.label == lab]
            if cont and _elements_immutable(cont[0].node) and how.startswith("augmented"):
                return
            res.append(dict(node=node, fn=fn, cls_name=cls_node.name if cls_node else None, label=lab, alias=alias, how=how, definite=alias not in fresh))

        for n in own:
            if isinstance(n, ast.AugAssign):
                if isinstance(n.target, ast.Name):
                    lab, al = target_label(n.target)
                    if lab:
                        report(n, lab, al, f"augmented assignment `{ast.unparse(n)[:50]}` (in place for arrays, lists, dicts, sets)")
                elif isinstance(n.target, ast.Subscript) and isinstance(n.target.value, ast.Name):
                    lab, al = target_label(n.target.value)
                    if lab:
                        report(n, lab, al, f"item update `{ast.unparse(n)[:50]}`")
                elif isinstance(n.target, ast.Subscript):
                    # C[k] += v directly on a container element that is itself a container (array, list)
                    pass
            elif isinstance(n, ast.Assign):
                for t in n.targets:
                    if isinstance(t, ast.Subscript) and isinstance(t.value, ast.Name):
                        lab, al = target_label(t.value)
                        if lab:
                            report(n, lab, al, f"item store `{ast.unparse(n)[:50]}`")
            elif isinstance(n, ast.Call):
                if isinstance(n.func, ast.Attribute) and n.func.attr in ELEMENT_MUTATORS and isinstance(n.func.value, ast.Name):
                    lab, al = target_label(n.func.value)
                    if lab:
                        report(n, lab, al, f"mutating call `{ast.unparse(n)[:50]}`")
                for k in n.keywords:
                    if k.arg == "out":
                        lab, al = target_label(k.value)
                        if lab:
                            report(n, lab, al, f"`out=` argument in `{ast.unparse(n)[:50]}`")
                # handing the shared object to a function that changes that parameter in place
                cal = n.func.attr if isinstance(n.func, ast.Attribute) else (n.func.id if isinstance(n.func, ast.Name) else None)
                cands = mutating_functions.get(cal, [])
                if cands:
                    for i, a_ in enumerate(n.args):
                        lab, al = target_label(a_)
                        if not lab:
                            continue
                        hits = [c for c in cands if (i + c["offset"]) in c["positions"]]
                        if hits:
                            res.append(dict(node=n, fn=fn, cls_name=cls_node.name if cls_node else None, label=lab, alias=al,
                                            how=f"passed to `{cal}`, which changes that parameter in place ({hits[0]['where']})",
                                            definite=len(hits) == len(cands) and al not in fresh))
    return res


def _import_time_only(fn, module, proj):
    """Is the (outermost enclosing) function of a store used exclusively in decorator position on module-level definitions?"""
    top = fn
    p = _enclosing(top, (ast.FunctionDef, ast.AsyncFunctionDef))
    while p is not None:
        top = p
        p = _enclosing(top, (ast.FunctionDef, ast.AsyncFunctionDef))
    if getattr(top, "_parent", None) is not module.tree:
        return False
    name = top.name
    uses = deco_uses = 0
    for m in proj.modules.values():
        deco_nodes = set()
        for st in m.tree.body:
            if isinstance(st, (ast.FunctionDef, ast.AsyncFunctionDef, ast.ClassDef)):
                for d in st.decorator_list:
                    for n in ast.walk(d):
                        deco_nodes.add(id(n))
        for n in ast.walk(m.tree):
            if (isinstance(n, ast.Name) and n.id == name and isinstance(n.ctx, ast.Load)) or (isinstance(n, ast.Attribute) and n.attr == name):
                if m is not module and not any(isinstance(x, ast.ImportFrom) and any(a.name == name for a in x.names) for x in ast.walk(m.tree)) and isinstance(n, ast.Name):
                    continue  # another module's own name
                uses += 1
                if id(n) in deco_nodes:
                    deco_uses += 1
    return uses > 0 and uses == deco_uses


def analyse(proj, module_filter=None):
    """-> (instances, n_containers): instance = dict(site, construct, status, detail)"""
    project_classes = {}
    for m in proj.modules.values():
        for st in m.tree.body:
            if isinstance(st, ast.ClassDef):
                project_classes.setdefault(st.name, st)
    res = []
    n_containers = 0
    # functions that change one of their parameters in place (one level, by simple name)
    mutating_functions = {}
    for m in proj.modules.values():
        for fn in ast.walk(m.tree):
            if isinstance(fn, (ast.FunctionDef, ast.AsyncFunctionDef)):
                pm = _param_mutations(fn)
                is_method = isinstance(getattr(fn, "_parent", None), ast.ClassDef) and not any(ast.unparse(d) == "staticmethod" for d in fn.decorator_list)
                mutating_functions.setdefault(fn.name, []).append(dict(positions=set(pm.values()), offset=1 if is_method else 0, where=f"{m.relpath}:{fn.lineno}"))
    mutating_functions = {k: v for k, v in mutating_functions.items() if any(c["positions"] for c in v)}
    for m in proj.modules.values():
        if module_filter is not None and not module_filter(m):
            continue
        sts, table = stores(m, project_classes)
        n_containers += len(table)
        memo_attrs = {}
        for s_ in sts:
            if s_.scope == "instance":
                owner, attr = s_.container.split("::")[1].split("().")
                memo_attrs[(owner, attr)] = s_.container
        for am in alias_mutations(m, project_classes, table, memo_attrs, mutating_functions):
            site = f"{m.relpath}:{am['node'].lineno}"
            construct = f"{am['label']} <~ {m.name}::{(am['cls_name'] + '.') if am['cls_name'] else ''}{am['fn'].name}"
            detail = (f"`{am['alias']}` names an object stored in {am['label']} (state that outlives the call) and is changed in place: {am['how']}; "
                      "every later reader of the container sees the changed object")
            res.append(dict(site=site, construct=construct, status="violated" if am["definite"] else "undecided", key=am["label"] + "|alias", detail=detail))
        consts = set()
        for s in sts:
            if s.scope == "process" and _import_time_only(s.fn, m, proj):
                res.append(dict(site=f"{m.relpath}:{s.node.lineno}", construct=f"{s.container} <- {m.name}::{s.fn.name}", status="discharged", key=s.container,
                                detail=f"`{ast.unparse(s.node)[:80]}`: the storing function is only ever applied as a decorator of module-level definitions - the container is "
                                       "filled once, when the module is imported, with values that do not depend on any run"))
                continue
            fd = FuncDeps(s.fn, consts, table)
            fd.for_key = True
            kD, kM = fd.roots(s.key) if s.key is not None else (set(), set())
            fd.for_key = False
            vD, vM = fd.roots(s.value) if s.value is not None else (set(), set())
            if s.scope == "process" and s.value is not None:
                # a process-wide container filled with the result of a method of `self`: what that method reads from the instance is an input of
                # the stored value (the instance belongs to one run, the container to the process)
                cls_n = _enclosing(s.fn, (ast.ClassDef,))
                if cls_n is not None:
                    methods = {f_.name: f_ for f_ in cls_n.body if isinstance(f_, (ast.FunctionDef, ast.AsyncFunctionDef))}
                    # (names bound by assignment earlier in the function are followed one step)
                    exprs = [s.value]
                    if isinstance(s.value, ast.Name):
                        exprs += [a_.value for a_ in ast.walk(s.fn) if isinstance(a_, ast.Assign) and any(isinstance(t_, ast.Name) and t_.id == s.value.id for t_ in a_.targets)]
                    for ex in exprs:
                        for c_ in ast.walk(ex):
                            if isinstance(c_, ast.Call) and isinstance(c_.func, ast.Attribute) and isinstance(c_.func.value, ast.Name) and c_.func.value.id == "self" \
                                    and c_.func.attr in methods:
                                for n_ in ast.walk(methods[c_.func.attr]):
                                    if isinstance(n_, ast.Attribute) and isinstance(n_.value, ast.Name) and n_.value.id == "self" and isinstance(n_.ctx, ast.Load) \
                                            and n_.attr not in methods and not (isinstance(getattr(n_, "_parent", None), ast.Attribute) and False):
                                        if n_.attr == ast.unparse(s.node).split("[")[0].split(".")[-1].strip():
                                            continue  # the container itself
                                        vD.add(f"self.{n_.attr} (read by self.{c_.func.attr}())")
            # a private helper called only from inside the class: its parameters are what the callers pass (one level)
            cls_node_ = _enclosing(s.fn, (ast.ClassDef,))
            if s.fn.name.startswith("_") and not s.fn.name.startswith("__") and cls_node_ is not None and _internal_callers(s.fn, cls_node_):
                params = [a.arg for a in s.fn.args.posonlyargs + s.fn.args.args][1:]
                sub_k, sub_vD, sub_vM = [], [], []
                for caller, call in _internal_callers(s.fn, cls_node_):
                    amap = dict(zip(params, call.args))
                    amap.update({k.arg: k.value for k in call.keywords if k.arg})
                    cfd = FuncDeps(caller, consts, table)

                    def subst(roots, for_key, definite):
                        out_d, out_m = set(), set()
                        for r in roots:
                            base = r.split(".")[0].split(" ")[0]
                            if base in amap and not r.startswith("element "):
                                cfd.for_key = for_key
                                d_, m_ = cfd.roots(amap[base])
                                cfd.for_key = False
                                (out_d if definite else out_m).update(d_)
                                out_m.update(m_)
                            else:
                                (out_d if definite else out_m).add(r)
                        return out_d, out_m

                    kd_, km_ = subst(kD | kM, True, True)
                    vd_, vm_ = subst(vD, False, True)
                    vm2d_, vm2_ = subst(vM, False, False)
                    sub_k.append(kd_ | km_ | _equal_to_self(caller, call))
                    sub_vD.append(vd_)
                    sub_vM.append(vm_ | vm2d_ | vm2_)
                # all call sites must be fine: keep the context with the most uncovered inputs
                worst = max(range(len(sub_k)), key=lambda i: len([r for r in sub_vD[i] if not _covered(r, sub_k[i] | {"self"})]))
                kD, kM, vD, vM = sub_k[worst], set(), sub_vD[worst], sub_vM[worst]
            key_roots = kD | kM
            if s.scope == "instance":
                key_roots = key_roots | {"self"}  # the memo lives on the object: its own (construction-time) state is part of the key
            if s.scope == "instance":
                key_roots = key_roots | _equal_to_self(s.fn, s.node)
            missing = sorted(r.split(" @loop")[0] for r in vD if not _covered(r, key_roots) and (s.container, r.split(" @loop")[0]) not in CONFIRMED)
            may_missing = sorted(r for r in vM if not _covered(r, key_roots) and (s.container, r.split(" @loop")[0]) not in CONFIRMED)
            site = f"{m.relpath}:{s.node.lineno}"
            construct = f"{s.container} <- {m.name}::{(s.cls_name + '.') if s.cls_name else ''}{s.fn.name}"
            stmt = ast.unparse(s.node)[:80]
            where = "a memo that lives on the object" if s.scope == "instance" else "process-wide state"
            if missing:
                res.append(dict(site=site, construct=construct, status="violated", key=s.container,
                                detail=f"`{stmt}` stores into {where} a value computed from {missing[:4]} which the key "
                                       f"({ast.unparse(s.key)[:50] if s.key is not None else 'none'}) does not contain: a later call with an equal key gets a value computed for other inputs"))
            elif may_missing:
                res.append(dict(site=site, construct=construct, status="undecided", key=s.container,
                                detail=f"`{stmt}`: the stored value may depend on {may_missing[:3]} (method call on an input object) which is not in the key"))
            else:
                res.append(dict(site=site, construct=construct, status="discharged", key=s.container,
                                detail=f"`{stmt}`: every input of the stored value ({sorted(x.split(' @loop')[0] for x in vD | vM)[:4]}) occurs in the key ({ast.unparse(s.key)[:40] if s.key is not None else 'constant value'})"))
    return res, n_containers


_CANARY = '''
class Memo:
    _w = {}
    def get(self, ker, xj, pj):
        key = (ker, self.xi, xj)
        if key not in self._w:
            self._w[key] = conv(ker, self.xi, pj)
        return self._w[key]

class PerObject:
    def __init__(self, basis):
        self.basis = basis
        self.memo = {}
    def weights(self, f):
        for i, p in enumerate(self.basis):
            if i not in self.memo:
                self.memo[i] = p.area()
        return self.memo

class Guarded:
    def __init__(self, name):
        self.name = name
        self.cache = {}
    def get(self, name, kin):
        if name != self.name:
            return self.parent.get(name, kin)
        key = tuple(kin.values())
        if key in self.cache:
            return self.cache[key]
        obj = build(name.kind, kin)
        self.cache[key] = obj
        return obj

class Masks:
    table = {"a": np.array([1, 0]), "b": np.array([0, 1])}
    def bad(self, flavs):
        active = [m for k, m in self.table.items() if k in flavs]
        op = active[0]
        for m in active[1:]:
            op |= m
        return op
    def fine(self, flavs):
        active = [m for k, m in self.table.items() if k in flavs]
        op = active[0].copy()
        for m in active[1:]:
            op |= m
        return op

class Ops:
    def __init__(self):
        self.operators = {}
    def raw(self, key):
        if key not in self.operators:
            self.operators[key] = compute(key)
        return self.operators[key]
    def spoil(self, key):
        mat = self.operators[key]
        mat += 1
        return mat
    def helper(self, key):
        return insert_front(self.operators[key], 0)

def insert_front(lst, v):
    lst.insert(0, v)
    return lst

_tab = {}
def good(a, b):
    k = f"{a}_{b}"
    if k not in _tab:
        _tab[k] = load(k)
    return _tab[k]
'''


def canary():
    """The rule must fire on a stale-key memo and stay silent on a complete one, on every run."""
    import types

    from ..model import AnalysisError

    tree = ast.parse(_CANARY)
    for parent in ast.walk(tree):
        for child in ast.iter_child_nodes(parent):
            child._parent = parent
    tree._parent = None
    m = types.SimpleNamespace(tree=tree, name="canary", relpath="<canary>")
    proj = types.SimpleNamespace(modules={"canary": m})
    res, n = analyse(proj)
    st = sorted((r["key"], r["status"]) for r in res)
    expected = sorted([("canary::Guarded().cache", "discharged"), ("canary::Memo._w", "violated"), ("canary::PerObject().memo", "discharged"),
                       ("canary::_tab", "discharged"), ("canary::Masks.table|alias", "violated"), ("canary::Ops().operators", "discharged"),
                       ("canary::Ops().operators|alias", "violated"), ("canary::Ops().operators|alias", "violated")])
    if st != expected or n != 3:
        raise AnalysisError(f"process-state rule canary failed: {st}")


def check(rep, proj, rule, module_filter=None, floor=0):
    canary()
    res, n_containers = analyse(proj, module_filter)
    for r in res:
        if r["status"] == "violated":
            rep.bad(rule, r["site"], r["construct"], r["detail"], key=r["key"])
        elif r["status"] == "undecided":
            rep.undecided(rule, r["site"], r["construct"], r["detail"], key=r["key"])
        else:
            rep.ok(rule, r["site"], r["construct"], r["detail"], key=r["key"])
    if not res:
        rep.ok(rule, "", "process-wide state", f"no run-time store into module-level, class-level or default-argument containers ({n_containers} such containers exist) in the analysed modules; canary fired")
    rep.info.setdefault("process_state", {})[rule] = dict(stores=len(res), containers=n_containers)
    if floor:
        rep.floor(f"{rule}: process-wide stores analysed", len(res), floor)
    return res
