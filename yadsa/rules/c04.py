"""C04 - massless coefficient functions obey sum rules and NLO closed forms.

Decided: (nlo) for every light partonic-channel class of F2, FL, F3, g1 (NC and CC even/odd) the NLO
distribution folded through the MRO equals the published closed form for all z and nf - regular,
singular and local part separately - and no NLO term exists where the literature has none;
(mom) the first moment  int_0^1 reg dz + loc(0)  of the non-singlet coefficients, obtained by
integrating the *normal form read from the source* (tanh-sinh quadrature of the closed form; nothing
from the repository is executed): nu-nubar F2 -> 0 (Adler) at orders 1..3, F3 and g1 non-singlet ->
the Gross-Llewellyn-Smith/Bjorken coefficients at orders 1..3 (1..2 for g1), for nf = 3..6, within the
accuracy of the published parametrisations; (soft) F2 and F3 share their threshold (singular)
kernels at NNLO and N3LO; (sib) the nu+nubar / nu-nubar regular kernels of one structure function
differ by an nf-independent function.  Not decided: higher Mellin moments.
"""

from __future__ import annotations

import math
from fractions import Fraction

from .. import algebra as A
from .. import pcmodel as P
from .. import symeval as S
from ..spec import nlo as N

L = "yadism.coefficient_functions.light."
SAMPLES = [{"x": 0.137}, {"x": 0.471}, {"x": 0.823}]

# class -> (kind, role) ; role in {ns, gluon, singlet, flns}
NLO_CLASSES = [
    ("f2_nc", "NonSinglet", "F2", "ns"), ("f2_nc", "Gluon", "F2", "gluon"), ("f2_nc", "Singlet", "F2", "none"),
    ("f2_cc", "NonSingletEven", "F2", "ns"), ("f2_cc", "NonSingletOdd", "F2", "ns"), ("f2_cc", "Gluon", "F2", "gluon"), ("f2_cc", "Singlet", "F2", "none"),
    ("fl_nc", "NonSinglet", "FL", "flns"), ("fl_nc", "Gluon", "FL", "gluon"), ("fl_nc", "Singlet", "FL", "none"),
    ("fl_cc", "NonSingletEven", "FL", "flns"), ("fl_cc", "NonSingletOdd", "FL", "flns"), ("fl_cc", "Gluon", "FL", "gluon"),
    ("f3_nc", "NonSinglet", "F3", "ns"), ("f3_nc", "Valence", "F3", "none"),
    ("f3_cc", "NonSingletEven", "F3", "ns"), ("f3_cc", "NonSingletOdd", "F3", "ns"), ("f3_cc", "Valence", "F3", "none"),
    ("g1_nc", "NonSinglet", "g1", "ns"), ("g1_nc", "Gluon", "g1", "gluon"), ("g1_nc", "Singlet", "g1", "none"),
]


def same(a, b):
    if a is None or b is None:
        return a is None and b is None
    d = A.difference(A.to_rat(a), A.to_rat(b), tol=Fraction(1, 10**9))
    if not d:
        return True
    return False


def check_nlo(rep, proj):
    sym = P.Sym()
    ev = S.Evaluator(proj)
    n = 0
    for mod, cname, kind, role in NLO_CLASSES:
        c = proj.cls(L + mod, cname)
        construct = f"{c.fq}.NLO"
        try:
            obj = P.instantiate(ev, c, sym)
        except (A.Undecided, S.Raised) as e:
            rep.undecided("C04.nlo", c.site, construct, f"class not instantiable: {e}")
            continue
        r = P.fold_order(ev, obj, 1)
        site = r.method.site if r.method is not None else c.site
        if r.status in ("undecided", "raised"):
            rep.undecided("C04.nlo", site, construct, r.reason)
            continue
        n += 1
        if role == "none":
            rep.check(r.status in ("none", "empty"), "C04.nlo", site, construct, "no NLO term, as in the literature",
                      "carries an NLO term where the published coefficient function has none", key="absent")
            continue
        if r.status != "rsl":
            rep.bad("C04.nlo", site, construct, "published NLO coefficient function is missing", key="missing")
            continue
        try:
            regs = {name: P.eval_part_regimes(ev, r.rsl, name, sym.z) for name in ("reg", "sing", "loc")}
        except (A.Undecided, S.Raised) as e:
            rep.undecided("C04.nlo", site, construct, f"parts not foldable: {e}")
            continue
        if role == "ns":
            ereg, esing, eloc = N.ns_parts(kind)
        elif role == "flns":
            ereg, esing, eloc = N.fl_ns(), None, None
        else:
            ereg, esing, eloc = N.gluon(kind), None, None
        problems = []
        undecided_regions = []
        for name, key_, exp in (("regular", "reg", ereg), ("singular", "sing", esing), ("local", "loc", eloc)):
            regimes = regs[key_]
            if len(regimes) == 1 and not regimes[0][0]:
                got = regimes[0][1]
                if not same(got, exp):
                    if got is None or exp is None:
                        problems.append(f"{name} part {'missing' if got is None else 'present but not in the literature'}")
                    else:
                        problems.append(f"{name} part differs: " + A.fmt_diffs(A.difference(A.to_rat(got), A.to_rat(exp), tol=Fraction(1, 10**9)), 3))
                continue
            # a piecewise kernel (e.g. a series near an end point): each piece against the closed form on its own region, numerically
            bps = P.regime_breakpoints(regimes, "x")
            # exact rational sample points, evaluated in 60-digit arithmetic: the common-denominator normal form of the
            # published kernel cancels catastrophically in floats within ~1e-6 of an end point, which is where such pieces live
            F_ = Fraction
            bpf = [F_(b_).limit_denominator(10**15) for b_ in bps]
            cands = sorted(set([F_(k_, 40) for k_ in range(1, 40)] + [F_(1, 10**k_) for k_ in range(1, 13)] + [1 - F_(1, 10**k_) for k_ in range(1, 13)]
                               + [b_ * F_(f_) for b_ in bpf for f_ in ("1/2", "9/10", "999/1000", "1001/1000", "11/10", "2") if 0 < b_ * F_(f_) < 1]
                               + [1 - (1 - b_) * F_(f_) for b_ in bpf for f_ in ("1/1000", "1/100", "1/10", "1/2", "9/10", "999/1000", "1001/1000", "11/10", "2")
                                  if 0 < 1 - (1 - b_) * F_(f_) < 1]))
            for conds, got in regimes:
                pts = [z_ for z_ in cands if all(P.condition_holds(c_, z_, "x") for c_ in conds)]
                region = " and ".join(f"{A.canon(d_)[:30]} {'<' if o_ in ('Lt', 'LtE') else '>'} 0 is {t_}" for d_, o_, t_ in conds)
                if not pts:
                    undecided_regions.append(region)
                    continue
                if (got is None) != (exp is None):
                    problems.append(f"{name} part on the region [{region}] {'missing' if got is None else 'present but not in the literature'}")
                    continue
                if got is None:
                    continue
                worst = None
                for z_ in pts:
                    for nf_ in (3, 5):
                        env_ = {"x": z_, "nf": nf_}
                        try:
                            gv, xv = float(A.evalf_dec(A.to_rat(got), env_)), float(A.evalf_dec(A.to_rat(exp), env_))
                        except (A.Undecided, ValueError, ZeroDivisionError, OverflowError, ArithmeticError):
                            continue
                        dev = abs(gv - xv) / max(1.0, abs(xv))
                        if worst is None or dev > worst[0]:
                            worst = (dev, z_, gv, xv)
                if worst is None:
                    undecided_regions.append(region)
                elif worst[0] > 1e-6:
                    problems.append(f"{name} part on the region [{region}] differs from the published form: {worst[2]:.8g} vs {worst[3]:.8g} at z = {float(worst[1])!r}")
        if undecided_regions and not problems:
            rep.undecided("C04.nlo", site, construct, f"piecewise kernel: no sample point found in the region(s) {undecided_regions[:2]}")
            continue
        rep.check(not problems, "C04.nlo", site, construct, f"== published NLO {kind} {role} coefficient for all z, nf", "; ".join(problems)[:500], key=f"{kind}|{role}")
    rep.floor("NLO class instances", n, 18)


def tanh_sinh(f, h=1.0 / 32, n=170):
    s = 0.0
    for i in range(-n, n + 1):
        u = i * h
        w = math.pi / 2 * math.sinh(u)
        if abs(w) > 340:
            continue
        e2 = math.exp(-2 * w)
        xx = 1 / (1 + e2)
        lx = -math.log1p(e2)
        lt = -math.log1p(math.exp(2 * w))
        if xx >= 1.0 or xx <= 0.0:
            continue  # beyond double precision: the weight there is < 1e-300
        wgt = math.pi / 2 * math.cosh(u) * h * (2 * e2 / (1 + e2) ** 2)
        s += wgt * f(xx, lx, lt)
    return s


def first_moment(reg, loc, nf):
    def f(xx, lx, lt):
        return A.evalf(reg, {"x": xx, "log(x)": lx, "log(1 - x)": lt, "nf": nf})

    m = tanh_sinh(f) if reg is not None else 0.0
    if loc is not None:
        m += A.evalf(A.subs(A.to_rat(loc), {"x": A.Rat.const(0)}), {"nf": nf})
    return m


def tanh_sinh_ab(f, a, b, h=1.0 / 32, n=170):
    """int_a^b f with f(x, log x, log(1-x)); end-point logarithms are formed without cancellation."""
    s = 0.0
    w_ab = b - a
    for i in range(-n, n + 1):
        u = i * h
        w = math.pi / 2 * math.sinh(u)
        if abs(w) > 340:
            continue
        e2 = math.exp(-2 * w)
        t = 1 / (1 + e2)  # in (0, 1)
        omt = e2 / (1 + e2)  # 1 - t, accurate
        if t >= 1.0 or t <= 0.0 or omt <= 0.0:
            continue
        xx = a + w_ab * t
        one_m_x = (1 - b) + w_ab * omt
        if xx <= 0.0 or one_m_x <= 0.0:
            continue
        lx = math.log(w_ab * t) if a == 0.0 else math.log(xx)
        lt = math.log(w_ab * omt) if b == 1.0 else math.log(one_m_x)
        wgt = math.pi / 2 * math.cosh(u) * h * (2 * e2 / (1 + e2) ** 2) * w_ab
        s += wgt * f(xx, lx, lt)
    return s


def first_moment_piecewise(reg_regimes, loc_regimes, nf):
    """First moment of a piecewise regular part: each piece integrated over the interval on which its conditions hold."""
    bps = [0.0] + P.regime_breakpoints(reg_regimes, "x") + [1.0]
    m = 0.0
    for a, b in zip(bps[:-1], bps[1:]):
        mid = 0.5 * (a + b)
        piece = [val for conds, val in reg_regimes if all(P.condition_holds(c_, mid, "x") for c_ in conds)]
        if len(piece) != 1:
            raise A.Undecided(f"{len(piece)} pieces of the regular part claim the interval ({a:g}, {b:g})")
        if piece[0] is None:
            continue
        r = A.to_rat(piece[0])
        m += tanh_sinh_ab(lambda xx, lx, lt: A.evalf(r, {"x": xx, "log(x)": lx, "log(1 - x)": lt, "nf": nf}), a, b)
    # loc(0): the piece whose conditions hold at the lower end
    at0 = [val for conds, val in loc_regimes if all(P.condition_holds(c_, 1e-12, "x") for c_ in conds)]
    if len(at0) != 1:
        raise A.Undecided("local part: no unique piece at x = 0")
    if at0[0] is not None:
        m += A.evalf(A.subs(A.to_rat(at0[0]), {"x": A.Rat.const(0)}), {"nf": nf})
    return m


# (module, class, order) -> (target function of nf, absolute tolerance, name)
def moment_targets():
    out = []
    tol = {1: 1e-8, 2: 2e-2, 3: 0.5}
    for k in (1, 2, 3):
        out.append(("f2_cc", "NonSingletOdd", k, lambda nf: 0.0, {1: 1e-8, 2: 5e-3, 3: 0.3}[k], "Adler sum rule (nu - nubar F2)"))
        out.append(("f3_nc", "NonSinglet", k, lambda nf, k=k: N.gls(k, nf), tol[k], "Gross-Llewellyn-Smith non-singlet coefficient"))
        out.append(("f3_cc", "NonSingletOdd", k, lambda nf, k=k: N.gls(k, nf), tol[k], "Gross-Llewellyn-Smith non-singlet coefficient (CC, nu + nubar)"))
        if k <= 2:
            out.append(("g1_nc", "NonSinglet", k, lambda nf, k=k: N.gls(k, nf), tol[k], "Bjorken sum rule coefficient"))
    return out


def check_moments(rep, proj, tier):
    sym = P.Sym()
    ev = S.Evaluator(proj)
    n = 0
    for mod, cname, k, target, tol, what in moment_targets():
        c = proj.cls(L + mod, cname)
        construct = f"{c.fq}.{P.ORDER_METHODS[k]}"
        try:
            obj = P.instantiate(ev, c, sym)
            r = P.fold_order(ev, obj, k)
            if r.status != "rsl":
                rep.bad("C04.mom", c.site, construct, f"coefficient function of order {k} is missing ({r.status}): the {what} cannot hold", key=what)
                continue
            reg_regimes = P.eval_part_regimes(ev, r.rsl, "reg", sym.z)
            loc_regimes = P.eval_part_regimes(ev, r.rsl, "loc", sym.z)
        except (A.Undecided, S.Raised) as e:
            rep.undecided("C04.mom", c.site, construct, f"not foldable: {e}")
            continue
        piecewise = len(reg_regimes) > 1 or len(loc_regimes) > 1 or reg_regimes[0][0] or loc_regimes[0][0]
        reg, loc = reg_regimes[0][1], loc_regimes[0][1]
        site = r.method.site if r.method is not None else c.site
        worst = None
        try:
            for nf in (3, 4, 5, 6):
                if piecewise:
                    m = first_moment_piecewise(reg_regimes, loc_regimes, nf)
                else:
                    m = first_moment(A.to_rat(reg) if reg is not None else None, loc, nf)
                d = abs(m - target(nf))
                if worst is None or d > worst[0]:
                    worst = (d, nf, m, target(nf))
        except (A.Undecided, ValueError, OverflowError, ZeroDivisionError) as e:
            rep.undecided("C04.mom", site, construct, f"moment of the normal form not computable: {e}")
            continue
        n += 1
        d, nf, m, t = worst
        rep.check(d <= tol, "C04.mom", site, construct, f"{what}: first moment within {tol:g} of the exact coefficient for nf = 3..6 (worst: nf={nf}, {m:.6f} vs {t:.6f})",
                  f"{what} violated: first moment {m:.5f} at nf = {nf}, exact value {t:.5f} (|diff| = {d:.3g} > {tol:g})", key=what, data=dict(nf=nf, moment=m, target=t))
    rep.floor("first moments computed", n, 10)


def kernel(ev, proj, mod, name):
    x, nf = A.sym("x", True), A.sym("nf", True)
    f = proj.func(L + mod, name)
    return f, A.to_rat(S.num_norm(ev.call(S.FuncVal(ev, f), [x, S.Arr([nf])], {})))


def check_siblings(rep, proj):
    ev = S.Evaluator(proj)
    for (m1, f1), (m2, f2), what in (
        (("nnlo.xc2ns2p", "c2ns2b"), ("nnlo.xc3ns2p", "c3ns2b"), "NNLO"),
        (("n3lo.xc2ns3p", "c2ns3b_fl2"), ("n3lo.xc3ns3p", "c3ns3b"), "N3LO"),
    ):
        try:
            fa, a = kernel(ev, proj, m1, f1)
            fb, b = kernel(ev, proj, m2, f2)
        except (A.Undecided, S.Raised) as e:
            rep.undecided("C04.soft", "", f"{f1}/{f2}", str(e))
            continue
        d = A.difference(a, b)
        rep.check(not d, "C04.soft", fa.site, f"{fa.fq} == {fb.fq}", f"F2 and F3 share the {what} threshold kernel (universal soft logarithms)",
                  f"{what} singular kernels of F2 and F3 differ: {A.fmt_diffs(d, 3)}", key=what)
    for mod, f1, f2 in (("nnlo.xc2ns2p", "c2nn2a", "c2nc2a"), ("nnlo.xc3ns2p", "c3nm2a", "c3np2a"), ("nnlo.xclns2p", "clnn2a", "clnc2a")):
        try:
            fa, a = kernel(ev, proj, mod, f1)
            fb, b = kernel(ev, proj, mod, f2)
        except (A.Undecided, S.Raised) as e:
            rep.undecided("C04.sib", "", f"{f1}/{f2}", str(e))
            continue
        d = a - b
        nf_terms = [m for m in d.n.t if any(at == "nf" for at, _ in m)]
        # tolerate transcription rounding on the nf terms
        big = [m for m in nf_terms if abs(d.n.t[m][0]) > Fraction(5, 100000) * d.n.t[m][1]]
        rep.check(not big, "C04.sib", fa.site, f"{fa.fq} - {fb.fq}", "nu+nubar and nu-nubar regular kernels differ by an nf-independent function",
                  f"difference depends on nf in {len(big)} monomial(s): one of the two siblings was edited", key=f"{f1}|{f2}")


def run(rep, proj, tier):
    rep.explanation = (
        "Decides: the NLO distribution (regular, singular, local part) of every light partonic-channel class of F2, FL, F3, g1 (NC, CC even/odd), "
        "folded through the MRO, equals the published closed form for all z and nf, and no NLO term exists where the literature has none; the "
        "first moment int_0^1 reg dz + loc(0) of the normal form read from the source (closed-form integration by tanh-sinh quadrature of the "
        "normal form - no repository code runs) reproduces Adler (0) for nu-nubar F2 at orders 1..3 and the Gross-Llewellyn-Smith/Bjorken "
        "non-singlet coefficients for F3 (orders 1..3) and g1 (1..2), nf = 3..6, within the accuracy of the published parametrisations "
        "(1e-8 / 2e-2 / 0.5 absolute); F2 and F3 share their NNLO/N3LO threshold kernels; nu+nubar / nu-nubar siblings differ by an nf-independent "
        "function. NOT decided: higher Mellin moments; singlet/gluon parametrisations beyond NLO."
    )
    rep.rule_text = "instances: 21 (class, NLO) pairs, 11 (class, order) moments x nf 3..6, 5 sibling pairs; distinct by construct."
    rep.trusted_base = ["CPython ast", "yadsa normaliser", "spec/nlo.py (published NLO coefficient functions and sum-rule coefficients, transcribed independently of the code)",
                        "tanh-sinh quadrature of normal forms in rules/c04.py"]
    rep.assumptions = ["moment tolerances reflect the stated accuracy of the Vogt et al. parametrisations (observed residuals on the pinned tree: <= 9e-3 at NNLO, <= 0.09 at N3LO, growing with nf)"]
    check_nlo(rep, proj)
    check_moments(rep, proj, tier)
    check_siblings(rep, proj)
