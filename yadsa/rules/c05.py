"""C05 - scale-variation terms obey the renormalisation-group equations.

Decided end to end on partially evaluated operators: for every cell (kinds x
heavyness x processes x schemes x PTO x the four switch combinations) every
scale-variation key (k, 0, i, j) of the folded operator equals, entry by entry,
the coefficient of a^k tR^i tF^j in the RGE solution built *by the checker*
from the folded central-scale coefficients c_k = op[(k,0,0,0)]:

   F = sum_k a_F^k Cc_k(tF) (x) f(muF),      a_F = a + b0 L a^2 + (b1 L + b0^2 L^2) a^3,   L = tF - tR
   Cc_0 = c_0,  Cc_1 = c_1 + tF c_0 P0,
   Cc_2 = c_2 + tF [c_1 (P0 - b0) + c_0 P1] + tF^2/2 c_0 (P0 P0 - b0 P0),   Cc_3 = c_3

(tR = ln(1/xiR^2), tF = ln(1/xiF^2), a = a_s(muR); derived from da/dlnmu^2 = -b0 a^2 - b1 a^3 and
df/dlnmu^2 = (a P0 + a^2 P1) f; switching a variation off sets its logarithm to zero; intrinsic
heavy-quark rows carry no factorisation logarithms).  The action "c P" is
sum_sector (c . Proj_sector) x M_label with the sector -> splitting-label tables of the DGLAP
equations written in the checker, eko's projectors, and M_label the opaque discretised kernel of
the function registered under that label.  Not decided: the regular parts of the splitting kernels.
"""

from __future__ import annotations

import ast
import itertools
import re
from fractions import Fraction

from .. import algebra as A
from .. import opmodel as O
from .. import runmodel as R
from .. import sweep
from .. import symeval as S

NSM, NSP, NSV = (10201, 0), (10101, 0), (10200, 0)
QQ, QG, GQ, GG = (100, 100), (100, 21), (21, 100), (21, 21)

# DGLAP sector tables (the oracle): which splitting kernel evolves which sector
P0_TABLE = {NSM: ["P_qq_0"], NSP: ["P_qq_0"], NSV: ["P_qq_0"], QQ: ["P_qq_0"], QG: ["P_qg_0"], GQ: ["P_gq_0"], GG: ["P_gg_0"]}
P1_TABLE = {NSM: ["P_nsm_1"], NSP: ["P_nsp_1"], NSV: ["P_nsm_1"], QQ: ["P_qq_1"], QG: ["P_qg_1"], GQ: ["P_gq_1"], GG: ["P_gg_1"]}
# (P0 x P0) in the singlet sector is a 2x2 matrix product; non-singlet sectors are scalar
P0P0_TABLE = {
    NSM: ["P_qq_0^2"], NSP: ["P_qq_0^2"], NSV: ["P_qq_0^2"],
    QQ: ["P_qq_0^2", "P_qg_0P_gq_0"], QG: ["P_qq_0P_qg_0", "P_qg_0P_gg_0"],
    GQ: ["P_gq_0P_qq_0", "P_gg_0P_gq_0"], GG: ["P_gq_0P_qg_0", "P_gg_0^2"],
}


class Missing(Exception):
    pass


def label_matrices(ev, proj, nf, n):
    """label -> n x n matrix of the opaque discretised kernel atoms, as the summaries produce them."""
    split = proj.module("yadism.coefficient_functions.splitting_functions")
    raw = ev.module_global(split, "raw_labels")
    out = {}
    for order_labels in raw:
        for label, fnc in order_labels.items():
            rsl = ev.call(fnc, [nf], {})
            key = R.rsl_key(rsl)
            out[label] = [[A.opaque("convop", (key, l, k)) for k in range(n)] for l in range(n)]
    return out


def zero_rows(npid, n):
    return [[A.Rat.const(0)] * n for _ in range(npid)]


def add_rows(a, b, fa=1, fb=1):
    return [[A.to_rat(x) * fa + A.to_rat(y) * fb for x, y in zip(ra, rb)] for ra, rb in zip(a, b)]


def scale_rows(a, f):
    return [[A.to_rat(x) * f for x in r] for r in a]


def is_zero_rows(a):
    return all(A.to_rat(x).n.is_zero() for r in a for x in r)


def act(c, table, projs, adb, mats, n):
    """(c P)[p', l] = sum_ad sum_p c[p, k] Proj_ad[p, p'] M_ad[l, k]."""
    npid = len(c)
    res = zero_rows(npid, n)
    for ia, ad in enumerate(adb):
        P = projs[ia]
        # v[p'][k] = sum_p c[p][k] P[p][p']
        v = zero_rows(npid, n)
        nz = False
        for p in range(npid):
            for pp in range(npid):
                w = P[p][pp]
                if w == 0:
                    continue
                for k in range(n):
                    if not A.to_rat(c[p][k]).n.is_zero():
                        v[pp][k] = v[pp][k] + A.to_rat(c[p][k]) * w
                        nz = True
        if not nz:
            continue
        for label in table[ad]:
            if label not in mats:
                raise Missing(f"the RGE needs the kernel '{label}' in sector {ad}, which the splitting registry does not provide")
            M = mats[label]
            for pp in range(npid):
                for l in range(n):
                    s = res[pp][l]
                    for k in range(n):
                        if not A.to_rat(v[pp][k]).n.is_zero():
                            s = s + A.to_rat(M[l][k]) * v[pp][k]
                    res[pp][l] = s
    return res


def expected_keys(c, pto, ren, fact, b0, b1, projs, adb, mats, n, heavy_rows):
    """RGE solution expanded: returns {(k,0,i,j): rows}."""
    npid = len(c[0])
    Z = zero_rows(npid, n)

    def A_(x, t):
        return act(x, t, projs, adb, mats, n)

    # common-scale polynomials Cc_k as dict power-of-tF -> rows
    Cc = {0: {0: c[0]}}
    if pto >= 1:
        Cc[1] = {0: c[1]}
        if fact:
            Cc[1][1] = A_(c[0], P0_TABLE)
    if pto >= 2:
        Cc[2] = {0: c[2]}
        if fact:
            t1 = add_rows(add_rows(A_(c[1], P0_TABLE), c[1], 1, -b0), A_(c[0], P1_TABLE))
            t2 = scale_rows(add_rows(A_(c[0], P0P0_TABLE), A_(c[0], P0_TABLE), 1, -b0), Fraction(1, 2))
            Cc[2][1] = t1
            Cc[2][2] = t2
    if pto >= 3:
        Cc[3] = {0: c[3]}
    # a_F^k as polynomials in a with coefficients polynomial in L: {power of a: {power of L: coeff}}
    one = A.Rat.const(1)
    aF = {1: {1: {0: one}, 2: {1: b0}, 3: {1: b1, 2: b0 * b0}},
          2: {2: {0: one}, 3: {1: b0 * 2}},
          3: {3: {0: one}},
          0: {0: {0: one}}}
    out = {}

    def addkey(key, rows):
        out[key] = add_rows(out[key], rows) if key in out else rows

    import math

    for k, poly in Cc.items():
        for m, lpoly in aF[k].items():
            if m > pto:
                continue
            for lp, coeff in lpoly.items():
                # L^lp = (tF - tR)^lp with tF -> 0 if fact off, tR -> 0 if ren off
                for jt, rows in poly.items():
                    for r in range(lp + 1):  # r = power of tR
                        if r > 0 and not ren:
                            continue
                        if lp - r > 0 and not fact:
                            continue
                        if lp > 0 and not (ren or fact):
                            continue
                        binom = math.comb(lp, r) * (-1) ** r
                        addkey((m, 0, r, jt + lp - r), scale_rows(rows, A.to_rat(coeff) * binom))
    # intrinsic heavy-quark rows: no factorisation logarithms at all
    if heavy_rows:
        for key in list(out):
            if key[3] != 0:
                for p in heavy_rows:
                    out[key][p] = [A.Rat.const(0)] * n
        # and their tR terms are those of the fact-off expansion: recompute those rows with fact switched off
        if fact:
            off = expected_keys(c, pto, ren, False, b0, b1, projs, adb, mats, n, [])
            for key in set(out) | set(off):
                if key[3] == 0:
                    base = out.get(key, zero_rows(npid, n))
                    for p in heavy_rows:
                        base[p] = off.get(key, zero_rows(npid, n))[p]
                    out[key] = base
    return out


def _job(kw):
    from .. import model

    proj = model.project()
    cell = R.Cell(**kw)
    try:
        op = O.fold_op(proj, cell)
    except O.FoldFailure as f:
        return ("fold", f.outcome.status, f"{f.outcome.etype} {f.outcome.msg}"[:160], f.outcome.site, f.outcome.construct)
    ev = op.ev
    n = R.GRID_N
    nf = cell.nf if cell.fns == "ZM-VFNS" else cell.nfff
    pto, ren, fact = cell.pto, cell.ren_sv, cell.fact_sv
    pids = op.pids
    npid = len(pids)
    c = {}
    for k in range(pto + 1):
        key = (k, 0, 0, 0)
        c[k] = [[A.to_rat(x) for x in row] for row in op.orders[key][0]] if key in op.orders else zero_rows(npid, n)
    b0 = A.opaque("beta0", (nf,))
    b1 = A.opaque("beta1", (nf,))
    adp = R._ad_projectors_factory(ev)
    projs = adp(ev, nf).data
    br = S._ext_module("eko.basis_rotation")
    adb = list(ev.module_global(br, "anomalous_dimensions_basis"))
    try:
        mats = label_matrices(ev, proj, nf, n)
    except (A.Undecided, S.Raised) as e:
        return ("fold", "undecided", f"splitting registry not foldable: {e}", "", "")
    # rows of quarks that are massive in this scheme receive intrinsic contributions only
    heavy_rows = []
    if cell.fns != "ZM-VFNS":
        for h in (4, 5, 6):
            if h > nf:
                heavy_rows += [pids.index(h), pids.index(-h)]
    try:
        exp = expected_keys(c, pto, ren, fact, b0, b1, projs, adb, mats, n, heavy_rows)
    except Missing as m:
        return ("missing", str(m))
    bad = []
    ncmp = 0
    skipped_n3lo = 0
    for key in sorted(set(exp) | set(op.keys())):
        if key[2] == 0 and key[3] == 0:
            continue
        if fact and key[0] >= 3:
            skipped_n3lo += 1  # factorisation-scale terms at a^3 are outside the property's quantifier (PTO 1..2 for muF)
            continue
        rows = exp.get(key, zero_rows(npid, n))
        for p in range(npid):
            for j in range(n):
                ncmp += 1
                got = op.entry(key, pids[p], j)
                if not O.same(got, rows[p][j]):
                    bad.append((key, pids[p], j, O.diff_text(got, rows[p][j])))
    # renormalisation-scale consistency of the operator with itself, for every power of the factorisation logarithm (this is inside
    # the muR part of the quantifier also where the muF content at a^3 is not): a(muR) runs with da/dtR = b0 a^2 + b1 a^3 for
    # tR = ln(1/xiR^2), so independence of muR order by order gives  i O[k,i,f] = - sum_{k'<k} k' beta_{k-k'-1} O[k',i-1,f]
    if ren:
        betas = {0: b0, 1: b1}
        for key in sorted(op.keys()):
            k, _, i, f = key
            if i == 0 or k > 3:
                continue
            for p in range(npid):
                for j in range(n):
                    rhs = A.Rat.const(0)
                    for kp in range(1, k):
                        bi = k - kp - 1
                        if bi in betas:
                            rhs = rhs - betas[bi] * kp * A.to_rat(op.entry((kp, 0, i - 1, f), pids[p], j))
                    ncmp += 1
                    got = A.to_rat(op.entry(key, pids[p], j)) * i
                    if not O.same(got, rhs):
                        bad.append((key, pids[p], j, "muR consistency i O[k,i,f] = -sum k' beta O[k',i-1,f] fails: " + O.diff_text(got, rhs)))
    return ("cmp", ncmp, bad[:3], len(bad), skipped_n3lo, sorted(k for k in exp if (k[2] or k[3])))


def jobs(tier):
    out = []
    kinds = ["F2", "FL", "F3", "g1"] if tier == "quick" else ["F2", "FL", "F3", "g1", "gL", "g4"]
    schemes = [("ZM-VFNS", 4, 4), ("ZM-VFNS", 4, 5), ("FFNS", 3, None), ("FFN0", 3, None), ("FONLL-FFNS", 4, None)]
    for kind, fl, proc, (fns, nfff, nf), pto, (ren, fact) in itertools.product(
        kinds, ["total", "light", "charm"], ["NC", "CC"], schemes, [1, 2, 3], [(True, True), (True, False), (False, True), (False, False)]
    ):
        if proc == "CC" and kind in ("g1", "gL", "g4"):
            continue
        if tier == "quick":
            if fl == "light" and (fns != "ZM-VFNS" or nf != 4):
                continue
            if proc == "CC" and kind not in ("F2", "F3"):
                continue
            if pto == 3 and not (ren and not fact) and not (kind == "F2" and fl == "total"):
                continue
            if (ren, fact) == (False, False) and not (kind == "F2" and pto == 2):
                continue
        out.append(dict(obs=f"{kind}_{fl}", process=proc, fns=fns, nfff=nfff, nf=nf, pto=pto,
                        projectile="neutrino" if proc == "CC" else "electron", ren_sv=ren, fact_sv=fact))
    # the DIS order (PTODIS) may differ from the evolution order (PTO): the logarithmic terms follow the DIS order
    for kind, (fns, nfff, nf), (pto, pto_evol) in itertools.product(["F2", "F3"] if tier == "quick" else kinds, schemes, [(1, 0), (2, 1), (1, 2), (2, 0)]):
        if tier == "quick" and kind == "F3" and fns != "ZM-VFNS":
            continue
        out.append(dict(obs=f"{kind}_total", process="NC", fns=fns, nfff=nfff, nf=nf, pto=pto, pto_evol=pto_evol, projectile="electron", ren_sv=True, fact_sv=True))
    return out


def check_labels(rep, proj):
    """Registry sanity: a function registered under label L must not carry the name of another label."""
    mods = [proj.module("yadism.coefficient_functions.splitting_functions.lo"), proj.module("yadism.coefficient_functions.splitting_functions.nlo")]
    norm = lambda s: re.sub(r"[^a-z0-9]", "", s.lower())
    entries = []
    for m in mods:
        for st in m.tree.body:
            if isinstance(st, ast.Assign) and any(isinstance(t, ast.Name) and t.id == "raw_labels" for t in st.targets) and isinstance(st.value, ast.Dict):
                for k, v in zip(st.value.keys, st.value.values):
                    if isinstance(k, ast.Constant) and isinstance(v, ast.Name):
                        entries.append((m, st, k.value, v.id))
    names = {norm(l): l for _, _, l, _ in entries}
    for m, st, label, fname in entries:
        spelled = norm(label).replace("^2", "2")
        fn = norm(fname)
        # e.g. P_qq_0 -> pqq ; P_qq_0^2 -> pqq02 ; P_nsp_1 -> pnsp1
        other = [l for nl, l in names.items() if l != label and (nl == fn or nl.rstrip("0") == fn)]
        ok = not other
        rep.check(ok, "C05.labels", f"{m.relpath}:{st.lineno}", f"{m.name}::raw_labels[{label}]",
                  f"registered function {fname}", f"label {label} is served by {fname}, which spells the label {other}", key=label)
    return len(entries)


def run(rep, proj, tier):
    rep.explanation = (
        "Decides the RGE structure end to end on partially evaluated operators: for every cell every scale-variation key (k,0,i,j) of the folded "
        "operator equals entry by entry the coefficient of a^k tR^i tF^j in the renormalisation-group solution that the checker builds from the "
        "folded central coefficients, the QCD beta coefficients (opaque beta0, beta1), eko's sector projectors and the DGLAP sector -> splitting "
        "kernel tables written in the checker (common-scale solution to a^2, re-expansion of a_s(muF) in a_s(muR) to a^3). The four switch "
        "combinations must equal the same solution with the corresponding logarithm set to zero; rows fed by intrinsic kernels carry no "
        "factorisation logarithms. NOT decided: regular parts of the splitting kernels (a label is trusted to denote the kernel it names); "
        "factorisation-scale terms at a^3 (outside the property's quantifier, counted)."
    )
    rep.rule_text = "cells from literal domains; entries = SV order key x parton row x basis node; distinct by cell label; non-trivial = cell has scale-variation keys."
    rep.trusted_base = ["CPython ast", "yadsa partial evaluator and summaries", "eko.basis_rotation projectors (recomputed from eko's constants)",
                        "the RGE derivation in this module's docstring"]
    rep.assumptions = ["rows of quarks that are massive in the scheme receive contributions from intrinsic kernels only",
                       "heavy coefficient functions folded above threshold"]
    from . import state

    state.check(rep, proj, "C05.state", module_filter=lambda m: m.name.startswith(('yadism.esf.scale_variations', 'yadism.coefficient_functions.splitting_functions')), floor=1)
    # the variation terms of a point are those of THAT point's number of flavours, whichever points the runner served before and whichever
    # of the two variations is switched on (what one variation's code path refreshes, the other's must not rely on)
    from . import c06

    c06.check_history(rep, proj, tier, rule="C05.history")
    nlab = check_labels(rep, proj)
    rep.floor("splitting labels", nlab, 10)
    js = jobs(tier)
    outs = sweep.run_cells(_job, js)
    n_entries = 0
    n3 = 0
    seen_keys = set()
    for kw, o in zip(js, outs):
        label = R.Cell(**kw).label() + f"|ren={kw['ren_sv']}|fact={kw['fact_sv']}"
        if o[0] == "fold":
            _, status, msg, site, construct = o
            if status == "rejected":
                rep.ok("C05.rge", site, label, f"configuration explicitly rejected ({msg[:60]})")
            elif status == "internal":
                rep.bad("C05.rge", site, construct or label, f"folding the scale-varied run ends in an internal error ({msg}); e.g. {label}", key=msg[:60])
            else:
                rep.undecided("C05.rge", site, label, f"not foldable: {msg}")
            continue
        if o[0] == "missing":
            rep.bad("C05.rge", "src/yadism/coefficient_functions/splitting_functions/__init__.py", label, o[1], key="missing-label")
            continue
        _, n, bad, nbad, skipped, keys = o
        n_entries += n
        n3 += skipped
        seen_keys.update(keys)
        if nbad == 0:
            rep.ok("C05.rge", "", label, f"{n} scale-variation entries equal the RGE solution (keys {keys})")
        else:
            key, pid, j, txt = bad[0]
            rep.bad("C05.rge", "src/yadism/esf/scale_variations.py", label,
                    f"{nbad} of {n} scale-variation entries differ from the RGE solution, e.g. order {key} pid {pid} node {j}: {txt[:300]}", key=label)
    rep.info["entries_compared"] = n_entries
    rep.info["a3_factorisation_keys_skipped"] = n3
    rep.info["sv_keys_seen"] = sorted(seen_keys)
    rep.floor("RGE cells", len(js), 150)
    rep.floor("scale-variation entries compared", n_entries, 20000)
    rep.floor("distinct scale-variation keys", len(seen_keys), 8)
