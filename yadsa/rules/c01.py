"""C01 - operator entries are x times the convolution of the coefficient function with the basis.

The quadrature itself is numerical and NOT decided.  Decided is its wiring, by folding the
repository's own conv.py and compute_local with scipy's quad, eko's basis evaluation and the
kernels opaque:
  (integrand) for the 8 presence combinations of (reg, sing, loc) x log/linear basis the integrand
      handed to quad equals  reg(z; args_reg) f(x/z)/z + sing(z; args_sing) (f(x/z)/z - f(x)),
      each part called with its own argument vector, f evaluated in the basis' own mode;
  (domain) integration limits x (1+eps) .. min(max(x/borders), 1) (1-eps), breakpoints x/borders
      (borders exponentiated in log mode), absolute tolerance passed; empty domains give (0, 0);
  (local) the returned value is the integral plus loc(x; args_loc) f(x), evaluated at the
      convolution point;
  (vector) convolve_vector / convolve_operator visit every basis function (and grid point) once,
      in order, with the same kernel and point; the last diagonal element of the operator is skipped;
  (point) in every partially evaluated operator entry each quadrature atom sits in column j of its
      own basis index j and is multiplied by exactly its own convolution point (the factor x of the
      left-hand side: x for massless/NC, x (1+m^2/Q^2) for CC heavy, x/eta for intrinsic);
      values and errors carry the same quadratures.
"""

from __future__ import annotations

import ast
import itertools
from fractions import Fraction

from .. import algebra as A
from .. import opmodel as O
from .. import runmodel as R
from .. import sweep
from .. import symeval as S
from ..model import AnalysisError

CONV = "yadism.esf.conv"


class Probe:
    """Folds conv.convolution on probe objects and records what reaches scipy.integrate.quad."""

    def __init__(self, proj, has_reg, has_sing, has_loc, log_mode, x, borders):
        self.proj = proj
        self.calls = []
        self.x = x
        z = A.sym("zq", True)
        self.z = z
        self.log_mode = log_mode
        self.borders = borders

        def kernel(name):
            def k(zz, args, _n=name):
                items = args.data if isinstance(args, S.Arr) else (list(args) if isinstance(args, (list, tuple)) else [args])
                return A.opaque(_n, (S.num_norm(zz), tuple(S.num_norm(a) if not callable(a) else "<callable>" for a in items)))

            return S._NativeFn(k)

        self.rarg, self.sarg, self.larg = A.sym("ARG_reg"), A.sym("ARG_sing"), A.sym("ARG_loc")
        self.rsl = S.record("rsl", reg=kernel("REG") if has_reg else None, sing=kernel("SING") if has_sing else None,
                            loc=kernel("LOC") if has_loc else None,
                            args={"reg": S.Arr([self.rarg]), "sing": S.Arr([self.sarg]), "loc": S.Arr([self.larg])})
        areas = []
        for lo, hi in zip(borders[:-1], borders[1:]):
            if log_mode:
                areas.append(S.record("area", xmin=A.fn_log(A.Rat.const(lo)), xmax=A.fn_log(A.Rat.const(hi))))
            else:
                areas.append(S.record("area", xmin=lo, xmax=hi))
        # eko's areas_representation: one row [xmin, xmax, coefficients...] per area, the same (log) borders as the areas
        self.areas_repr = S.Arr([[ar.attrs["xmin"], ar.attrs["xmax"], A.sym(f"AC{i}_0"), A.sym(f"AC{i}_1")] for i, ar in enumerate(areas)])
        self.areas_label = "AREAS_REPR"
        self.snapshot = lambda: (tuple(A.canon(S.num_norm(v)) for v in self.areas_repr.flat()),
                                 tuple((A.canon(S.num_norm(ar.attrs["xmin"])), A.canon(S.num_norm(ar.attrs["xmax"]))) for ar in areas))
        pdf = S.record("pdf_func", areas=areas, _mode_log=log_mode, areas_representation=self.areas_repr,
                       is_below_x=S._NativeFn(lambda xx: False))
        # calling the basis function: f(x)
        self.pdf = pdf
        self.pdf_call = lambda xx: A.opaque("BASIS_AT", (S.num_norm(xx),))

        def quad(ev, func, a, b, args=(), epsabs=None, points=None, **kw):
            integrand = ev.call(func, [z, *list(args)], {})
            self.calls.append(dict(integrand=S.num_norm(integrand), a=S.num_norm(a), b=S.num_norm(b), epsabs=epsabs,
                                   points=points, extra=sorted(kw)))
            return (A.opaque("QUAD", ()), A.opaque("QUADERR", ()))

        def uniq(ev, lst):
            vals = [S.num_norm(v) for v in (lst.data if isinstance(lst, S.Arr) else lst)]
            out = []
            for v in vals:
                if not any(A.canon(v) == A.canon(o) for o in out):
                    out.append(v)
            return S.Arr(out)

        ext = {
            "scipy.integrate.quad": quad,
            "numpy.unique": uniq,
            "eko.interpolation.evaluate_x": lambda ev, xx, ar: A.opaque("BASIS_LIN", (S.num_norm(xx), self._repr_label(ar))),
            "eko.interpolation.log_evaluate_x": lambda ev, xx, ar: A.opaque("BASIS_LOG", (S.num_norm(xx), self._repr_label(ar))),
        }
        self.ev = S.Evaluator(proj, lenient_ext=True, ext_calls=ext)
        # the basis function object must be callable
        callcls = None
        pdf.attrs["__call_hook__"] = True
        self.ext = ext

    def _repr_label(self, ar):
        """The areas representation handed to eko's evaluation: the basis function's own table, unchanged."""
        if ar is self.areas_repr and self.snapshot() == self.initial:
            return self.areas_label
        if isinstance(ar, S.Arr):
            return "OTHER_TABLE[" + ",".join(A.canon(S.num_norm(v))[:20] for v in ar.flat())[:120] + "]"
        return A.canon(ar)

    def run(self):
        self.initial = self.snapshot()
        conv = self.proj.func(CONV, "convolution")
        ev = self.ev
        pdf = self.pdf

        class CallablePdf(S.ObjVal):
            pass

        # make the record callable: wrap in a native function with attribute access delegated
        orig_call = ev.call

        def call(f, args, kwargs, node=None):
            if f is pdf:
                return self.pdf_call(*args)
            return orig_call(f, args, kwargs, node)

        ev.call = call
        return ev.call(S.FuncVal(ev, conv), [self.rsl, self.x, pdf], {})


def convolution_outcomes(proj):
    """conv.convolution folded on every shape of distribution (reg / sing / loc present or not, log / linear grid, the probe geometries):
    -> [(label, outcome)] with outcome 'ok' | 'undecided: ...' | 'raises ...'  (used by C16.conv: an internal error is not a rejection)."""
    out = []
    GEOMETRIES = [("inside", Fraction(1, 4), [Fraction(1, 8), Fraction(1, 2), Fraction(1)]), ("single-area", Fraction(1, 4), [Fraction(1, 8), Fraction(1, 2)])]
    for (geo, x, borders), (has_reg, has_sing, has_loc, log_mode) in itertools.product(GEOMETRIES, itertools.product([False, True], repeat=4)):
        label = f"reg={int(has_reg)},sing={int(has_sing)},loc={int(has_loc)},{'log' if log_mode else 'lin'},x {geo}"
        try:
            Probe(proj, has_reg, has_sing, has_loc, log_mode, x, borders).run()
            out.append((label, "ok"))
        except A.Undecided as e:
            out.append((label, f"undecided: {e}"))
        except S.Raised as e:
            out.append((label, f"raises {e}"))
    return out


def check_convolution(rep, proj):
    conv = proj.func(CONV, "convolution")
    mod = proj.module(CONV)
    ev0 = S.Evaluator(proj)
    eps = S.num_norm(ev0.module_global(mod, "eps_integration_border"))
    eps_abs = S.num_norm(ev0.module_global(mod, "eps_integration_abs"))
    rep.check(isinstance(eps, Fraction) and 0 < eps < Fraction(1, 1000), "C01.domain", conv.site, f"{CONV}::eps_integration_border", f"= {float(eps):g}", f"= {eps}")
    n = 0
    # geometries: x inside the support of the basis function; x exactly at its lower end (the function is 1 there for the first
    # polynomial: the plus-distribution subtraction lives on [x, x/xmax]); x strictly below the support (f(x) = 0)
    GEOMETRIES = [("inside", Fraction(1, 4), [Fraction(1, 8), Fraction(1, 2), Fraction(1)]),
                  ("lower-end", Fraction(1, 8), [Fraction(1, 8), Fraction(1, 4), Fraction(1, 2)]),
                  ("below", Fraction(1, 16), [Fraction(1, 8), Fraction(1, 4), Fraction(1, 2)]),
                  ("single-area", Fraction(1, 4), [Fraction(1, 8), Fraction(1, 2)])]  # a basis function supported on one grid cell (first / last of low degree)
    for (geo, x, borders), (has_reg, has_sing, has_loc, log_mode) in itertools.product(GEOMETRIES, itertools.product([False, True], repeat=4)):
        label = f"reg={int(has_reg)},sing={int(has_sing)},loc={int(has_loc)},{'log' if log_mode else 'lin'}" + ("" if geo == "inside" else f",x {geo}")
        construct = f"{conv.fq}[{label}]"
        p = Probe(proj, has_reg, has_sing, has_loc, log_mode, x, borders)
        try:
            res = p.run()
        except A.Undecided as e:
            rep.undecided("C01.integrand", conv.site, construct, f"probe not foldable: {e}", key=label)
            continue
        except S.Raised as e:
            n += 1
            rep.bad("C01.integrand", conv.site, construct, f"folding conv.convolution on the probe raises {e}", key=label)
            continue
        n += 1
        if p.snapshot() != p.initial:
            rep.bad("C01.integrand", conv.site, construct, "conv.convolution changes the basis function it is given (its area borders / areas_representation differ after the call): "
                    "every later convolution with this basis function integrates another function", key=label + "|basis-intact")
            continue
        z = p.z
        basis = "BASIS_LOG" if log_mode else "BASIS_LIN"
        f_ov = A.opaque(basis, (S.num_norm(A.Rat.const(x) / z), p.areas_label)) / z
        f_x = A.opaque("BASIS_AT", (x,))
        exp_int = A.Rat.const(0)
        if has_reg:
            exp_int = exp_int + A.opaque("REG", (z, (p.rarg,))) * f_ov
        if has_sing:
            exp_int = exp_int + A.opaque("SING", (z, (p.sarg,))) * (f_ov - f_x)
        problems = []
        if has_reg or has_sing:
            if len(p.calls) != 1:
                problems.append(f"quad called {len(p.calls)} times")
            else:
                c = p.calls[0]
                if not isinstance(c["integrand"], (A.Rat, int, Fraction)):
                    problems.append(f"integrand is not a scalar: {str(c['integrand'])[:120]}")
                elif not A.equal(A.to_rat(c["integrand"]), exp_int, tol=Fraction(0)):
                    problems.append("integrand differs from reg f(x/z)/z + sing (f(x/z)/z - f(x)) with each part's own arguments: "
                                    + A.fmt_diffs(A.difference(A.to_rat(c["integrand"]), exp_int, tol=Fraction(0)), 2))
                lo = x * (1 + eps)
                zmax = min(max(x / b for b in borders), 1)
                hi = zmax * (1 - eps)
                if geo == "below":
                    # f(x) = 0 and f(x/z) = 0 for z < x/xmax: starting anywhere in [x, x/xmax] is the same integral
                    lo_max = min(x / b for b in borders) * (1 + eps)
                    if isinstance(c["a"], A.Rat) or not (lo <= c["a"] <= lo_max):
                        problems.append(f"lower limit {A.canon(c['a'])[:40]} outside [x, x/xmax] (1+eps)")
                elif isinstance(c["a"], A.Rat) or c["a"] != lo:
                    problems.append(f"lower limit {A.canon(c['a'])[:40]} != x (1+eps)" + (": the subtraction term -f(x) sing(z) on [x, x/xmax] is lost" if geo == "lower-end" else ""))
                if isinstance(c["b"], A.Rat) or c["b"] != hi:
                    problems.append(f"upper limit {A.canon(c['b'])[:40]} != min(max(x/borders), 1) (1-eps)")
                pts = c["points"]
                # as a set: scipy's quad passes np.unique(points) on (repeated break points are the same request)
                pts = sorted({A.canon(S.num_norm(v)) for v in (pts.flat() if isinstance(pts, S.Arr) else (pts or []))})
                if pts != sorted({A.canon(x / b) for b in borders}):
                    problems.append(f"breakpoints {pts} != x/borders {sorted(str(x / b) for b in borders)}")
                if S.num_norm(c["epsabs"]) != eps_abs:
                    problems.append(f"epsabs {c['epsabs']} is not eps_integration_abs")
        else:
            if p.calls:
                problems.append("quad called although there is neither a regular nor a singular part")
        # returned value
        ok_shape = isinstance(res, tuple) and len(res) == 2
        if not ok_shape:
            problems.append(f"returns {type(res).__name__}")
        else:
            val = A.to_rat(S.num_norm(res[0]))
            exp_val = A.opaque("QUAD", ()) if (has_reg or has_sing) else A.Rat.const(0)
            if has_loc:
                exp_val = A.to_rat(exp_val) + A.opaque("LOC", (x, (p.larg,))) * f_x
            if not A.equal(val, A.to_rat(exp_val), tol=Fraction(0)):
                problems.append("returned value != integral + loc(x; args_loc) f(x): " + A.fmt_diffs(A.difference(val, A.to_rat(exp_val), tol=Fraction(0)), 2))
        rule = "C01.integrand"
        rep.check(not problems, rule, conv.site, construct, "integrand, limits, breakpoints, tolerance and local term as derived", "; ".join(problems[:3]), key=label)
    rep.floor("convolution probes folded", n, 44)
    # empty domains
    for xval, what in ((1, "x = 1"), (1 - eps, "x = 1 - eps")):
        p = Probe(proj, True, True, True, False, xval, borders)
        try:
            r = p.run()
            ok = isinstance(r, tuple) and all(S.num_norm(v) == 0 for v in r) and not p.calls
            rep.check(ok, "C01.domain", conv.site, f"{conv.fq}[{what}]", "empty domain gives (0, 0) without integrating", f"returns {r} after {len(p.calls)} quad call(s)", key=what)
        except (A.Undecided, S.Raised) as e:
            rep.bad("C01.domain", conv.site, f"{conv.fq}[{what}]", f"{type(e).__name__}: {e}", key=what)
    p = Probe(proj, True, True, True, False, x, borders)
    p.pdf.attrs["is_below_x"] = S._NativeFn(lambda xx: True)
    try:
        r = p.run()
        ok = isinstance(r, tuple) and all(S.num_norm(v) == 0 for v in r) and not p.calls
        rep.check(ok, "C01.domain", conv.site, f"{conv.fq}[support below x]", "basis function supported below x gives (0, 0)", f"returns {r}", key="below")
    except (A.Undecided, S.Raised) as e:
        rep.bad("C01.domain", conv.site, f"{conv.fq}[support below x]", f"{type(e).__name__}: {e}", key="below")


def check_vectors(rep, proj):
    cv = proj.func(CONV, "convolve_vector")
    co = proj.func(CONV, "convolve_operator")
    calls = []

    def convolution(ev, rsl, x, pdf):
        calls.append((rsl, S.num_norm(x), pdf))
        k = len(calls)
        return (A.opaque("C", (k,)), A.opaque("E", (k,)))

    ev = S.Evaluator(proj, lenient_ext=True)
    ev.summaries[f"{CONV}::convolution"] = convolution
    basis = [S.record(f"bf{j}", poly_number=j) for j in range(3)]
    interp = S.record("interp", xgrid=S.record("xgrid", raw=[A.sym(f"xg{j}", True) for j in range(3)]))
    interp.store["__list__"] = basis
    rsl = S.record("rsl")
    pt = A.sym("POINT", True)
    try:
        r = ev.call(S.FuncVal(ev, cv), [rsl, interp, pt], {})
        ok = len(calls) == 3 and all(c[0] is rsl and A.canon(c[1]) == "POINT" and c[2] is basis[i] for i, c in enumerate(calls))
        vals = r[0].data if isinstance(r, tuple) and isinstance(r[0], S.Arr) else None
        errs = r[1].data if isinstance(r, tuple) and isinstance(r[1], S.Arr) else None
        ok = ok and vals is not None and [A.canon(v) for v in vals] == [f"C({k})" for k in (1, 2, 3)] and [A.canon(v) for v in errs] == [f"E({k})" for k in (1, 2, 3)]
        rep.check(ok, "C01.vector", cv.site, cv.fq, "one convolution per basis function, in order, same kernel and point; values and errors kept apart",
                  f"{len(calls)} convolution calls; values {vals}; errors {errs}")
    except A.Undecided as e:
        rep.undecided("C01.vector", cv.site, cv.fq, str(e))
    except S.Raised as e:
        rep.bad("C01.vector", cv.site, cv.fq, f"{type(e).__name__}: {e}")
    calls.clear()
    try:
        r = ev.call(S.FuncVal(ev, co), [rsl, interp], {})
        exp = [(l, k) for k in range(3) for l in range(3) if not (k == l == 2)]
        got = [(basis.index(c[2]), [A.canon(g) for g in interp.attrs["xgrid"].attrs["raw"]].index(A.canon(c[1]))) for c in calls]
        ok = got == exp and all(c[0] is rsl for c in calls)
        if ok:
            res = r[0].data
            # op_res[l, k] holds the convolution of basis l at grid point k
            for idx, (l, k) in enumerate(exp):
                if A.canon(res[l][k]) != f"C({idx + 1})":
                    ok = False
            if S.num_norm(res[2][2]) != 0:
                ok = False
        rep.check(ok, "C01.vector", co.site, co.fq, "op[l, k] = convolution(kernel, x_k, basis_l) for all (l, k) except the last diagonal element",
                  f"visits {got}")
    except A.Undecided as e:
        rep.undecided("C01.vector", co.site, co.fq, str(e))
    except (S.Raised, ValueError) as e:
        rep.bad("C01.vector", co.site, co.fq, f"{type(e).__name__}: {e}")


def eko_blocks(n, degree):
    """eko.interpolation.InterpolatorDispatcher: the block (kmin, kmax) of grid nodes whose Lagrange polynomials live on the area
    [x_i, x_{i+1}] - symmetric around the area, clipped at the lower edge and SHIFTED at the upper edge (written from eko's documentation
    of the algorithm; agrees with the installed source)."""
    po2 = degree // 2
    if degree % 2 == 0:
        po2 -= 1
    blocks = []
    for i in range(n - 1):
        kmin = max(0, i - po2)
        kmax = kmin + degree
        if kmax >= n:
            kmax = n - 1
            kmin = kmax - degree
        blocks.append((kmin, kmax))
    return blocks


def check_vector_support(rep, proj):
    """convolve_vector on CONCRETE interpolators (7 nodes, degrees 1..4, linear grid, eko's own stencil layout) and convolution points in
    every area and on every node: column j of the result is the convolution with basis function j at that point - unless the support of
    basis function j lies entirely at or below the point, where the convolution is 0 by itself and may be skipped.  (A short cut that finds
    the first contributing polynomial by index arithmetic is accepted exactly when it agrees with the stencil, upper edge included.)"""
    cv = proj.func(CONV, "convolve_vector")
    n = 7
    grid = [Fraction(k + 1, n) for k in range(n)]  # 1/7 ... 1
    points = sorted(set([(a + b) / 2 for a, b in zip(grid[:-1], grid[1:])] + grid[:-1] + [Fraction(1, 14)]))
    decided = 0
    for degree in (1, 2, 3, 4):
        blocks = eko_blocks(n, degree)
        supports = []
        basis = []
        for j in range(n):
            areas_j = [i for i, (kmin, kmax) in enumerate(blocks) if kmin <= j <= kmax]
            supports.append((grid[areas_j[0]], grid[areas_j[-1] + 1]))
            top = grid[areas_j[-1] + 1]
            basis.append(S.record(f"bf{j}", poly_number=j, areas=[S.record("area", xmin=grid[i], xmax=grid[i + 1]) for i in areas_j], _mode_log=False,
                                  is_below_x=S._NativeFn(lambda xx, top=top: bool(top <= S.num_norm(xx)))))
        for pt in points:
            calls = []

            def convolution(ev, rsl, x, pdf, *a, **k):
                calls.append((rsl, S.num_norm(x), pdf))
                j = basis.index(pdf) if pdf in basis else -1
                if j >= 0 and supports[j][1] <= S.num_norm(x):
                    return (0.0, 0.0)  # what the real routine returns for a basis function living below the point
                return (A.opaque("C", (j,)), A.opaque("E", (j,)))

            def searchsorted(ev_, a, v, side="left", sorter=None):
                import bisect

                seq = [S.num_norm(t) for t in (a.data if isinstance(a, S.Arr) else a)]
                v = S.num_norm(v)
                if any(isinstance(t, A.Rat) for t in seq + [v]):
                    raise A.Undecided("searchsorted on symbolic values")
                return (bisect.bisect_left if side == "left" else bisect.bisect_right)(seq, v)

            ev = S.Evaluator(proj, lenient_ext=True, ext_calls={
                "numpy.searchsorted": searchsorted,
                "numpy.digitize": lambda ev_, v, bins, right=False: searchsorted(ev_, bins, v, "left" if right else "right")})
            ev.summaries[f"{CONV}::convolution"] = convolution
            xg = S.record("xgrid", raw=S.Arr(list(grid)), size=n, log=False)
            xg.store["__list__"] = list(grid)
            interp = S.record("interp", xgrid=xg, polynomial_degree=degree, log=False)
            interp.store["__list__"] = basis
            rsl = S.record("rsl")
            construct = f"{cv.fq}[degree {degree}, point {pt} of grid k/7]"
            try:
                r = ev.call(S.FuncVal(ev, cv), [rsl, interp, pt], {})
                vals = list(r[0].data) if isinstance(r, tuple) and isinstance(r[0], S.Arr) else None
                errs = list(r[1].data) if isinstance(r, tuple) and isinstance(r[1], S.Arr) else None
                if vals is None or errs is None or len(vals) != n or len(errs) != n:
                    rep.bad("C01.vector", cv.site, construct, f"does not return one value and one error per basis function: {r}")
                    continue
                wrong = []
                for j in range(n):
                    v, e = A.canon(S.num_norm(vals[j])), A.canon(S.num_norm(errs[j]))
                    live = supports[j][1] > pt
                    if live and (v != f"C({j})" or e != f"E({j})"):
                        wrong.append(f"column {j} (support {supports[j][0]}..{supports[j][1]} reaches above the point) holds {v} / {e}")
                    zero = lambda t: not isinstance(S.num_norm(t), A.Rat) and S.num_norm(t) == 0  # noqa: E731
                    if not live and not ((zero(vals[j]) or v == f"C({j})") and (zero(errs[j]) or e == f"E({j})")):
                        wrong.append(f"column {j} (support entirely below the point) holds {v} / {e}")
                if any(c[0] is not rsl or c[1] != pt for c in calls):
                    wrong.append("a convolution was taken with another kernel or at another point")
                decided += 1
                rep.check(not wrong, "C01.vector", cv.site, construct,
                          "every basis function whose support reaches above the convolution point has its own convolution in its own column",
                          "; ".join(wrong[:3]))
            except A.Undecided as e:
                rep.undecided("C01.vector", cv.site, construct, str(e))
            except S.Raised as e:
                rep.bad("C01.vector", cv.site, construct, f"raises {e.etype}: {e.msg}")
    rep.floor("C01.vector concrete interpolator x point combinations decided", decided, 4 * len(points))


def _point_job(kw):
    from .. import model

    proj = model.project()
    try:
        op = O.fold_op(proj, R.Cell(**kw))
    except O.FoldFailure as f:
        return ("fold", f.outcome.status, f"{f.outcome.etype} {f.outcome.msg}"[:160])
    two = {"xB": A.sym("xB", True) * 2}
    # (a convolution that is handed the basis function's value at ANOTHER point than its convolution point is not x (C (x) b_j))
    bad = sorted(set(getattr(op.ev, "mixed_points", [])))[:2]
    n_atoms = 0
    points = set()
    for key, (vals, errs) in op.orders.items():
        if key[2] or key[3]:
            continue  # scale-variation keys mix basis indices through the splitting matrices (C05)
        for p, (row, erow) in enumerate(zip(vals, errs)):
            for j, e in enumerate(row):
                if not isinstance(e, A.Rat):
                    continue
                atoms_v = set()
                for a in e.atoms():
                    if not a.startswith("conv("):
                        continue
                    ad = A.ATOMS.get(a)
                    if ad is None or not ad.payload:
                        continue
                    n_atoms += 1
                    atoms_v.add(a)
                    rslkey, pt, jj = ad.payload[1]
                    points.add(A.canon(pt)[:60])
                    if jj != j:
                        bad.append(f"order {key} row {op.pids[p]}: quadrature of basis {jj} sits in column {j}")
                        continue
                    # coefficient of the atom must be (x-independent) x (its own convolution point)
                    C = A.coeff_of(e, a, 1)
                    if any(dict(m).get(a, 0) > 1 for m in e.n.t):
                        bad.append(f"order {key}: quadrature atom appears non-linearly")
                        continue
                    pt = A.to_rat(pt)
                    okc = not C.n.is_zero()
                    for var in ("xB", "Q2", "mc", "mb", "mt"):
                        dbl = {var: A.sym(var, True) * 2}
                        if not A.equal(A.subs(C, dbl) * pt, C * A.subs(pt, dbl), tol=Fraction(0)):
                            okc = False
                    if not okc:
                        bad.append(f"order {key} row {op.pids[p]} col {j}: quadrature taken at {A.canon(pt)[:50]} is multiplied by {A.canon(C)[:70]}, "
                                   "which is not (a kinematics-independent weight) x (that point)")
                    # rows of quarks that are massive in the scheme are fed by intrinsic kernels only: NC intrinsic point is x/eta
                    h = abs(op.pids[p])
                    if kw.get("process") == "NC" and kw["fns"] in ("FFNS", "FONLL-FFNS") and h in (4, 5, 6) and h > kw["nfff"]:
                        m = A.sym({4: "mc", 5: "mb", 6: "mt"}[h], True)
                        Q2 = A.sym("Q2", True)
                        exp_pt = A.sym("xB", True) * (A.Rat.const(1) + A.fn_sqrt(A.Rat.const(1) + m * m * 4 / Q2)) / 2
                        if not A.equal(pt, exp_pt, tol=Fraction(0)) and not A.numerically_equal(pt, exp_pt, [{"xB": 0.3, "Q2": 7.0, "mc": 1.4, "mb": 4.5, "mt": 170.0}]):
                            bad.append(f"order {key} row {op.pids[p]}: heavy-quark initiated NC contribution convolved at {A.canon(pt)[:60]} instead of x/eta = x (1+sqrt(1+4m^2/Q^2))/2")
                if any(a.startswith("converr(") for a in e.atoms()):
                    bad.append(f"order {key} row {op.pids[p]} col {j}: integration errors are accumulated into the value entry (shared storage?)")
                # errors carry the same quadratures
                ee = erow[j]
                atoms_e = {a.replace("converr(", "conv(", 1) for a in (ee.atoms() if isinstance(ee, A.Rat) else []) if a.startswith("converr(")}
                if atoms_e != atoms_v:
                    bad.append(f"order {key} row {op.pids[p]} col {j}: error entry does not carry the same quadratures as the value entry")
    return ("ok", sorted(set(bad))[:3], len(set(bad)), n_atoms, sorted(points)[:6])


def check_points(rep, proj, tier):
    jobs = []
    for kind, fl, (proc, projectile), (fns, nfff, nf), pto in itertools.product(
        ["F2", "FL", "F3", "g1"], ["total", "light", "charm"], [("NC", "electron"), ("CC", "neutrino")],
        [("ZM-VFNS", 4, 4), ("FFNS", 3, None), ("FFN0", 3, None), ("FONLL-FFNS", 4, None)], [1, 2] if tier == "quick" else [0, 1, 2, 3]
    ):
        if proc == "CC" and kind == "g1":
            continue
        if tier == "quick" and pto == 1 and fns not in ("FFNS",):
            continue
        jobs.append(dict(obs=f"{kind}_{fl}", process=proc, projectile=projectile, fns=fns, nfff=nfff, nf=nf, pto=pto, ren_sv=False, fact_sv=False))
    outs = sweep.run_cells(_point_job, jobs)
    n_atoms = 0
    all_points = set()
    for kw, o in zip(jobs, outs):
        label = f"{kw['obs']}|{kw['process']}|{kw['fns']}|NfFF={kw['nfff']}|PTO={kw['pto']}"
        if o[0] == "fold":
            if o[1] == "rejected":
                rep.ok("C01.point", "", label, f"configuration explicitly rejected ({o[2][:50]})")
            else:
                rep.undecided("C01.point", "", label, f"not foldable ({o[1]}): {o[2]}")
            continue
        _, bad, nbad, n, pts = o
        n_atoms += n
        all_points.update(pts)
        rep.check(nbad == 0, "C01.point", "src/yadism/esf/esf.py", label, f"{n} quadrature atoms each in its own column and multiplied by its own convolution point",
                  f"{nbad} problem(s): " + "; ".join(bad), key=label)
    rep.info["quadrature_atoms_checked"] = n_atoms
    rep.info["distinct_convolution_points"] = sorted(all_points)
    rep.floor("quadrature atoms checked", n_atoms, 3000)
    rep.floor("distinct convolution points (x, x(1+m^2/Q^2), x/eta)", len(all_points), 3)


def run(rep, proj, tier):
    rep.explanation = (
        "The quadrature is numerical and NOT decided. Decided is its wiring: conv.convolution is folded on probe objects (scipy.integrate.quad, "
        "eko's basis evaluation and the kernels opaque; 16 presence/mode combinations) and the integrand handed to quad, its limits, breakpoints "
        "and tolerance, the empty-domain shortcuts and the local term must equal the expressions derived from x (c (x) w_j)(x) with each part "
        "called with its own argument vector; convolve_vector/convolve_operator must visit each basis function (and grid point) once in order; "
        "and in every partially evaluated operator entry (central keys) each quadrature atom sits in the column of its own basis index and is "
        "multiplied by exactly its own convolution point (x, x(1+m^2/Q^2) for CC heavy, x/eta for intrinsic), errors carrying the same quadratures."
    )
    rep.rule_text = "probes: 2^3 presence x 2 modes (+3 empty-domain cases); cells from literal domains; distinct by construct/label; non-trivial = quad reached / atoms present."
    rep.trusted_base = ["CPython ast", "yadsa partial evaluator", "scipy.integrate.quad and eko.interpolation.(log_)evaluate_x as opaque primitives"]
    rep.assumptions = ["weights are independent of the requested x (used to separate the factor x from the weight)"]
    check_convolution(rep, proj)
    check_vectors(rep, proj)
    check_vector_support(rep, proj)
    check_points(rep, proj, tier)
    # an entry can only be THE integral of its coefficient function if that function is one function: parts that change from one evaluation
    # to the next (state kept in a captured container) make every quadrature integrate something else at each call
    from .. import pcmodel as P_

    P_.check_pure(rep, proj, "C01.pure", floor=150)
