"""C09 - heavy-quark production respects its kinematic threshold.

Decided: (cmp) is_below_pair_threshold(z) folds to the comparison Q2 (1-z)/z <= 4 m^2, equality
included (concrete orderings below/at/above, and the compared normal forms); (hadronic) every class
deriving from the NC heavy base routes all four orders through a decorator that returns the empty
distribution when that predicate holds at the hadronic x - on partially evaluated runs below
threshold no quadrature of a massive NC coefficient function remains in any operator entry;
(partonic) every regular-part closure of those classes returns exactly 0 whenever the predicate holds
for *its own integration variable*, before touching LeProHQ or an interpolation grid;
(cc) the CC heavy channels convolve at x (1 + m^2/Q^2) - in the class and in every quadrature atom of
the folded operators - and conv.convolution returns (0, 0) for a point >= 1 - eps before anything else.
Not decided: LeProHQ's own behaviour near threshold.
"""

from __future__ import annotations

import ast
import itertools
from fractions import Fraction

from .. import algebra as A
from .. import opmodel as O
from .. import pcmodel as P
from .. import runmodel as R
from .. import sweep
from .. import symeval as S
from ..model import AnalysisError

HPC = "yadism.coefficient_functions.heavy.partonic_channel"


def _poly_sign(p):
    """+1 / -1 if every coefficient has that sign and every atom is a positive quantity, else None."""
    signs = set()
    for m, (c, _g) in p.t.items():
        if not all(A._atom_positive(a) for a, _ in m):
            return None
        signs.add(1 if c > 0 else -1)
    return signs.pop() if len(signs) == 1 else None


def _den_sign(r):
    sg = 1
    for f, pw in r.d.values():
        fs = _poly_sign(f)
        if fs is None:
            return None
        if pw % 2:
            sg *= fs
    return sg


def _proportional_sign(d, s):
    """Sign of g if d == g * s with g of definite sign for positive symbols (g = constant x monomial / sign-definite denominators), else None."""
    d, s = A.to_rat(d), A.to_rat(s)
    sd, ss = _den_sign(d), _den_sign(s)
    if sd is None or ss is None or s.n.is_zero() or d.n.is_zero():
        return None
    (ms, (cs, _)), = list(s.n.t.items())[:1]
    for md, (cd, _g) in d.n.t.items():
        if not all(A._atom_positive(a) for a, _ in md + ms):
            continue
        lhs = A.Rat(d.n) * A.Rat(A.Poly({ms: (Fraction(1), Fraction(1))}))
        rhs = A.Rat(s.n) * A.Rat(A.Poly({md: (cd / cs, abs(cd / cs))}))
        if A.equal(lhs, rhs, tol=Fraction(0)):
            return (1 if cd / cs > 0 else -1) * sd * ss
    return None


def check_cmp(rep, proj):
    base = proj.cls(HPC, "NeutralCurrentBase")
    f = base.find_method("is_below_pair_threshold")
    if f is None:
        raise AnalysisError("is_below_pair_threshold not found")
    # concrete orderings: Q2 = 8, z = 1/2 -> shat = 8
    for m2, exp, what in ((Fraction(3), True, "below (shat < 4m^2)"), (Fraction(2), True, "exactly at threshold (shat == 4m^2)"), (Fraction(1), False, "above (shat > 4m^2)")):
        ev = S.Evaluator(proj, lenient_ext=True)
        obj = S.ObjVal(base)
        obj.attrs["ESF"] = S.record("ESF", x=Fraction(1, 3), Q2=8)
        obj.attrs["m2hq"] = m2
        try:
            got = ev.call(S.FuncVal(ev, f, bound=obj), [Fraction(1, 2)], {})
            got = ev.truth(got)
        except (A.Undecided, S.Raised) as e:
            rep.undecided("C09.cmp", f.site, f"{f.fq}[{what}]", str(e))
            continue
        rep.check(got is exp, "C09.cmp", f.site, f"{f.fq}[{what}]", f"-> {exp}", f"-> {got}, expected {exp}", key=what)
    # symbolic: every comparison the predicate makes must be between Q2 (1-z)/z and 4 m^2 (either way round);
    # its truth value is then supplied for the three orderings and the predicate must come out True, True, False
    sym = P.Sym()
    one = A.Rat.const(1)
    z = sym.z
    shat = sym.Q2 * (one - z) / z
    thr = sym.m2hq * 4
    foreign = []

    def make_compare(sign):  # sign of shat - thr: -1 below, 0 at, +1 above
        def on_compare(op, a, b, node):
            # a - b must be (shat - thr) times a factor of definite sign (e.g. z - zmax = -(shat - thr) z / (Q2 + 4 m^2))
            d = A.to_rat(a) - A.to_rat(b)
            try:
                g = _proportional_sign(d, shat - thr)
            except (A.Undecided, ZeroDivisionError):
                g = None
            if g is None:
                foreign.append((type(op).__name__, A.canon(a)[:40], A.canon(b)[:40]))
                return None
            sgn = sign * g
            return {"Lt": sgn < 0, "LtE": sgn <= 0, "Gt": sgn > 0, "GtE": sgn >= 0, "Eq": sgn == 0, "NotEq": sgn != 0}.get(type(op).__name__)

        return on_compare

    results = []
    for sign in (-1, 0, 1):
        ev = S.Evaluator(proj, lenient_ext=True, on_compare=make_compare(sign))
        obj = S.ObjVal(base)
        obj.attrs["ESF"] = S.record("ESF", x=sym.xB, Q2=sym.Q2)
        obj.attrs["m2hq"] = sym.m2hq
        try:
            results.append(ev.truth(ev.call(S.FuncVal(ev, f, bound=obj), [z], {})))
        except (A.Undecided, S.Raised) as e:
            results.append(f"{type(e).__name__}: {e}")
    rep.check(results == [True, True, False] and not foreign, "C09.cmp", f.site, f"{f.fq}[symbolic]",
              "is the predicate Q2 (1-z)/z <= 4 m^2 for all Q2, z, m",
              f"below/at/above -> {results}" + (f"; compares other quantities: {foreign[:2]}" if foreign else ""), key="symbolic")


def nc_heavy_classes(proj):
    base = proj.cls(HPC, "NeutralCurrentBase")
    return base, [c for c in proj.all_classes if c is not base and c.is_subclass_of(base)]


def check_partonic(rep, proj):
    base, classes = nc_heavy_classes(proj)
    rep.floor("NC heavy classes", len(classes), 15)
    sym = P.Sym()
    n_closures = 0
    for c in classes:
        # structural part of (hadronic): nothing bypasses the decorator
        problems = []
        for name in ("decorator", "is_below_pair_threshold"):
            for k in c.mro():
                if k is base:
                    break
                if hasattr(k, "methods") and name in k.methods:
                    problems.append(f"{k.name} overrides {name}")
        for k in c.mro():
            if k is base:
                break
            if hasattr(k, "methods") and "__init__" in k.methods:
                src = ast.unparse(k.methods["__init__"].node)
                if "super().__init__" not in src:
                    problems.append(f"{k.name}.__init__ does not call super().__init__")
                for n in ast.walk(k.methods["__init__"].node):
                    if isinstance(n, ast.Assign) and any(isinstance(t, ast.Subscript) and ast.unparse(t.value) == "self" for t in n.targets):
                        problems.append(f"{k.name}.__init__ assigns self[...] directly")
        rep.check(not problems, "C09.hadronic", c.site, c.fq, "all orders go through NeutralCurrentBase.decorator", "; ".join(problems), key="bypass")
        # fold the orders above threshold, then probe each regular closure below its partonic threshold
        ev = S.Evaluator(proj, on_call=P.above_threshold_hook, lenient_ext=True)
        try:
            obj = P.instantiate(ev, c, sym)
        except (A.Undecided, S.Raised) as e:
            rep.undecided("C09.partonic", c.site, c.fq, f"class not instantiable: {e}")
            continue
        for k in range(4):
            r = P.fold_order(ev, obj, k)
            if r.status != "rsl":
                continue
            for part in ("reg", "sing"):
                fv = r.rsl.attrs.get(part)
                if fv is None:
                    continue
                n_closures += 1
                construct = f"{c.fq}.{P.ORDER_METHODS[k]}:{part}"
                site = r.method.site if r.method is not None else c.site
                touched = []

                def probe_hook(ev_, fv_, args, kwargs, _touched=touched):
                    if fv_.finfo.name == "is_below_pair_threshold":
                        a = S.num_norm(args[-1]) if args else None
                        # below threshold exactly for the closure's own integration variable
                        return isinstance(a, A.Rat) and a.canon() == "x"
                    return NotImplemented

                ev_probe = S.Evaluator(proj, on_call=probe_hook, lenient_ext=True)
                # re-bind the closure to the probing evaluator
                fv2 = S.FuncVal(ev_probe, fv.finfo, closure=fv.closure, bound=fv.bound, defcls=fv.defcls)
                # closures captured `self` from the first evaluator; method calls go through FuncVal.ev of the *callee lookup*,
                # which is created by the probing evaluator's getattr -> fine
                try:
                    val = S.num_norm(ev_probe.call(fv2, [sym.z, P.part_args(r.rsl, part)], {}))
                except (A.Undecided, S.Raised) as e:
                    rep.undecided("C09.partonic", site, construct, f"closure not foldable below threshold: {e}")
                    continue
                is_zero = (not isinstance(val, A.Rat)) and val == 0
                rep.check(is_zero, "C09.partonic", site, construct, "returns 0 when its integration variable is beyond the partonic threshold",
                          f"does not vanish beyond the partonic threshold of its own variable: returns {A.canon(val)[:100]}", key=part)
    rep.floor("massive NC closures probed", n_closures, 25)


def _hadronic_job(kw):
    from .. import model

    proj = model.project()
    try:
        below = O.fold_op(proj, R.Cell(**kw), below_threshold="fold", prepare=pair_threshold_regime(-1))
        above = O.fold_op(proj, R.Cell(**kw), below_threshold="fold", prepare=pair_threshold_regime(+1))
    except O.FoldFailure as f:
        return ("fold", f.outcome.status, f"{f.outcome.etype} {f.outcome.msg}"[:160])

    def massive_nc_atoms(op):
        out = set()
        for key, (vals, errs) in op.orders.items():
            for row in vals:
                for e in row:
                    if isinstance(e, A.Rat):
                        for a in e.atoms():
                            if a.startswith("conv(") and ".heavy." in a and "_nc::" in a:
                                out.add(a[:90])
        return out

    # between two thresholds: above the pair threshold of the lightest massive quark of the scheme, below those of the heavier ones - the
    # decision is per quark (a decision taken for one mass and remembered for the kinematic point serves the wrong quarks)
    stale = []
    if kw["fns"] == "FFNS" and kw["nfff"] in (3, 4) and kw["obs"].split("_")[1] in ("total", "light"):
        regime = {"mc": +1, "mb": -1 if kw["nfff"] == 3 else +1, "mt": -1}
        closed = [m for m, sg in regime.items() if sg < 0]
        try:
            between = O.fold_op(proj, R.Cell(**kw), below_threshold="fold", prepare=pair_threshold_regime(regime))
        except O.FoldFailure as f:
            return ("fold", f.outcome.status, f"{f.outcome.etype} {f.outcome.msg}"[:160])
        for key, (vals, errs) in between.orders.items():
            for row in vals:
                for e in row:
                    if isinstance(e, A.Rat):
                        for a in e.atoms():
                            if a.startswith("conv(") and ".heavy." in a and "_nc::" in a:
                                ad = A.ATOMS.get(a)
                                rsl = R.RSL_REGISTRY.get(ad.payload[1][0]) if ad is not None and ad.payload else None
                                mass = rsl.attrs.get("_owner_m2hq", "") if rsl is not None else ""
                                if any(m in mass for m in closed):
                                    stale.append(f"{rsl.attrs.get('_owner')} built with {mass}")
    return ("ok", sorted(massive_nc_atoms(below))[:3], len(massive_nc_atoms(above)), sorted(set(stale))[:3])


def check_hadronic(rep, proj, tier):
    jobs = []
    for kind, fl, (fns, nfff), pto in itertools.product(["F2", "FL", "F3", "g1", "gL", "g4"], ["total", "charm", "bottom", "light"],
                                                        [("FFNS", 3), ("FFNS", 4), ("FONLL-FFNS", 4)], [2, 3]):
        if tier == "quick" and (pto == 3 and kind not in ("F2", "FL")):
            continue
        jobs.append(dict(obs=f"{kind}_{fl}", process="NC", fns=fns, nfff=nfff, pto=pto, ren_sv=False, fact_sv=False))
    outs = sweep.run_cells(_hadronic_job, jobs)
    n_nontrivial = 0
    for kw, o in zip(jobs, outs):
        label = f"{kw['obs']}|NC|{kw['fns']}|NfFF={kw['nfff']}|PTO={kw['pto']}"
        if o[0] == "fold":
            if o[1] == "rejected":
                rep.ok("C09.hadronic", "", label, f"configuration explicitly rejected ({o[2][:50]})")
            else:
                rep.undecided("C09.hadronic", "", label, f"not foldable ({o[1]}): {o[2]}")
            continue
        _, left, n_above, stale = o
        if n_above:
            n_nontrivial += 1
        if stale:
            rep.bad("C09.hadronic", "src/yadism/coefficient_functions/heavy/partonic_channel.py", label + "|between the thresholds",
                    "above the pair threshold of the lightest massive quark and below those of the heavier ones, massive NC terms of a quark whose "
                    "threshold is not reached remain: " + "; ".join(stale), key=label + "|between")
        rep.check(not left, "C09.hadronic", "src/yadism/coefficient_functions/heavy/partonic_channel.py", label,
                  f"below the pair threshold no massive NC quadrature remains ({n_above} present above threshold)",
                  f"massive NC coefficient functions still contribute below the hadronic pair threshold: {left}", key=label)
    rep.floor("hadronic-threshold cells with massive terms above threshold", n_nontrivial, 20)


def pair_threshold_regime(sign):
    """prepare-hook for fold_op: any comparison the folded run makes whose difference is (W^2-like) Q2 (1-x)/x - 4 m_q^2 times a factor
    of definite sign - i.e. an inlined hadronic pair-threshold test, however it is spelled - is decided for the regime `sign`
    (+1 above, -1 below the threshold of every heavy quark)."""
    x, Q2 = A.sym("xB", True), A.sym("Q2", True)
    diffs = [Q2 * (A.Rat.const(1) - x) / x - A.sym(m, True) * A.sym(m, True) * 4 for m in ("mc", "mb", "mt")]

    def prepare(ev, runner):
        prev = ev.on_compare

        def on_compare(op, a, b, node):
            r = prev(op, a, b, node) if prev is not None else None
            if r is not None:
                return r
            try:
                d = A.to_rat(a) - A.to_rat(b)
                for diff, mname in zip(diffs, ("mc", "mb", "mt")):
                    g = _proportional_sign(d, diff)
                    if g is not None:
                        sg = (sign[mname] if isinstance(sign, dict) else sign) * g  # one regime for all quarks, or one per quark
                        return {"Lt": sg < 0, "LtE": sg <= 0, "Gt": sg > 0, "GtE": sg >= 0, "Eq": False, "NotEq": True}.get(type(op).__name__)
            except (A.Undecided, ZeroDivisionError, TypeError):
                return None
            return None

        ev.on_compare = on_compare

    return prepare


def _cc_job(kw):
    from .. import model

    proj = model.project()
    try:
        op = O.fold_op(proj, R.Cell(**kw), prepare=pair_threshold_regime(+1))
        op_below = O.fold_op(proj, R.Cell(**kw), prepare=pair_threshold_regime(-1))
    except O.FoldFailure as f:
        return ("fold", f.outcome.status, f"{f.outcome.etype} {f.outcome.msg}"[:160])
    x, Q2 = A.sym("xB", True), A.sym("Q2", True)
    # every part of a massive CC convolution lives at the slow-rescaling point: also the local and the subtraction terms, whoever evaluates
    # the basis functions for them
    bad = sorted(set(getattr(op.ev, "mixed_points", [])))[:2]
    n = 0
    # single heavy-quark production in CC opens at W^2 = m^2 (chi = 1), not at the pair threshold W^2 = 4 m^2: the operator
    # must be the same on both sides of the latter
    ndiff, first = 0, None
    for key in sorted(op.keys() | op_below.keys()):
        for p_ in op.pids:
            for j in range(R.GRID_N):
                if not O.same(op.entry(key, p_, j), op_below.entry(key, p_, j)):
                    ndiff += 1
                    first = first or (key, p_, j)
    if ndiff:
        bad.append(f"{ndiff} entries change across the NC pair threshold W^2 = 4 m^2 (e.g. order {first[0]} pid {first[1]}): charged-current heavy production must only close at chi = x (1 + m^2/Q^2) = 1")
    for key, (vals, errs) in op.orders.items():
        for row in vals:
            for e in row:
                if not isinstance(e, A.Rat):
                    continue
                for a in e.atoms():
                    ad = A.ATOMS.get(a)
                    if a.startswith("conv(") and ".heavy." in a and "_cc::" in a and ad is not None and ad.payload:
                        pt = ad.payload[1][1]
                        n += 1
                        # which heavy quark? the closure signature hash does not tell; accept any of the three masses
                        ok = any(A.equal(A.to_rat(pt), x * (A.Rat.const(1) + A.sym(m, True) * A.sym(m, True) / Q2), tol=Fraction(0)) for m in ("mc", "mb", "mt"))
                        if not ok:
                            bad.append(A.canon(pt)[:80])
    # every massive quark that contributes at LO does so at ITS slow-rescaling point: the LO delta term of the massive CC channel of quark q
    # sits at x (1 + m_q^2/Q^2).  (A convolution handed over from another kernel - a light one, another quark's - would sit elsewhere.)
    kind, _, fl = kw["obs"].partition("_")
    wanted = {"charm": [4], "bottom": [5], "top": [6], "total": [4, 5, 6]}.get(fl, [])
    wanted = [q for q in wanted if q > kw["nfff"] or (kw["fns"].startswith("FONLL") and q == kw["nfff"] + 1)]
    if kw["fns"].startswith("FONLL"):
        wanted = [q for q in wanted if q == kw["nfff"] + 1]
    lo_points = set()
    for row in op.orders.get((0, 0, 0, 0), ([], []))[0]:
        for e in row:
            if isinstance(e, A.Rat):
                for a in e.atoms():
                    ad = A.ATOMS.get(a)
                    if a.startswith("conv(") and ad is not None and ad.payload:
                        lo_points.add(A.canon(A.to_rat(ad.payload[1][1])))
    for q in wanted:
        m = A.sym({4: "mc", 5: "mb", 6: "mt"}[q], True)
        chi = A.canon(x * (A.Rat.const(1) + m * m / Q2))
        if chi not in lo_points:
            bad.append(f"NO LO term at the slow-rescaling point of the massive quark {q}: the points present are {sorted(lo_points)[:3]}")
    return ("ok", sorted(set(bad))[:2], n)


def check_cc(rep, proj, tier):
    sym = P.Sym()
    base = proj.cls(HPC, "ChargedCurrentBase")
    ev = S.Evaluator(proj, lenient_ext=True)
    obj = P.instantiate(ev, base, sym)
    cp = ev.call(ev.getattr(obj, "convolution_point", None), [], {})
    exp = sym.xB * (A.Rat.const(1) + sym.m2hq / sym.Q2)
    rep.check(A.equal(A.to_rat(S.num_norm(cp)), exp, tol=Fraction(0)), "C09.cc", base.site, f"{base.fq}.convolution_point",
              "== x (1 + m^2/Q^2) for all x, Q2, m", f"= {A.canon(S.num_norm(cp))[:100]}", key="point")
    # no CC heavy subclass overrides it differently
    for c in proj.subclasses(base):
        for k in c.mro():
            if k is base:
                break
            if hasattr(k, "methods") and "convolution_point" in k.methods:
                rep.bad("C09.cc", k.site, f"{k.fq}.convolution_point", "CC heavy subclass overrides the slow-rescaling convolution point", key="override")
    # conv.convolution: empty domain first
    conv = proj.func("yadism.esf.conv", "convolution")
    for xval, what in ((1, "x = 1"), (Fraction(3, 2), "x > 1")):
        ev = S.Evaluator(proj, lenient_ext=True)
        try:
            r = ev.call(S.FuncVal(ev, conv), [S.record("rsl", __strict__=True), xval, S.record("pdf_func", __strict__=True)], {})
            ok = isinstance(r, tuple) and len(r) == 2 and all(S.num_norm(v) == 0 for v in r)
            rep.check(ok, "C09.cc", conv.site, f"{conv.fq}[{what}]", "returns (0, 0) without touching the kernel or the basis function", f"returns {r}", key=what)
        except S.Raised as e:
            rep.bad("C09.cc", conv.site, f"{conv.fq}[{what}]", f"an empty convolution domain is not short-circuited first ({e})", key=what)
        except A.Undecided as e:
            rep.undecided("C09.cc", conv.site, f"{conv.fq}[{what}]", str(e))
    jobs = []
    for kind, fl, (fns, nfff), pto in itertools.product(["F2", "FL", "F3"], ["charm", "bottom", "total"], [("FFNS", 3), ("FFNS", 4), ("FONLL-FFNS", 4)], [0, 1]):
        jobs.append(dict(obs=f"{kind}_{fl}", process="CC", projectile="neutrino", fns=fns, nfff=nfff, pto=pto, ren_sv=False, fact_sv=False))
    outs = sweep.run_cells(_cc_job, jobs)
    n_atoms = 0
    for kw, o in zip(jobs, outs):
        label = f"{kw['obs']}|CC|{kw['fns']}|NfFF={kw['nfff']}|PTO={kw['pto']}"
        if o[0] == "fold":
            rep.undecided("C09.cc", "", label, f"not foldable ({o[1]}): {o[2]}")
            continue
        _, bad, n = o
        n_atoms += n
        rep.check(not bad, "C09.cc", "src/yadism/esf/esf.py", label, f"{n} massive CC quadratures taken at x (1 + m^2/Q^2); operator identical on both sides of W^2 = 4 m^2",
                  "; ".join(b if ("entries change" in b or b.startswith("NO LO")) else f"massive CC quadrature at {b} instead of x (1 + m^2/Q^2)" for b in bad), key=label)
    rep.floor("massive CC quadrature atoms", n_atoms, 50)


MASS = {4: "mc", 5: "mb", 6: "mt"}
MASK = {"c": 4, "b": 5, "t": 6}


def _mass_job(kw):
    """Every kernel that carries a heavy-quark mass must carry the mass of the quark its weights name."""
    from .. import model
    import re

    proj = model.project()
    try:
        op = O.fold_op(proj, R.Cell(**kw), prepare=pair_threshold_regime(+1))
    except O.FoldFailure as f:
        return ("fold", f.outcome.status, f"{f.outcome.etype} {f.outcome.msg}"[:160])
    log = getattr(op.ev, "kernel_log", [])
    bad = []
    n = 0
    unattributed = {}
    for partons, coeff in log:
        if not isinstance(coeff, S.ObjVal) or coeff.cinfo is None or not isinstance(partons, dict):
            continue
        # mass symbols carried by the channel object (m2hq, labda, L, m1sq, m2sq ...)
        masses = set()
        for name, v in coeff.attrs.items():
            if isinstance(v, A.Rat):
                masses |= {a for a in v.all_atoms() if a in ("mc", "mb", "mt")}
        if not masses:
            continue
        # the quark named by the weights
        quarks = set()
        for pid, w in partons.items():
            if isinstance(w, A.Rat):
                for a in w.atoms():
                    m = re.match(r"w\((\d+), (?:'\w+'|None)(?:, '(\w+)')?\)", a)
                    if m:
                        if m.group(2):  # CC: the CKM mask names the heavy quark
                            quarks |= {MASK[ch] for ch in m.group(2) if ch in MASK}
                        elif int(m.group(1)) >= 4 and int(m.group(1)) > kw["nfff"]:
                            quarks.add(int(m.group(1)))
        if len(quarks) != 1:
            # the 'missing' kernels (light-quark initiated, heavy quark radiated) carry light-quark weights only: attributed as a group below
            if len(masses) == 1:
                unattributed.setdefault(coeff.cinfo.fq, []).append(next(iter(masses)))
            continue
        n += 1
        q = next(iter(quarks))
        tagged = {"charm": 4, "bottom": 5, "top": 6}.get(kw["obs"].split("_")[-1])
        if tagged is not None and q != tagged:
            bad.append(f"{coeff.cinfo.fq} in the flavour-tagged observable {kw['obs']} is built for the {MASS[q][1]} quark (weights {sorted(str(k) for k in partons)[:3]}): "
                       f"the kernels of a tagged observable belong to the tagged quark")
        if masses != {MASS[q]}:
            bad.append(f"{coeff.cinfo.fq} built for the {MASS[q][1]} quark (weights {sorted(str(k) for k in partons)[:3]}...) carries the mass symbol(s) {sorted(masses)}")
    # light-quark initiated kernels: one per quark that is massive in the scheme and heavier than the active ones, each with that quark's mass
    try:
        zmq = list(op.runner.attrs["configs"].attrs["theory"]["ZMq"])
        nf_act = op.cell.nf if op.cell.fns == "ZM-VFNS" else op.cell.nfff
        expected = sorted(MASS[4 + i] for i, zm in enumerate(zmq) if not zm and 4 + i > nf_act)
    except (KeyError, AttributeError, TypeError):
        expected = None
    if expected is not None:
        for fq, ms in sorted(unattributed.items()):
            n += 1
            if sorted(ms) != expected:
                bad.append(f"the light-quark initiated kernels {fq} carry the masses {sorted(ms)}; the quarks massive in this scheme are {expected} (one kernel each)")
    return ("ok", sorted(set(bad))[:3], len(set(bad)), n)


def check_mass(rep, proj, tier):
    jobs = []
    for kind, fl, (proc, projectile), (fns, nfff), pto in itertools.product(
        ["F2", "FL", "F3"], ["total", "bottom", "top", "charm"], [("NC", "electron"), ("CC", "neutrino")],
        [("FFNS", 3), ("FFNS", 4), ("FFN0", 3), ("FONLL-FFNS", 4)], [2]
    ):
        if fl == "charm" and nfff == 4:
            continue
        jobs.append(dict(obs=f"{kind}_{fl}", process=proc, projectile=projectile, fns=fns, nfff=nfff, pto=pto, ren_sv=False, fact_sv=False))
    outs = sweep.run_cells(_mass_job, jobs)
    n_k = 0
    for kw, o in zip(jobs, outs):
        label = f"{kw['obs']}|{kw['process']}|{kw['fns']}|NfFF={kw['nfff']}"
        if o[0] == "fold":
            if o[1] == "rejected":
                rep.ok("C09.mass", "", label, f"configuration explicitly rejected ({o[2][:50]})")
            else:
                rep.undecided("C09.mass", "", label, f"not foldable ({o[1]}): {o[2]}")
            continue
        _, bad, nbad, n = o
        n_k += n
        rep.check(nbad == 0, "C09.mass", "src/yadism/coefficient_functions/heavy/kernels.py", label,
                  f"{n} mass-carrying kernels each carry the mass of the quark their weights name (thresholds and slow rescaling use the produced quark's mass)",
                  "; ".join(bad)[:500], key=label)
    rep.floor("mass-carrying kernels inspected", n_k, 150)


def run(rep, proj, tier):
    rep.explanation = (
        "Decides: is_below_pair_threshold folds to Q2 (1-z)/z <= 4 m^2 (three concrete orderings incl. equality, and the symbolic operands); no "
        "NC heavy class bypasses the threshold decorator, and on partially evaluated FFNS/FONLL runs folded below the hadronic threshold no "
        "quadrature of a massive NC coefficient function remains in any operator entry while above threshold they are present; every regular/"
        "singular closure of every NC heavy class x order returns exactly 0 when the predicate holds for its own integration variable; the CC "
        "heavy convolution point is x (1 + m^2/Q^2) in the class and in every massive CC quadrature atom of the folded operators, and "
        "conv.convolution returns (0, 0) for points >= 1 - eps before touching kernel or basis; every Kernel(weights, channel) built in the folded "
        "FFNS/FFN0/FONLL runs whose channel carries a heavy-quark mass carries the mass of the quark its weights name (so that thresholds and slow "
        "rescaling use the produced quark's mass). NOT decided: LeProHQ near threshold."
    )
    rep.rule_text = "classes and closures enumerated through the class hierarchy; cells from literal domains; distinct by construct/label."
    rep.trusted_base = ["CPython ast", "yadsa partial evaluator", "pcmodel (class x order folding through the MRO)"]
    rep.assumptions = ["eps_integration_border is small and positive"]
    check_cmp(rep, proj)
    check_partonic(rep, proj)
    check_hadronic(rep, proj, tier)
    check_cc(rep, proj, tier)
    check_mass(rep, proj, tier)
