"""C15 - serialised output round-trips losslessly.

Decided by folding the repository's own writers and readers over a virtual file system (yaml, npz,
tar and pathlib are inert stores that keep structure and values, and refuse what the real formats
cannot hold): for outputs produced by partially evaluated runs (structure functions and cross
sections, several points, scale-variation orders, an empty and a None observable) and for both
formats,  load(dump(out))  has identical observables, kinematics (x, Q2, y), nf, order keys in order,
operator values and errors (symbolic: any arithmetic, cast, rounding or swap on the value path
changes the normal form), grid, pids, projectile and echoed cards; a second dump of the loaded
object equals the first document.  Not decided: losslessness of float <-> text / npz themselves
(library property of repr/numpy, trusted).
"""

from __future__ import annotations

import ast
import itertools
from fractions import Fraction

from .. import algebra as A
from .. import pcmodel as P
from .. import runmodel as R
from .. import sweep
from .. import symeval as S
from .c20 import snap

PLAIN = (dict, list, str, int, bool, type(None), Fraction, A.Rat, float)


class VFS:
    def __init__(self):
        self.files = {}  # path -> content
        self.dirs = set()
        self.counter = 0


class VPath:
    __yadsa_native__ = True

    def __init__(self, fs, path):
        self.fs = fs
        self.path = str(path).rstrip("/") or "/"

    def __truediv__(self, other):
        return VPath(self.fs, f"{self.path}/{other.path if isinstance(other, VPath) else other}")

    def __str__(self):
        return self.path

    def __repr__(self):
        return f"VPath({self.path})"

    @property
    def suffix(self):
        name = self.path.rsplit("/", 1)[-1]
        return "." + name.rsplit(".", 1)[1] if "." in name else ""

    @property
    def stem(self):
        name = self.path.rsplit("/", 1)[-1]
        return name.rsplit(".", 1)[0] if "." in name else name

    @property
    def name(self):
        return self.path.rsplit("/", 1)[-1]

    def write_text(self, text, encoding=None):
        self.fs.files[self.path] = text
        return 0

    def read_text(self, encoding=None):
        if self.path not in self.fs.files:
            raise S.Raised("FileNotFoundError", self.path)
        return self.fs.files[self.path]

    def mkdir(self, *a, **k):
        self.fs.dirs.add(self.path)

    def iterdir(self):
        pre = self.path + "/"
        kids = set()
        for p in list(self.fs.files) + list(self.fs.dirs):
            if p.startswith(pre):
                kids.add(pre + p[len(pre):].split("/", 1)[0])
        return [VPath(self.fs, k) for k in sorted(kids)]

    def glob(self, pattern):
        import fnmatch

        if not isinstance(pattern, str) or "/" in pattern or "**" in pattern:
            raise A.Undecided("glob pattern over several directory levels")
        return [k for k in self.iterdir() if fnmatch.fnmatchcase(k.name, pattern)]

    @property
    def parent(self):
        return VPath(self.fs, self.path.rsplit("/", 1)[0] or "/")

    def with_suffix(self, suffix):
        return VPath(self.fs, self.path[: len(self.path) - len(self.suffix)] + suffix)

    def with_name(self, name):
        return self.parent / name

    def is_file(self):
        return self.path in self.fs.files

    def is_dir(self):
        return self.path in self.fs.dirs or any(p.startswith(self.path + "/") for p in self.fs.files)

    def __fspath__(self):
        return self.path

    def __eq__(self, other):
        return isinstance(other, VPath) and other.path == self.path

    def __hash__(self):
        return hash(self.path)

    def __lt__(self, other):
        return self.path < other.path

    def exists(self):
        return self.path in self.fs.files or self.path in self.fs.dirs


class YamlDoc:
    """What a YAML document can hold: plain containers and scalars (tuples become lists)."""

    __yadsa_native__ = True

    def __init__(self, tree):
        self.tree = tree


def to_yaml(v, path="", safe=True):
    if isinstance(v, S.ObjVal):
        if v.cinfo is not None and any(b == "dict" for b in v.cinfo.mro() if isinstance(b, str)):
            return {k: to_yaml(x, f"{path}[{k!r}]", safe) for k, x in v.store.items()}
        raise S.Raised("RepresenterError", f"cannot represent an object of {v.cinfo.name if v.cinfo else 'unknown'} at {path}")
    if isinstance(v, (S.Arr, S.Arr0)):
        raise S.Raised("RepresenterError", f"numpy array reaches the YAML document at {path} (safe_load cannot read it back)")
    if isinstance(v, dict):
        return {to_yaml_key(k): to_yaml(x, f"{path}[{k!r}]", safe) for k, x in v.items()}
    if isinstance(v, (list, tuple)):
        return [to_yaml(x, f"{path}[{i}]", safe) for i, x in enumerate(v)]
    if S.is_np_scalar(v):
        raise S.Raised("RepresenterError", f"numpy scalar {v!r} reaches the YAML document at {path} (written with a python-specific tag that safe_load refuses)")
    if isinstance(v, PLAIN):
        return v
    if isinstance(v, (S.OpaqueObj, S.ExtVal, S.FuncVal)):
        raise S.Raised("RepresenterError", f"cannot represent {v!r} at {path}")
    return v


def to_yaml_key(k):
    return k


def clone(v):
    if isinstance(v, dict):
        return {k: clone(x) for k, x in v.items()}
    if isinstance(v, list):
        return [clone(x) for x in v]
    return v


def make_io(fs):
    def ydump(ev, data, stream=None, **kw):
        doc = YamlDoc(to_yaml(data))
        if stream is None:
            return doc
        if isinstance(stream, VFile):
            stream.fs.files[stream.path] = doc
            return None
        raise A.Undecided("yaml stream")

    def yload(ev, stream):
        if isinstance(stream, VFile):
            stream = stream.fs.files[stream.path]
        if not isinstance(stream, YamlDoc):
            raise S.Raised("YAMLError", f"not a YAML document: {stream!r}")
        return clone(stream.tree)

    def savez(ev, path, **arrays):
        p = str(path)
        if not p.endswith(".npz"):
            p += ".npz"
        store = {}
        for k, v in arrays.items():
            if not isinstance(v, S.Arr):
                v = S._np_array(ev, v)
            store[k] = S._deepcopy(ev, v)
        fs.files[p] = store
        return None

    def npload(ev, path, **kw):
        p = str(path)
        if p not in fs.files:
            raise S.Raised("FileNotFoundError", p)
        class NpzFile(dict):
            # numpy's NpzFile: a read-only mapping name -> array that also lists its names in .files and can be closed
            def close(self):
                return None

        z = NpzFile({k: S._deepcopy(ev, v) for k, v in fs.files[p].items()})
        z.files = list(fs.files[p])
        return z

    class TmpDir:
        __yadsa_native__ = True

    def tmpdir(ev):
        fs.counter += 1
        name = f"/tmp/vdir{fs.counter}"
        fs.dirs.add(name)
        return S.record("TemporaryDirectory", __enter__=S._NativeFn(lambda: name), __exit__=S._NativeFn(lambda *a: None))

    def vopen(ev, path, mode="r", encoding=None, **kw):
        # open(name, mode) used as a context manager: the handle is a file of the virtual file system (reading a file nobody wrote fails)
        p = str(path.path if isinstance(path, (VFile, VPath)) else path)
        if "r" in mode and "+" not in mode and p not in fs.files:
            raise S.Raised("FileNotFoundError", p)
        f = VFile(fs, p)
        return S.record("file", __enter__=S._NativeFn(lambda: f), __exit__=S._NativeFn(lambda *a: None), close=S._NativeFn(lambda: None))

    def taropen(ev, path, mode="r"):
        p = str(path)

        def add(src, arcname=None):
            src = str(src)
            arc = arcname or src.rsplit("/", 1)[-1]
            members = {}
            for f, c in fs.files.items():
                if f.startswith(src + "/"):
                    members[arc + f[len(src):]] = c
            fs.files[p] = ("tar", members)

        def extractall(dst):
            dst = str(dst)
            content = fs.files.get(p)
            if not (isinstance(content, tuple) and content[0] == "tar"):
                raise S.Raised("ReadError", f"{p} is not a tar archive")
            for name, c in content[1].items():
                fs.files[f"{dst}/{name}"] = c

        tar = S.record("TarFile", add=S._NativeFn(add), extractall=S._NativeFn(extractall))
        return S.record("tarctx", __enter__=S._NativeFn(lambda: tar), __exit__=S._NativeFn(lambda *a: None))

    return {
        "yaml.dump": ydump, "yaml.safe_dump": ydump, "yaml.safe_load": yload, "yaml.load": yload,
        "numpy.savez_compressed": savez, "numpy.savez": savez, "numpy.load": npload,
        "tempfile.TemporaryDirectory": tmpdir, "tarfile.open": taropen, "builtins.open": vopen,
        "pathlib.Path": lambda ev, p: p if isinstance(p, VPath) else VPath(fs, p),
        "time.time": lambda ev: 0,
    }


class VFile:
    __yadsa_native__ = True

    def __init__(self, fs, path):
        self.fs = fs
        self.path = path


def describe_point(pt):
    d = {"x": snap(pt.attrs.get("x")), "Q2": snap(pt.attrs.get("Q2")), "nf": snap(pt.attrs.get("nf"))}
    if "y" in pt.attrs:
        d["y"] = snap(pt.attrs.get("y"))
    d["cls"] = pt.cinfo.name if pt.cinfo else "?"
    d["orders"] = [(tuple(k), snap(v[0]), snap(v[1])) for k, v in pt.attrs["orders"].items()]
    return d


def seq_norm(v):
    """Sequences compare by content: tuple, list and array of the same entries are the same metadata."""
    if isinstance(v, S.Arr):
        v = v.data
    if isinstance(v, (list, tuple)):
        return [seq_norm(x) for x in v]
    if isinstance(v, dict):
        return {k: seq_norm(x) for k, x in v.items()}
    if isinstance(v, S.NpInt):
        return int(v)
    if isinstance(v, S.NpFrac):
        return Fraction(v)
    return v


def describe_output(out, obs_names):
    d = {"observables": {}, "meta": {}}
    for k, v in out.store.items():
        if k in obs_names:
            if v is None:
                d["observables"][k] = None
            elif isinstance(v, list) and all(isinstance(pt, S.ObjVal) and "orders" in pt.attrs for pt in v):
                d["observables"][k] = [describe_point(pt) for pt in v]
            else:
                d["observables"][k] = [{"cls": f"malformed:{type(v).__name__}", "orders": []}]
        else:
            d["meta"][k] = snap(seq_norm(v))
    d["theory"] = snap(_attr(out, "theory"))
    d["cards_observables"] = snap(_attr(out, "observables"))
    return d


_EV = [None]  # the evaluator of the running job (one job per worker call)


def _attr(obj, name):
    """What `obj.name` gives a user: the instance attribute, else whatever the class (or a run-time store on the class) provides."""
    if name in obj.attrs:
        return obj.attrs[name]
    try:
        return _EV[0].getattr(obj, name, None)
    except (S.Raised, A.Undecided):
        return None


def history(ev, out, back, ref, names, out_cls, fs, fmt, spec):
    """A second, different document loaded afterwards must not change what the first loaded object holds, and must itself be faithful."""
    th2 = clone(_attr(out, "theory")) or {}
    th2["ID"] = 4242
    ob2 = clone(_attr(out, "observables")) or {}
    ob2["prDIS"] = "other-card"
    out.attrs["theory"], out.attrs["observables"] = th2, ob2
    dropped = spec["obs"][-1] if len(spec["obs"]) > 1 else None
    names2 = set(names)
    if dropped:
        out.store.pop(dropped, None)
        names2.discard(dropped)
    ref2 = describe_output(out, names2)
    if fmt == "yaml":
        doc = ev.call(ev.getattr(out, "dump_yaml", None), [], {})
        other = ev.call(ev.getattr(S.ClassVal(ev, out_cls), "load_yaml", None), [doc], {})
    else:
        p = VPath(fs, "/results/other.tar")
        ev.call(ev.getattr(out, "dump_tar", None), [p], {})
        other = ev.call(ev.getattr(S.ClassVal(ev, out_cls), "load_tar", None), [p], {})
    d = diff_desc(ref2, describe_output(other, names2))
    if d:
        return f"a second, different document loaded in the same process is not faithful: {d}"
    d = diff_desc(ref, describe_output(back, names))
    if d:
        return f"loading a second, different document changes the object loaded first (state shared between loaded objects): {d}"
    if other is back:
        return "two loads hand out the same object"
    return None


def diff_desc(a, b):
    for k in a["observables"]:
        if k not in b["observables"]:
            return f"observable {k} is lost"
        pa, pb = a["observables"][k], b["observables"][k]
        if (pa is None) != (pb is None):
            return f"observable {k}: None-ness changes"
        if pa is None:
            continue
        if len(pa) != len(pb):
            return f"observable {k}: {len(pa)} points become {len(pb)}"
        for i, (x, y) in enumerate(zip(pa, pb)):
            for f in ("cls", "x", "Q2", "nf", "y"):
                if x.get(f) != y.get(f):
                    return f"observable {k} point {i}: {f} changes ({str(x.get(f))[:60]} -> {str(y.get(f))[:60]})"
            if [o[0] for o in x["orders"]] != [o[0] for o in y["orders"]]:
                return f"observable {k} point {i}: order keys change ({[o[0] for o in x['orders']]} -> {[o[0] for o in y['orders']]})"
            for (ko, va, ea), (_, vb, eb) in zip(x["orders"], y["orders"]):
                if va != vb:
                    return f"observable {k} point {i} order {ko}: operator values change"
                if ea != eb:
                    return f"observable {k} point {i} order {ko}: operator errors change"
    for k in b["observables"]:
        if k not in a["observables"]:
            return f"observable {k} appears"
    for k in set(a["meta"]) | set(b["meta"]):
        if a["meta"].get(k) != b["meta"].get(k):
            return f"metadata '{k}' changes ({str(a['meta'].get(k))[:70]} -> {str(b['meta'].get(k))[:70]})"
    if a["theory"] != b["theory"]:
        return "echoed theory card changes"
    if a["cards_observables"] != b["cards_observables"]:
        return "echoed observables card changes"
    return None


def build_output(proj, spec, fs):
    cell = R.Cell(obs=spec["obs"][0], process=spec["process"], fns=spec["fns"], nfff=spec["nfff"], nf=4, pto=spec["pto"], tmc=0,
                  projectile=spec["projectile"], ren_sv=spec["sv"], fact_sv=spec["sv"], kin_y=True)
    th = R.theory_card(cell)
    ob = R.observables_card(cell, n_points=2)
    kin = ob["observables"][spec["obs"][0]]
    kin[0]["Q2"], kin[1]["Q2"] = 20, 10
    ob["observables"] = {}
    xs_kinds = set(S.Evaluator(proj).module_global(proj.module("yadism.observable_name"), "xs"))
    for i_, name in enumerate(spec["obs"]):
        # every observable at its own points (another x, another Q2, another number of points): tables shared between observables of one
        # result type, or points paired by position with another observable's rows, cannot hide behind identical kinematics
        ks = [dict(k) for k in kin]
        for k in ks:
            k["x"] = k["x"] * Fraction(1, i_ + 1)
            k["Q2"] = k["Q2"] + i_
        if i_ == 1:
            ks = ks[:1]
        if name.split("_")[0] not in xs_kinds:
            for k in ks:
                k.pop("y")
        ob["observables"][name] = ks
    if spec["empty"]:
        ob["observables"]["F2_top"] = []
    ext = {
        "eko.interpolation.XGrid": R._xgrid,
        "eko.interpolation.InterpolatorDispatcher": R._interpolator,
        "eko.quantities.heavy_quarks.MatchingScales": R._matching_scales,
        "eko.matchings.Atlas": R._atlas,
        "eko.matchings.nf_default": R.make_nf_default(cell),
        "numpy.searchsorted": R.make_searchsorted(cell),
        "numpy.digitize": R.make_digitize(cell),
    }
    ext.update(make_io(fs))
    ev = S.Evaluator(proj, on_call=P.above_threshold_hook, on_compare=R.make_compare(True), lenient_ext=True, ext_calls=ext)
    R._install_eko_overrides(ev, proj, ext)
    runner = ev.instantiate(S.ClassVal(ev, proj.cls("yadism.runner", "Runner")), [th, ob], {})
    R.install_result_summaries(ev)
    R.opaque_weights(ev)
    out = ev.call(ev.getattr(runner, "get_result", None), [], {})
    if spec["none"]:
        out.store["FL_bottom"] = None
    if spec.get("zero_errors"):
        pts = out.store[spec["obs"][0]]
        pt = pts[-1] if spec["zero_errors"] == "last" else pts[0]
        for k_, (v_, e_) in list(pt.attrs["orders"].items()):
            zero = S.Arr([[0 for _ in row] for row in e_.data]) if e_.data and isinstance(e_.data[0], list) else S.Arr([0 for _ in e_.data])
            pt.attrs["orders"][k_] = (v_, zero)
    # the result API carries nf: exercise it on one point
    first = out.store[spec["obs"][0]]
    if first:
        first[0].attrs["nf"] = 4
    names = set(spec["obs"]) | ({"F2_top"} if spec["empty"] else set()) | ({"FL_bottom"} if spec["none"] else set())
    return ev, out, names


def _job(spec):
    from .. import model

    proj = model.project()
    fs = VFS()
    try:
        ev, out, names = build_output(proj, spec, fs)
    except A.Undecided as e:
        return ("undecided", f"output not foldable: {e}"[:200])
    except S.Raised as e:
        return ("undecided", f"building the output ends in {e.etype}: {e.msg} (C16 business)"[:200])
    _EV[0] = ev
    ref = describe_output(out, names)
    out_cls = proj.cls("yadism.output", "Output")
    problems = []
    n_values = sum(len(p["orders"]) for v in ref["observables"].values() if v for p in v)
    fmt = spec["format"]
    try:
        if fmt == "yaml":
            doc = ev.call(ev.getattr(out, "dump_yaml", None), [], {})
            back = ev.call(ev.getattr(S.ClassVal(ev, out_cls), "load_yaml", None), [doc], {})
            d = diff_desc(ref, describe_output(back, names))
            if d:
                problems.append(f"yaml round trip: {d}")
            else:
                doc2 = ev.call(ev.getattr(back, "dump_yaml", None), [], {})
                if snap(doc.tree) != snap(doc2.tree):
                    problems.append("yaml: a second dump of the loaded object differs from the first document")
            # through a file
            f = VFile(fs, "/out.yaml")
            ev.call(ev.getattr(out, "dump_yaml", None), [f], {})
            back2 = ev.call(ev.getattr(S.ClassVal(ev, out_cls), "load_yaml", None), [f], {})
            d = diff_desc(ref, describe_output(back2, names))
            if d:
                problems.append(f"yaml via stream: {d}")
            # through the file-name API
            if out_cls.find_method("dump_yaml_to_file") is not None and out_cls.find_method("load_yaml_from_file") is not None:
                ev.call(ev.getattr(out, "dump_yaml_to_file", None), ["/named.yaml"], {})
                back4 = ev.call(ev.getattr(S.ClassVal(ev, out_cls), "load_yaml_from_file", None), ["/named.yaml"], {})
                d = diff_desc(ref, describe_output(back4, names))
                if d:
                    problems.append(f"yaml via dump_yaml_to_file / load_yaml_from_file: {d}")
            if not problems:
                # repeated cycles may alternate formats: the object loaded from YAML goes through tar
                try:
                    p3 = VPath(fs, "/results/from_yaml.tar")
                    ev.call(ev.getattr(back, "dump_tar", None), [p3], {})
                    back3 = ev.call(ev.getattr(S.ClassVal(ev, out_cls), "load_tar", None), [p3], {})
                    d = diff_desc(ref, describe_output(back3, names))
                    if d:
                        problems.append(f"yaml then tar cycle: {d}")
                except S.Raised as e:
                    site, construct, stmt = sweep.locate(proj, e.node)
                    problems.append(f"an output loaded from YAML cannot go through a tar cycle: {e.etype}: {e.msg[:120]} at `{stmt[:60]}` ({construct})")
            if not problems:
                d = history(ev, out, back, ref, names, out_cls, fs, fmt, spec)
                if d:
                    problems.append(f"yaml: {d}")
        else:
            p = VPath(fs, "/results/out.tar")
            ev.call(ev.getattr(out, "dump_tar", None), [p], {})
            back = ev.call(ev.getattr(S.ClassVal(ev, out_cls), "load_tar", None), [p], {})
            d = diff_desc(ref, describe_output(back, names))
            if d:
                problems.append(f"tar round trip: {d}")
            else:
                p2 = VPath(fs, "/results/again.tar")
                ev.call(ev.getattr(back, "dump_tar", None), [p2], {})
                back2 = ev.call(ev.getattr(S.ClassVal(ev, out_cls), "load_tar", None), [p2], {})
                d = diff_desc(ref, describe_output(back2, names))
                if d:
                    problems.append(f"tar second cycle: {d}")
            try:
                ev.call(ev.getattr(out, "dump_tar", None), [VPath(fs, "/results/out.zip")], {})
                problems.append("dump_tar accepts a path without the .tar suffix")
            except S.Raised as r:
                if not S.raised_is(r, "ValueError"):
                    problems.append(f"wrong suffix ends in {r.etype}")
            if not problems:
                # repeated cycles may alternate formats: the object loaded from tar goes through YAML
                try:
                    doc3 = ev.call(ev.getattr(back, "dump_yaml", None), [], {})
                    back3 = ev.call(ev.getattr(S.ClassVal(ev, out_cls), "load_yaml", None), [doc3], {})
                    d = diff_desc(ref, describe_output(back3, names))
                    if d:
                        problems.append(f"tar then yaml cycle: {d}")
                except S.Raised as e:
                    site, construct, stmt = sweep.locate(proj, e.node)
                    problems.append(f"an output loaded from tar cannot go through a YAML cycle: {e.etype}: {e.msg[:120]} at `{stmt[:60]}` ({construct})")
            if not problems:
                d = history(ev, out, back, ref, names, out_cls, fs, fmt, spec)
                if d:
                    problems.append(f"tar: {d}")
    except A.Undecided as e:
        return ("undecided", f"{fmt}: {e}"[:200])
    except S.Raised as e:
        site, construct, stmt = sweep.locate(proj, e.node)
        problems.append(f"{fmt} round trip of a runner-produced output raises {e.etype}: {e.msg} at `{stmt[:70]}` ({construct})")
    return ("ok", problems[:3], len(problems), n_values)


def specs(tier):
    out = []
    mixes = [(["F2_charm", "FL_total"], "NC", "electron"), (["XSHERANC", "F2_total"], "NC", "positron"), (["XSCHORUSCC_charm", "F3_light"], "CC", "neutrino"),
             (["g1_light"], "NC", "electron"),
             # cross-section kinds whose names do not start with "XS" (they carry y as well)
             (["F1_total", "g5_total"], "NC", "electron"), (["FW_total", "F2_light"], "CC", "neutrino"),
             # every flavour spelling occurs with points (names are keys of files and documents: suffix / prefix handling must be exact)
             (["F2_top", "FL_bottom", "XSHERANC_top"], "NC", "electron")]
    for (obs, process, projectile), (fns, nfff), pto, sv, fmt, (empty, none_) in itertools.product(
        mixes, [("ZM-VFNS", 4), ("FFNS", 3)], [0, 2], [False, True], ["yaml", "tar"], [(False, False), (True, False), (False, True), (True, True)]
    ):
        if obs[0] == "F2_top" and (empty or none_ or sv):
            continue  # the empty / None slots of the other mixes use these very names
        if tier == "quick":
            if sv and not (pto == 2 and obs[0] in ("F2_charm", "XSHERANC")):
                continue
            if not sv and pto == 2 and obs[0] != "XSCHORUSCC_charm":
                continue
            if (empty, none_) == (True, True) and fns != "ZM-VFNS":
                continue
        elif sv and pto == 0:
            continue
        out.append(dict(obs=obs, process=process, projectile=projectile, fns=fns, nfff=nfff, pto=pto, sv=sv, format=fmt, empty=empty, none=none_))
    # outputs in which ONE point of the first observable carries exactly vanishing errors (what x = 1, or an order without integrals, gives)
    # while its other point does not: whatever a writer decides from one point's errors must not be applied to the whole observable
    for (obs, process, projectile), fmt, which in itertools.product(mixes[:3], ["yaml", "tar"], ["last", "first"]):
        out.append(dict(obs=obs, process=process, projectile=projectile, fns="ZM-VFNS", nfff=4, pto=1, sv=False, format=fmt, empty=False, none=False, zero_errors=which))
    return out


def run(rep, proj, tier):
    rep.explanation = (
        "Decides by folding the repository's own dump_yaml/load_yaml, dump_tar/load_tar, get_raw and from_document over a virtual file system "
        "(yaml, npz, tar, pathlib and tempfile modelled as stores that keep structure and values and refuse what the real formats cannot hold): "
        "for outputs produced by partially evaluated runs (structure functions and cross sections, two points each, scale-variation orders, an "
        "empty observable, a None observable) load(dump(out)) has identical observables, result classes, x, Q2, y, nf, order keys in order, "
        "operator values and errors (symbolic entries: any arithmetic, cast, rounding or mix-up on the value path changes the normal form), "
        "metadata (grid, pids, projectile, interpolation settings) and echoed cards, in both formats, through strings and streams, and over a "
        "second dump/load cycle. NOT decided: losslessness of float <-> text and of npz (library properties, trusted)."
    )
    rep.rule_text = "outputs from literal domains: 4 observable mixes x 2 schemes x PTO x scale variations x 2 formats x empty/None observables; distinct by label."
    rep.trusted_base = ["CPython ast", "yadsa partial evaluator", "the yaml/npz/tar/pathlib models in rules/c15.py (safe YAML holds only plain containers and scalars; "
                        "npz holds arrays by name; tar holds the files under the added directory)"]
    rep.assumptions = ["repr-based float serialisation of PyYAML and numpy's npz are exact for float64"]
    from . import state

    state.check(rep, proj, "C15.state", module_filter=lambda m: m.name in ('yadism.output', 'yadism.esf.result'))
    sp = specs(tier)
    outs = sweep.run_cells(_job, sp)
    n_ok = 0
    n_values = 0
    groups = {}
    for s_, o in zip(sp, outs):
        label = f"{s_['format']}|{'+'.join(s_['obs'])}|{s_['fns']}|PTO={s_['pto']}|sv={s_['sv']}|empty={s_['empty']}|none={s_['none']}" + (f"|{s_['zero_errors']} point without errors" if s_.get("zero_errors") else "")
        if o[0] == "undecided":
            rep.undecided("C15.roundtrip", "", label, o[1])
            continue
        _, problems, n, nv = o
        n_ok += 1
        n_values += nv
        if n == 0:
            rep.ok("C15.roundtrip", "", label, f"load(dump(out)) identical ({nv} operator blocks), second cycle identical")
        else:
            groups.setdefault(problems[0][:150], []).append(label)
    for msg, labels in sorted(groups.items()):
        rep.bad("C15.roundtrip", "src/yadism/output.py", msg.split(" raises ")[0][:60] + "|" + msg[-60:], f"{msg}; {len(labels)} output(s), e.g. {labels[0]}",
                key=msg[:120], data=dict(outputs=labels[:20]))
    rep.info["operator_blocks_compared"] = n_values
    rep.floor("outputs folded", n_ok, 40)
