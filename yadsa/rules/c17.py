"""C17 - applying a PDF contracts the operator with the right scales and couplings.

Decided by folding ESFResult.apply_pdf / EXSResult.apply_pdf / Output.apply_pdf_* on symbolic
operators and opaque PDF and coupling callables:
  (formula) result == sum over stored orders of  [alpha_s(xiR sqrt(Q2))/(4 pi)]^k alpha(xiR sqrt(Q2))^l
            ln(1/xiR^2)^i ln(1/xiF^2)^j  sum_{p provided, n} O[p, n] xf_p(x_n, xiF^2 Q2)/x_n ; the same
            for the error with the error operator; linear in the PDF; partons the PDF lacks never
            queried nor used; x, Q2 (and y) echoed;
  (args)    Output.apply_pdf_alphas_alphaqed_xir_xif routes pids, xgrid, alpha_s, alpha_qed, xiR, xiF to
            every point of every observable in that order and skips None observables and metadata;
  (alphas)  Output.apply_pdf_theory: fixed-flavour schemes (FFNS, FFN0, FONLL-*) evaluate
            a_s(muR^2, nf_to=NfFF), ZM-VFNS a_s(muR^2, nf_to=nf_default(muR^2, atlas(Qref^2, nfref;
            (m_q k_q)^2))), both times 4 pi; the Couplings object is built from the theory card's
            couplings/order/method/masses/ratios; alpha_qed is the card's value; XIR, XIF passed in
            that order; an unknown scheme raises.
Not decided: eko.couplings' running itself.
"""

from __future__ import annotations

import ast
import itertools
from fractions import Fraction

from .. import algebra as A
from .. import symeval as S
from ..model import AnalysisError

RES = "yadism.esf.result"
OUT = "yadism.output"


def einsum(ev, spec, a, b, **kw):
    if spec != "aj,aj":
        raise A.Undecided(f"einsum spec {spec}")
    s = 0
    for ra, rb in zip(a.data, b.data):
        for x, y in zip(ra, rb):
            s = ev.binop(ast.Add(), s, ev.binop(ast.Mult(), x, y))
    return s


class PdfProbe:
    def __init__(self, provided, answers="bool"):
        self.provided = set(provided)
        self.queried = []
        self.answers = answers  # how hasFlavor answers: Python bools (lhapdf's binding) or the integers 0 / 1 (a C-style binding, list.count, ...)

    def record(self):
        def has(pid):
            return (pid in self.provided) if self.answers == "bool" else int(pid in self.provided)

        def xfx(pid, z, mu2):
            self.queried.append(pid)
            return A.opaque("XF", (pid, S.num_norm(z), S.num_norm(mu2)))

        return S.record("pdf", hasFlavor=S._NativeFn(has), xfxQ2=S._NativeFn(xfx))


def make_result(ev, proj, cls_name, keys, pids, n, tag="O"):
    cls = proj.cls(RES, cls_name)
    x, Q2 = A.sym("xB", True), A.sym("Q2", True)
    args = [x, Q2] + ([A.sym("y", True)] if cls_name == "EXSResult" else []) + [4]
    res = ev.instantiate(S.ClassVal(ev, cls), args, {})
    for key in keys:
        v = S.Arr([[A.sym(f"{tag}{''.join(map(str, key))}_{p}_{j}") for j in range(n)] for p in range(len(pids))])
        e = S.Arr([[A.sym(f"E{tag}{''.join(map(str, key))}_{p}_{j}") for j in range(n)] for p in range(len(pids))])
        res.attrs["orders"][key] = (v, e)
    return res


def expected(keys, pids, grid, provided, tag, xiR, xiF, err=False):
    Q2 = A.sym("Q2", True)
    pi = A.sym("pi", True)
    muR = A.fn_sqrt(Q2) * xiR
    a_s = A.opaque("ALPHAS", (S.num_norm(muR),)) / (pi * 4)
    aem = A.opaque("ALPHAQED", (S.num_norm(muR),))
    tR = A.fn_log(A.Rat.const(1) / (xiR * xiR))
    tF = A.fn_log(A.Rat.const(1) / (xiF * xiF))
    muF2 = Q2 * xiF * xiF
    tot = A.Rat.const(0)
    for key in keys:
        k, l, i, j = key
        pref = A.rat_pow(a_s, k) * A.rat_pow(aem, l) * A.rat_pow(tR, i) * A.rat_pow(tF, j)
        s = A.Rat.const(0)
        for p, pid in enumerate(pids):
            if pid not in provided:
                continue
            for n_, z in enumerate(grid):
                o = A.sym(f"{'E' if err else ''}{tag}{''.join(map(str, key))}_{p}_{n_}")
                s = s + o * A.opaque("XF", (pid, z, S.num_norm(muF2))) / z
        tot = tot + pref * s
    return tot


def check_formula(rep, proj):
    pids = [22, -2, -1, 21, 1, 2]
    provided = {-1, 21, 1, 2}
    n = 2
    grid = [A.sym(f"xg{j}", True) for j in range(n)]
    keys = [(0, 0, 0, 0), (1, 0, 0, 0), (1, 0, 0, 1), (2, 0, 1, 0), (2, 1, 1, 2), (3, 0, 2, 1)]
    xiR, xiF = A.sym("xiR", True), A.sym("xiF", True)
    for cls_name, answers in (("ESFResult", "bool"), ("EXSResult", "bool"), ("ESFResult", "int")):
        cls = proj.cls(RES, cls_name)
        f = cls.find_method("apply_pdf")
        ev = S.Evaluator(proj, lenient_ext=True, ext_calls={"numpy.einsum": einsum})
        res = make_result(ev, proj, cls_name, keys, pids, n)
        probe = PdfProbe(provided, answers)
        alpha_s = S._NativeFn(lambda mu: A.opaque("ALPHAS", (S.num_norm(mu),)))
        alpha_qed = S._NativeFn(lambda mu: A.opaque("ALPHAQED", (S.num_norm(mu),)))
        construct = f"{cls.fq}.apply_pdf" + ("" if answers == "bool" else "[hasFlavor answers 0 / 1]")
        try:
            out = ev.call(ev.getattr(res, "apply_pdf", None), [probe.record(), pids, grid, alpha_s, alpha_qed, xiR, xiF], {})
        except A.Undecided as e:
            rep.undecided("C17.formula", f.site, construct, str(e))
            continue
        except S.Raised as e:
            rep.bad("C17.formula", f.site, construct, f"raises {e} on a well-formed request")
            continue
        problems = []
        if not isinstance(out, dict):
            problems.append(f"returns {type(out).__name__}")
        else:
            for name, err in (("result", False), ("error", True)):
                exp = expected(keys, pids, grid, provided, "O", xiR, xiF, err)
                got = out.get(name)
                if got is None or not A.equal(A.to_rat(S.num_norm(got)), exp, tol=Fraction(0)):
                    d = A.fmt_diffs(A.difference(A.to_rat(S.num_norm(got)), exp, tol=Fraction(0)), 2) if got is not None else "missing"
                    problems.append(f"'{name}' differs from sum_orders a_s^k alpha^l ln(1/xiR^2)^i ln(1/xiF^2)^j O.f/x: {d[:260]}")
            for name, symname in (("x", "xB"), ("Q2", "Q2")) + ((("y", "y"),) if cls_name == "EXSResult" else ()):
                v = out.get(name)
                if not (isinstance(v, A.Rat) and v.canon() == symname):
                    problems.append(f"'{name}' not echoed")
        if set(probe.queried) - provided:
            problems.append(f"queries partons the PDF does not provide: {sorted(set(probe.queried) - provided)}")
        rep.check(not problems, "C17.formula", f.site, construct,
                  f"result and error equal the documented contraction over {len(keys)} order keys, {len(provided)} provided of {len(pids)} partons", "; ".join(problems)[:600])
    # Q2 unset is rejected
    cls = proj.cls(RES, "ESFResult")
    ev = S.Evaluator(proj, lenient_ext=True, ext_calls={"numpy.einsum": einsum})
    res = ev.instantiate(S.ClassVal(ev, cls), [A.sym("xB"), None, 4], {})
    try:
        ev.call(ev.getattr(res, "apply_pdf", None), [PdfProbe(provided).record(), pids, grid, None, None, xiR, xiF], {})
        rep.bad("C17.formula", cls.site, f"{cls.fq}.apply_pdf[Q2 unset]", "a result without Q2 is contracted silently")
    except S.Raised as r:
        rep.check(S.raised_is(r, "ValueError"), "C17.formula", cls.site, f"{cls.fq}.apply_pdf[Q2 unset]", "rejected with ValueError", f"ends in {r}")
    except A.Undecided as e:
        rep.undecided("C17.formula", cls.site, f"{cls.fq}.apply_pdf[Q2 unset]", str(e))


def check_args(rep, proj):
    out_cls = proj.cls(OUT, "Output")
    f = out_cls.find_method("apply_pdf_alphas_alphaqed_xir_xif")
    ev = S.Evaluator(proj, lenient_ext=True, ext_calls={"numpy.einsum": einsum})
    out = ev.instantiate(S.ClassVal(ev, out_cls), [], {})
    pids = [21, 1, 2]
    grid = [A.sym("xg0", True), A.sym("xg1", True)]
    out.store["pids"] = pids
    out.store["xgrid"] = {"grid": grid, "log": True}
    out.store["projectilePID"] = 11
    calls = []

    def mk(name, i):
        def apply_pdf(*args):
            calls.append((name, i, args))
            return {"x": 0, "Q2": 0, "result": A.sym(f"R_{name}_{i}"), "error": 0}

        return S.record(f"{name}[{i}]", apply_pdf=S._NativeFn(apply_pdf))

    out.store["F2_charm"] = [mk("F2_charm", 0), mk("F2_charm", 1)]
    out.store["XSHERANC"] = [mk("XSHERANC", 0)]
    out.store["FL_light"] = None
    pdf = S.record("pdf")
    a_s, a_q = S.record("alpha_s"), S.record("alpha_qed")
    xiR, xiF = A.sym("xiR", True), A.sym("xiF", True)
    try:
        ret = ev.call(ev.getattr(out, "apply_pdf_alphas_alphaqed_xir_xif", None), [pdf, a_s, a_q, xiR, xiF], {})
    except (A.Undecided, S.Raised) as e:
        rep.bad("C17.args", f.site, f.fq, f"{type(e).__name__}: {e}") if isinstance(e, S.Raised) else rep.undecided("C17.args", f.site, f.fq, str(e))
        return
    problems = []
    if sorted((c[0], c[1]) for c in calls) != [("F2_charm", 0), ("F2_charm", 1), ("XSHERANC", 0)]:
        problems.append(f"points visited: {[(c[0], c[1]) for c in calls]}")
    for name, i, args in calls:
        ok = len(args) == 7 and args[0] is pdf and args[1] is pids and args[2] is grid and args[3] is a_s and args[4] is a_q and \
            isinstance(args[5], A.Rat) and args[5].canon() == "xiR" and isinstance(args[6], A.Rat) and args[6].canon() == "xiF"
        if not ok:
            problems.append(f"{name}[{i}] receives its arguments in another order/identity")
    store = ret.store if isinstance(ret, S.ObjVal) else ret
    if not isinstance(store, dict) or set(store) != {"F2_charm", "XSHERANC"}:
        problems.append(f"returned observables: {sorted(store) if isinstance(store, dict) else store}")
    elif [A.canon(r["result"]) for r in store["F2_charm"]] != ["R_F2_charm_0", "R_F2_charm_1"]:
        problems.append("per-point results not kept in order")
    rep.check(not problems, "C17.args", f.site, f.fq, "pids, xgrid, alpha_s, alpha_qed, xiR, xiF routed to every point in order; None observables and metadata skipped",
              "; ".join(problems)[:400])


def check_entry(rep, proj):
    """Output.apply_pdf(pdf) is apply_pdf_theory(pdf, <the theory card the output carries>): same PDF object, the output's own card.
    MaskedPDF(pdf, pids).xfxQ2 answers with the parent's value for an active pid and with exactly 0 for any other, and forwards every
    other attribute (hasFlavor, ...) to the parent."""
    out_cls = proj.cls(OUT, "Output")
    f = out_cls.find_method("apply_pdf")
    if f is not None:
        ev = S.Evaluator(proj, lenient_ext=True)
        got = []
        ev.summaries[f"{OUT}::Output.apply_pdf_theory"] = lambda ev_, self_, pdf_, theory_, *a, **k: got.append((self_, pdf_, theory_, a, k)) or "RESULT"
        out = ev.instantiate(S.ClassVal(ev, out_cls), [], {})
        card = {"PTO": 1, "marker": A.sym("THEORY_OF_THIS_OUTPUT")}
        try:
            ev.setattr(out, "theory", card, None) if hasattr(ev, "setattr") else out.attrs.__setitem__("theory", card)
            pdf = S.record("pdf")
            r = ev.call(ev.getattr(out, "apply_pdf", None), [pdf], {})
            ok = r == "RESULT" and len(got) == 1 and got[0][0] is out and got[0][1] is pdf and got[0][2] is card and not got[0][3] and not got[0][4]
            rep.check(ok, "C17.entry", f.site, f.fq, "forwards the PDF and the output's own theory card to apply_pdf_theory and returns its result",
                      f"calls: {[(type(g[1]).__name__, g[2] is card) for g in got]}; returns {r!r}")
        except A.Undecided as e:
            rep.undecided("C17.entry", f.site, f.fq, str(e))
        except S.Raised as e:
            rep.bad("C17.entry", f.site, f.fq, f"raises {e.etype}: {e.msg}")
    m_cls = proj.modules[OUT].classes.get("MaskedPDF") if OUT in proj.modules else None
    if m_cls is None:
        rep.note("C17.entry: no MaskedPDF class in the output module (nothing to decide)")
        return
    ev = S.Evaluator(proj, lenient_ext=True)
    asked = []

    def xfx(pid, x, q2):
        asked.append(S.num_norm(pid))
        return A.opaque("xf", (S.num_norm(pid), S.num_norm(x), S.num_norm(q2)))

    parent = S.record("pdf", xfxQ2=S._NativeFn(xfx), hasFlavor=S._NativeFn(lambda pid: True), marker="PARENT")
    xm = m_cls.find_method("xfxQ2")
    try:
        masked = ev.instantiate(S.ClassVal(ev, m_cls), [parent, [21, 1, -2]], {})  # a quark without its antiquark and vice versa
        x, q2 = A.sym("xB", True), A.sym("Q2", True)
        problems = []
        for pid in (21, 1, -2):
            v = ev.call(ev.getattr(masked, "xfxQ2", None), [pid, x, q2], {})
            if A.canon(S.num_norm(v)) != A.canon(A.opaque("xf", (pid, x, q2))):
                problems.append(f"active pid {pid}: {A.canon(S.num_norm(v))[:60]}")
        for pid in (2, -1, 5, 22):
            v = S.num_norm(ev.call(ev.getattr(masked, "xfxQ2", None), [pid, x, q2], {}))
            if isinstance(v, A.Rat) or v != 0:
                problems.append(f"masked pid {pid} gives {v}")
        if ev.getattr(masked, "marker", None) != "PARENT":
            problems.append("other attributes are not the parent's")
        rep.check(not problems, "C17.entry", (xm or m_cls).site, f"{m_cls.fq}.xfxQ2", "parent's value for active pids, exactly 0 for the others, other attributes forwarded",
                  "; ".join(problems))
    except A.Undecided as e:
        rep.undecided("C17.entry", m_cls.site, f"{m_cls.fq}.xfxQ2", str(e))
    except S.Raised as e:
        rep.bad("C17.entry", m_cls.site, f"{m_cls.fq}.xfxQ2", f"raises {e.etype}: {e.msg}")


def check_alphas(rep, proj):
    out_cls = proj.cls(OUT, "Output")
    f = out_cls.find_method("apply_pdf_theory")
    for fns in ("FFNS", "FFN0", "FONLL-FFNS", "FONLL-FFN0", "ZM-VFNS", "VFNS-X"):
        built = {}

        def Legacy(ev, theory=None, operator=None, **kw):
            heavy = S.record("heavy", masses=[(A.sym("mc", True), None), (A.sym("mb", True), None), (A.sym("mt", True), None)],
                             matching_ratios=[A.sym("kcThr", True), A.sym("kbThr", True), A.sym("ktThr", True)],
                             squared_ratios=[A.sym(k, True) * A.sym(k, True) for k in ("kcThr", "kbThr", "ktThr")], masses_scheme="POLE")
            nt = S.record("new_theory", couplings=S.record("CARD_COUPLINGS"), order=S.record("CARD_ORDER"), heavy=heavy)
            built["legacy_theory"] = theory
            built["nt"] = nt
            return S.record("Legacy", new_theory=nt)

        def Couplings(ev, **kw):
            built["couplings_kw"] = kw

            def a_s(scale, nf_to=None, **k2):
                return A.opaque("AS_EKO", (S.num_norm(scale), nf_to if not isinstance(nf_to, A.Rat) else S.num_norm(nf_to)))

            return S.record("Couplings", a_s=S._NativeFn(a_s))

        def Atlas(ev, matching_scales=None, origin=None, **kw):
            built["atlas"] = (matching_scales, origin)
            return S.record("Atlas", matching_scales=matching_scales, origin=origin)

        def nf_default(ev, mu2, atlas):
            built["nf_default"] = (S.num_norm(mu2), atlas)
            return "NF_DEFAULT"

        captured = {}

        ext = {
            "eko.io.runcards.Legacy": Legacy,
            "eko.couplings.Couplings": Couplings,
            "eko.couplings.couplings_mod_ev": lambda ev, m: S.record("METHOD"),
            "eko.io.dictlike.load_enum": lambda ev, t, m: m,
            "eko.matchings.Atlas": Atlas,
            "eko.matchings.nf_default": nf_default,
            "eko.quantities.heavy_quarks.MatchingScales": lambda ev, s: list(s.data if isinstance(s, S.Arr) else s),
        }
        ev = S.Evaluator(proj, lenient_ext=True, ext_calls=ext)
        from .. import runmodel as R

        R._install_eko_overrides(ev, proj, ext)
        # `runcards.Legacy.MOD_EV2METHOD.get(...)`: attribute of the summary -> make the module attribute a record
        legacy_rec = S.record("LegacyCls", MOD_EV2METHOD={"EXA": "iterate-exact"})
        legacy_callable = S._NativeFn(lambda **kw: Legacy(ev, **kw))
        out = ev.instantiate(S.ClassVal(ev, out_cls), [], {})

        def aaxx(ev_, self_, pdf, alpha_s, alpha_qed, xiR, xiF):
            captured.update(alpha_s=alpha_s, alpha_qed=alpha_qed, xiR=xiR, xiF=xiF)
            return "RET"

        ev.summaries[f"{OUT}::Output.apply_pdf_alphas_alphaqed_xir_xif"] = aaxx
        # runcards module record
        legacy_rec.attrs["__call__"] = legacy_callable
        runcards = S.record("runcards", Legacy=legacy_rec)
        ev.overrides[f"{OUT}::runcards"] = runcards
        theory = {"FNS": fns, "NfFF": 4, "ModEv": "EXA", "Qref": A.sym("Qref", True), "nfref": 5, "alphaqed": A.sym("alphaqed", True),
                  "XIR": A.sym("xiR", True), "XIF": A.sym("xiF", True)}
        construct = f"{f.fq}[{fns}]"
        try:
            ret = ev.call(ev.getattr(out, "apply_pdf_theory", None), [S.record("pdf"), theory], {})
        except S.Raised as r:
            if fns == "VFNS-X":
                rep.check(S.raised_is(r, "ValueError") and isinstance(r.node, ast.Raise), "C17.alphas", f.site, construct, "unknown scheme raises ValueError", f"ends in {r}")
            else:
                rep.bad("C17.alphas", f.site, construct, f"documented scheme raises {r}")
            continue
        except A.Undecided as e:
            rep.undecided("C17.alphas", f.site, construct, str(e))
            continue
        if fns == "VFNS-X":
            rep.bad("C17.alphas", f.site, construct, "unknown flavour scheme silently falls into one of the branches")
            continue
        problems = []
        mu = A.sym("MUR", True)
        try:
            val = ev.call(captured["alpha_s"], [mu], {})
            pi = A.sym("pi", True)
            if fns == "ZM-VFNS":
                exp = A.opaque("AS_EKO", (S.num_norm(mu * mu), "NF_DEFAULT")) * pi * 4
                nd = built.get("nf_default")
                if not nd or not A.equal(A.to_rat(nd[0]), mu * mu, tol=Fraction(0)):
                    problems.append("nf_default not evaluated at muR^2")
                at = built.get("atlas")
                if not at:
                    problems.append("no atlas built")
                else:
                    scales, origin = at
                    scales = scales.data if isinstance(scales, S.Arr) else scales
                    exp_s = [(A.sym(f"m{q}", True) * A.sym(f"k{q}Thr", True)) ** 2 if False else A.sym(f"m{q}", True) * A.sym(f"m{q}", True) * A.sym(f"k{q}Thr", True) * A.sym(f"k{q}Thr", True) for q in "cbt"]
                    if len(scales) != 3 or not all(A.equal(A.to_rat(S.num_norm(g)), e, tol=Fraction(0)) for g, e in zip(scales, exp_s)):
                        problems.append("atlas matching scales are not (m_q k_q)^2 in order c,b,t")
                    if not (isinstance(origin, tuple) and A.equal(A.to_rat(S.num_norm(origin[0])), A.sym("Qref", True) * A.sym("Qref", True), tol=Fraction(0)) and origin[1] == 5):
                        problems.append(f"atlas origin {origin} is not (Qref^2, nfref)")
            else:
                exp = A.opaque("AS_EKO", (S.num_norm(mu * mu), 4)) * pi * 4
            if not A.equal(A.to_rat(S.num_norm(val)), exp, tol=Fraction(0)):
                problems.append(f"alpha_s(muR) = {A.canon(S.num_norm(val))[:80]}, expected 4 pi a_s(muR^2, nf_to={'nf_default' if fns == 'ZM-VFNS' else 'NfFF'})")
            aq = ev.call(captured["alpha_qed"], [mu], {})
            if not (isinstance(aq, A.Rat) and aq.canon() == "alphaqed"):
                problems.append("alpha_qed is not the theory card's value")
        except (A.Undecided, S.Raised) as e:
            problems.append(f"coupling callables not foldable: {e}")
        if not (isinstance(captured.get("xiR"), A.Rat) and captured["xiR"].canon() == "xiR" and captured["xiF"].canon() == "xiF"):
            problems.append("XIR/XIF not passed in that order")
        kw = built.get("couplings_kw", {})
        nt = built.get("nt")
        if nt is not None:
            if kw.get("couplings") is not nt.attrs["couplings"] or kw.get("order") is not nt.attrs["order"]:
                problems.append("Couplings not built from the theory card's reference couplings/order")
            masses = kw.get("masses")
            if not (isinstance(masses, list) and [A.canon(S.num_norm(m)) for m in masses] == ["mc^2", "mb^2", "mt^2"]):
                problems.append(f"Couplings masses {masses} are not the squared card masses")
        if built.get("legacy_theory") is not theory:
            problems.append("eko theory not derived from the given theory card")
        rep.check(not problems, "C17.alphas", f.site, construct, "scheme branch, nf_to, 4 pi rescaling, atlas, card couplings and scale ratios as documented", "; ".join(problems)[:500], key=fns)


class _LegacyProxy(S.ObjVal):
    """runcards.Legacy: callable (constructor) with a class attribute MOD_EV2METHOD."""

    def __init__(self, fn, rec):
        super().__init__(None, dict(rec.attrs), label="Legacy")
        self.fn = fn

    def __call__(self, *a, **k):
        return self.fn(*a, **k)


def run(rep, proj, tier):
    rep.explanation = (
        "Decides by folding the repository's apply_pdf code on symbolic operators with opaque PDF/coupling callables: the returned result and "
        "error equal sum over stored orders of [alpha_s(xiR sqrt Q2)/(4 pi)]^k alpha(xiR sqrt Q2)^l ln(1/xiR^2)^i ln(1/xiF^2)^j sum_{provided p, n} "
        "O[p,n] xf_p(x_n, xiF^2 Q2)/x_n for ESFResult and EXSResult (six order keys incl. mixed powers; missing partons never queried; x, Q2, y "
        "echoed; unset Q2 rejected); Output routes its arguments to every point of every observable in order and skips None observables and "
        "metadata; apply_pdf_theory picks a_s(muR^2, nf_to=NfFF) x 4 pi for FFNS/FFN0/FONLL-*, a_s(muR^2, nf_to=nf_default(muR^2, atlas((m_q k_q)^2; "
        "Qref^2, nfref))) x 4 pi for ZM-VFNS, builds Couplings from the card's couplings/order/masses, uses the card's alphaqed and XIR, XIF in "
        "order, and raises on an unknown scheme. NOT decided: eko.couplings' running."
    )
    rep.rule_text = "instances: 2 result classes, 1 routing method, 6 scheme literals; distinct by construct."
    rep.trusted_base = ["CPython ast", "yadsa partial evaluator", "numpy.einsum('aj,aj') = double contraction", "eko.io.runcards/eko.couplings API shape as summarised in rules/c17.py"]
    rep.assumptions = ["alpha_s and alpha_qed callables are pure"]
    from . import state

    state.check(rep, proj, "C17.state", module_filter=lambda m: m.name in ('yadism.output', 'yadism.esf.result'))
    check_formula(rep, proj)
    check_args(rep, proj)
    check_entry(rep, proj)
    check_alphas(rep, proj)
