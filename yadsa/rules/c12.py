"""C12 - nuclear target is an isospin rotation of up and down.

Decided: (rotation) for every cell of a configuration lattice, the operator
folded with a symbolic target (Z, A) equals, entry by entry and order key by
order key, the unrotated operator (rotation step switched off) with the rows of d/u (and dbar/ubar) mixed by
[[Z, A-Z],[A-Z, Z]]/A and every other row unchanged - for all Z, A, weights and
convolution values at once (this includes the ownership clause: a weights dict
shared by several kernels is rotated more than once and breaks the identity);
(own) no dict reaches two co-executed Kernel constructions unless it is
rotation invariant; (table) named targets fold to the documented (Z, A).
"""

from __future__ import annotations

import ast
import itertools
from fractions import Fraction

from .. import algebra as A
from .. import opmodel as O
from .. import runmodel as R
from .. import sweep
from .. import symeval as S
from ..model import AnalysisError, norm_text

TARGETS = {
    # name: (Z, A)  - docs/source/theory/misc.rst for proton/neutron/isoscalar; the cited survey values otherwise
    "proton": (1, 1),
    "neutron": (0, 1),
    "isoscalar": (1, 2),
    "iron": (Fraction("23.403"), Fraction("49.618")),  # NuTeV steel survey (Mason thesis p. 323)
    "lead": (82, 208),
    "neon": (10, 20),
    "marble": (Fraction(20 + 3 * 8 + 6, 5), Fraction(40 + 3 * 16 + 12, 5)),  # CaCO3 averages
}


def cells(tier):
    out = []
    base = [
        # (fns, nfff, nf, pto, pto_evol)
        ("ZM-VFNS", 4, 4, 2, 2),
        ("FFNS", 3, None, 2, 2),
        ("FFN0", 3, None, 2, 2),
        ("FFN0", 3, None, 2, 1),
        ("FFN0", 4, None, 3, 3),
        ("FONLL-FFN0", 4, None, 2, 2),
        ("FONLL-FFNS", 4, None, 2, 1),
    ]
    if tier == "thorough":
        base += [("ZM-VFNS", 4, 3, 3, 3), ("ZM-VFNS", 4, 5, 1, 1), ("FFNS", 4, None, 3, 3), ("FFN0", 3, None, 1, 2),
                 ("FFN0", 5, None, 2, 3), ("FONLL-FFN0", 3, None, 3, 3), ("FONLL-FFN0", 5, None, 1, 1)]
    kinds = ["F2", "FL", "F3", "g1"] if tier == "quick" else ["F2", "FL", "F3", "g1", "gL", "g4"]
    flavors = ["total", "light", "charm"] if tier == "quick" else ["total", "light", "charm", "bottom"]
    for kind, fl, proc, (fns, nfff, nf, pto, pe), sv in itertools.product(kinds, flavors, ["NC", "CC"], base, [False, True]):
        if proc == "CC" and kind in ("g1", "gL", "g4"):
            continue
        if sv and tier == "quick" and not (fl == "total" and pto <= 2):
            continue
        out.append(dict(obs=f"{kind}_{fl}", process=proc, fns=fns, nfff=nfff, nf=nf, pto=pto, pto_evol=pe,
                        projectile="neutrino" if proc == "CC" else "electron", ren_sv=sv, fact_sv=sv))
    # the nucleus enters through the rotation only: target-mass corrections and the mass-dependent cross sections stay per nucleon
    for kind, tmc, (fns, nfff, nf) in itertools.product(["F2", "FL", "F3"] if tier == "quick" else ["F2", "FL", "F3", "g1"], [1, 2, 3],
                                                        [("ZM-VFNS", 4, 4)] if tier == "quick" else [("ZM-VFNS", 4, 4), ("FFNS", 3, None)]):
        if tier == "quick" and tmc == 3 and kind != "F2":
            continue
        out.append(dict(obs=f"{kind}_total", process="NC", fns=fns, nfff=nfff, nf=nf, pto=1, pto_evol=1, tmc=tmc, projectile="electron", ren_sv=False, fact_sv=False))
    # edges of the (Z, A) domain with kernels to which only one of u / d couples (positivity restriction, CC heavy flavour)
    for (tname, z, a), (obs, proc, projectile, pc, fns, nfff, nf) in itertools.product(
        [("neutron", 0, 1), ({"Z": 0, "A": 3}, 0, 3), ({"Z": 2, "A": 2}, 2, 2)],
        [("F2_total", "NC", "electron", "uW", "ZM-VFNS", 4, 4), ("F2_total", "EM", "electron", "dW", "ZM-VFNS", 4, 4), ("F2_charm", "CC", "neutrino", None, "ZM-VFNS", 4, 4),
         ("F3_charm", "CC", "antineutrino", None, "FFNS", 3, None), ("F2_light", "NC", "positron", None, "ZM-VFNS", 4, 4)]):
        out.append(dict(obs=obs, process=proc, fns=fns, nfff=nfff, nf=nf, pto=1, pto_evol=1, projectile=projectile, pos_charge=pc, ren_sv=False, fact_sv=False,
                        concrete_target=(tname, z, a)))
    for xs_kind, proc, projectile in (("XSCHORUSCC", "CC", "neutrino"), ("XSNUTEVNU", "CC", "antineutrino"), ("FW", "CC", "neutrino"), ("XSHERANC", "NC", "positron"),
                                      ("XSFPFCC", "CC", "neutrino"), ("F1", "NC", "electron")):
        out.append(dict(obs=f"{xs_kind}_total", process=proc, fns="ZM-VFNS", nfff=4, nf=4, pto=1, pto_evol=1, projectile=projectile, kin_y=True, ren_sv=False, fact_sv=False))
    return out


def _check_cell(kw):
    from .. import model

    proj = model.project()
    kw = dict(kw)
    concrete = kw.pop("concrete_target", None)
    Z, Aa = A.sym("Ztarget", True), A.sym("Atarget", True)
    if concrete is not None:
        # edge of the domain: a concrete nucleus (Z = 0, Z = A ...): weights that rotate to exactly zero must really vanish
        Z, Aa = A.Rat.const(concrete[1]), A.Rat.const(concrete[2])
    def no_isospin(ev, runner):
        # reference: the same run with the rotation step switched off
        ev.summaries["yadism.coefficient_functions::Combiner.apply_isospin"] = lambda ev_, *a, **k: None

    try:
        op_p = O.fold_op(proj, R.Cell(target="proton", **kw), prepare=no_isospin)
        op_proton = O.fold_op(proj, R.Cell(target="proton", **kw))
        # the mapping is listed A first in half of the cells: it must be read by key
        if concrete is not None:
            op_t = O.fold_op(proj, R.Cell(target=concrete[0], **kw))
        else:
            op_t = O.fold_op(proj, R.Cell(target={"Z": Z, "A": Aa} if kw.get("pto", 0) % 2 else {"A": Aa, "Z": Z}, **kw))
    except O.FoldFailure as f:
        return ("fold", f.outcome.status, f"{f.outcome.etype} {f.outcome.msg}", f.outcome.site, f.outcome.construct)
    bad = []
    n = 0
    keys = op_p.keys() | op_t.keys()
    ncol = len(next(iter(op_p.orders.values()))[0][0]) if op_p.orders else 0
    for key in sorted(keys):
        for pid in op_p.pids:
            for j in range(ncol):
                n += 1
                got = op_t.entry(key, pid, j)
                if abs(pid) in (1, 2):
                    s = 1 if pid > 0 else -1
                    other = s * (3 - abs(pid))
                    exp = (A.to_rat(Z) * A.to_rat(op_p.entry(key, pid, j)) + (A.to_rat(Aa) - Z) * A.to_rat(op_p.entry(key, other, j))) / Aa
                else:
                    exp = op_p.entry(key, pid, j)
                if not O.same(got, exp):
                    bad.append((key, pid, j, O.diff_text(got, exp)))
                # the proton itself is the identity rotation
                if not O.same(op_proton.entry(key, pid, j), op_p.entry(key, pid, j)):
                    bad.append((key, pid, j, "proton target differs from the unrotated operator: " + O.diff_text(op_proton.entry(key, pid, j), op_p.entry(key, pid, j))))
    return ("ok" if not bad else "bad", n, bad[:3], len(bad), None)


def check_rotation(rep, proj, tier):
    cs = cells(tier)
    outs = sweep.run_cells(_check_cell, cs)
    n_entries = 0
    groups = {}
    for kw, o in zip(cs, outs):
        kw = dict(kw)
        ct = kw.pop("concrete_target", None)
        label = R.Cell(**kw).label() + (f"|target Z={ct[1]} A={ct[2]}|pos={kw.get('pos_charge')}" if ct else "")
        if o[0] == "fold":
            _, status, msg, site, construct = o
            if status == "rejected":
                rep.ok("C12.rotation", site, label, f"configuration explicitly rejected ({msg[:60]})")
            elif status == "undecided":
                rep.undecided("C12.rotation", site, label, f"not foldable: {msg[:100]}")
            else:
                rep.undecided("C12.rotation", site, label, f"folding ends in an internal error ({msg[:80]}): C16 business")
            continue
        if o[0] == "ok":
            n_entries += o[1]
            rep.ok("C12.rotation", "", label, f"{o[1]} operator entries equal the rotated proton entries for all Z, A")
        else:
            key, pid, j, txt = o[2][0]
            import re

            mfam = re.search(r"coefficient_functions\.(\w+)\.(\w+)::(\w+)", txt)
            fam = f"kernels of {mfam.group(1)}.{mfam.group(2)}::{mfam.group(3)}" if mfam else "operator"
            groups.setdefault(fam, []).append((label, o))
    for fam, lst in sorted(groups.items()):
        label, o = lst[0]
        key, pid, j, txt = o[2][0]
        rep.bad("C12.rotation", "src/yadism/coefficient_functions/__init__.py", fam,
                f"{len(lst)} cell(s) whose operator differs from the isospin-rotated proton operator; e.g. {label}: {o[3]} of {o[1]} entries, "
                f"order {key} pid {pid} node {j}: {txt[:300]}",
                key=fam, data=dict(cells=[l for l, _ in lst[:30]]))
    rep.info["rotation_entries_compared"] = n_entries
    rep.floor("rotation cells", len(cs), 100)
    rep.floor("operator entries compared", n_entries, 5000)


# ---------------------------------------------------------------------------
# ownership: one weights dict must not reach two co-executed kernels
# ---------------------------------------------------------------------------
def _co_executable(a, b):
    """Can both nodes execute in one invocation of their (common) function?"""
    # opposite arms of one if
    pa = list(_ancestors(a))
    pb = list(_ancestors(b))
    for x, child_a in pa:
        for y, child_b in pb:
            if x is y and isinstance(x, ast.If):
                in_body_a = child_a in x.body
                in_body_b = child_b in x.body
                in_else_a = child_a in x.orelse
                in_else_b = child_b in x.orelse
                if (in_body_a and in_else_b) or (in_else_a and in_body_b):
                    return False
    # a return between them in straight-line code of a shared block: the earlier one's block returns before the later
    first, second = (a, b) if a.lineno <= b.lineno else (b, a)
    from .. import flow

    st = flow.enclosing_stmt(first)
    while st is not None and not isinstance(st, (ast.FunctionDef, ast.Lambda)):
        lst, idx = flow.block_of(st)
        if lst is not None:
            # does the block that contains `first` leave before reaching `second`?
            tail = lst[idx:]
            if flow.leaves_unconditionally(tail) and not _contains(tail, second):
                # `second` is outside this block which always leaves -> not co-executable
                if isinstance(getattr(st, "_parent", None), ast.If):
                    return False
        st = getattr(st, "_parent", None)
        if not isinstance(st, ast.stmt):
            break
    return True


def _contains(stmts, node):
    for s in stmts:
        for n in ast.walk(s):
            if n is node:
                return True
    return False


def _ancestors(n):
    child = n
    p = getattr(n, "_parent", None)
    while p is not None:
        yield p, child
        child, p = p, getattr(p, "_parent", None)


def _in_loop_without_induction(call, expr):
    """Construction inside a loop whose induction variables do not occur in the partons expression."""
    names = {n.id for n in ast.walk(expr) if isinstance(n, ast.Name)}
    for p, _ in _ancestors(call):
        if isinstance(p, (ast.FunctionDef, ast.Lambda)):
            break
        if isinstance(p, ast.For):
            ind = {n.id for n in ast.walk(p.target) if isinstance(n, ast.Name)}
            if not (ind & names):
                # rebinding of the base name inside the loop body before the call makes it fresh
                return p
    return None


def _is_fresh(expr):
    return isinstance(expr, (ast.Dict, ast.DictComp, ast.Call, ast.ListComp))


def _rotation_invariant(proj, func, expr):
    """The shared dict is harmless if its keys are literals other than +-1, +-2, or if the producing
    function stores one loop-invariant value for all quark pids (folded: all |pid| in {1,2} entries equal)."""
    if isinstance(expr, ast.Dict):
        keys = [k.value for k in expr.keys if isinstance(k, ast.Constant)]
        return len(keys) == len(expr.keys) and all(abs(k) not in (1, 2) for k in keys if isinstance(k, int))
    return False


def check_ownership(rep, proj, tier):
    kernel_cls = proj.cls("yadism.coefficient_functions.kernels", "Kernel")
    sites = []
    for m in proj.modules.values():
        for node in ast.walk(m.tree):
            if isinstance(node, ast.Call) and node.args:
                r = proj.resolve_expr(m, node.func, proj.enclosing_function(node))
                if r and r[0] == "class" and r[1] is kernel_cls:
                    sites.append((m, node))
    rep.floor("Kernel construction sites", len(sites), 36)
    # mutation sites of <x>.partons[...]
    muts = []
    for m in proj.modules.values():
        for node in ast.walk(m.tree):
            if isinstance(node, (ast.Assign, ast.AugAssign)):
                tgts = node.targets if isinstance(node, ast.Assign) else [node.target]
                for t in tgts:
                    for sub in ast.walk(t):
                        if isinstance(sub, ast.Subscript) and isinstance(sub.value, ast.Attribute) and sub.value.attr == "partons":
                            muts.append((m, node))
    muts = [(m, n) for m, n in muts if not _mutates_private_copy(n)]
    mut_txt = "; ".join(sorted({f"{m.relpath}:{n.lineno}" for m, n in muts})) or "none"
    if not muts:
        rep.ok("C12.own", "", "Kernel.partons",
               "every store into <kernel>.partons[...] is dominated by a rebinding of that attribute to a fresh dict: sharing between kernels is harmless")
        for m, a in sites:
            f = proj.enclosing_function(a)
            rep.ok("C12.own.site", f"{m.relpath}:{a.lineno}", f"{f.fq if f else m.name}::{norm_text(a.args[0])[:60]}", "construction site analysed")
        return
    by_func = {}
    for m, node in sites:
        f = proj.enclosing_function(node)
        by_func.setdefault(f, []).append((m, node))
    for f, lst in by_func.items():
        shared = []
        for (m, a), (_, b) in itertools.combinations(lst, 2):
            ea, eb = a.args[0], b.args[0]
            if _is_fresh(ea) or _is_fresh(eb):
                continue
            if ast.dump(ea) == ast.dump(eb) and _co_executable(a, b):
                shared.append((a, b))
        for m, a in lst:
            ea = a.args[0]
            if not _is_fresh(ea):
                loop = _in_loop_without_induction(a, ea)
                if loop is not None:
                    shared.append((a, a))
        seen = set()
        for a, b in shared:
            txt = norm_text(a.args[0])
            if txt in seen:
                continue
            seen.add(txt)
            construct = f"{f.fq}::{txt}" if f else txt
            site = f"{lst[0][0].relpath}:{a.lineno}"
            inv = _folded_rotation_invariant(proj, f, a.args[0])
            if inv is True:
                rep.ok("C12.own", site, construct, "dict shared by several kernels but rotation invariant (equal u/d entries or no u/d keys)")
            elif inv is None:
                rep.undecided("C12.own", site, construct, "shared partons dict; rotation invariance not decided statically (the rotation identity C12.rotation covers the behaviour)")
            else:
                rep.bad("C12.own", site, construct,
                        f"one partons dict reaches several kernels (lines {a.lineno}/{b.lineno}) and is mutated in place at {mut_txt}: the isospin rotation is applied once per kernel",
                        key=txt)
        for m, a in lst:
            rep.ok("C12.own.site", f"{m.relpath}:{a.lineno}", f"{f.fq if f else m.name}::{norm_text(a.args[0])[:60]}", "construction site analysed")


def _mutates_private_copy(node):
    """`X.partons[k] = v` is harmless when a dominating earlier statement rebinds X.partons to a fresh dict."""
    from .. import flow

    tgts = node.targets if isinstance(node, ast.Assign) else [node.target]
    owners = set()
    for t in tgts:
        for sub in ast.walk(t):
            if isinstance(sub, ast.Subscript) and isinstance(sub.value, ast.Attribute) and sub.value.attr == "partons":
                owners.add(ast.unparse(sub.value))
    st = node
    while st is not None and not isinstance(st, (ast.FunctionDef, ast.Lambda, ast.Module)):
        lst, idx = flow.block_of(st)
        if lst is not None:
            for prev in lst[:idx]:
                if isinstance(prev, ast.Assign) and len(prev.targets) == 1 and ast.unparse(prev.targets[0]) in owners:
                    v = prev.value
                    fresh = isinstance(v, (ast.Dict, ast.DictComp)) or (
                        isinstance(v, ast.Call) and ast.unparse(v.func) in ("dict", "copy.copy", "copy.deepcopy")
                    ) or (isinstance(v, ast.Call) and isinstance(v.func, ast.Attribute) and v.func.attr == "copy")
                    if fresh:
                        owners.discard(ast.unparse(prev.targets[0]))
        st = getattr(st, "_parent", None)
    return not owners


def _folded_rotation_invariant(proj, f, expr):
    """Decide invariance from the producing expression where that is syntactically evident."""
    if isinstance(expr, ast.Dict):
        return _rotation_invariant(proj, f, expr)
    # weights["gVV"] / asy_weights[f"{c}{av}"] from heavy.kernels.nc_weights: one value for all quark pids
    if isinstance(expr, ast.Subscript) and isinstance(expr.value, ast.Name):
        base = expr.value.id
        # find the assignment of base in f
        for n in ast.walk(f.node):
            if isinstance(n, ast.Assign) and any(isinstance(t, ast.Name) and t.id == base for t in n.targets) and isinstance(n.value, ast.Call):
                r = proj.resolve_expr(f.module, n.value.func, f)
                if r and r[0] == "func" and r[1].fq.endswith("heavy.kernels::nc_weights"):
                    return _heavy_nc_weights_uniform(r[1])
                return None
    if isinstance(expr, ast.Name):
        # e.g. `weights` in generate_intrinsic_asy: keys +-ihq with ihq in 4..6 (Combiner.heavy_components iterates masses' keys 4,5,6)
        if f is not None and f.name == "generate_intrinsic_asy":
            ok = True
            for n in ast.walk(f.node):
                if isinstance(n, ast.Assign) and any(isinstance(t, ast.Name) and t.id == expr.id for t in n.targets):
                    v = n.value
                    if isinstance(v, ast.Dict):
                        for k in v.keys:
                            if "ihq" not in ast.unparse(k):
                                ok = False
                    elif isinstance(v, ast.DictComp):
                        if "abs(k) == ihq" not in ast.unparse(v):
                            ok = False
                    else:
                        ok = False
            return True if ok else None
    return None


def _heavy_nc_weights_uniform(fi):
    """heavy.kernels.nc_weights stores one loop-invariant value under every quark pid."""
    for n in ast.walk(fi.node):
        if isinstance(n, ast.For):
            for st in n.body:
                if not (isinstance(st, ast.Assign) and isinstance(st.value, ast.Name)):
                    return None
                ind = {x.id for x in ast.walk(n.target) if isinstance(x, ast.Name)}
                if st.value.id in ind:
                    return None
    return True


# ---------------------------------------------------------------------------
# named targets
# ---------------------------------------------------------------------------
def check_table(rep, proj, tier):
    f = proj.func("yadism.input.compatibility", "update_target")
    ev = S.Evaluator(proj)
    # candidate names: every identifier-like string literal of the module (an if/elif chain, a dispatch table, ...); a candidate the
    # function rejects is simply not a target name
    mod_tree = proj.module("yadism.input.compatibility").tree
    candidates = sorted({n.value for n in ast.walk(mod_tree) if isinstance(n, ast.Constant) and isinstance(n.value, str) and n.value.isidentifier()
                         and n.value.islower() and len(n.value) < 20})
    names = []
    for name in sorted(set(candidates) | set(TARGETS)):
        obs = {"TargetDIS": name}
        try:
            ev.call(S.FuncVal(ev, f), [obs], {})
        except S.Raised as r:
            if name in TARGETS:
                rep.bad("C12.table", f.site, f"{f.fq}[{name}]", f"documented target '{name}' is rejected: {r}", key=name)
            continue
        except A.Undecided as u:
            if name in TARGETS:
                rep.undecided("C12.table", f.site, f"{f.fq}[{name}]", str(u), key=name)
            continue
        got = obs["TargetDIS"]
        if not isinstance(got, dict):
            continue  # the candidate was passed through untouched: not a name the function knows
        names.append(name)
        if name not in TARGETS:
            rep.undecided("C12.table", f.site, f"{f.fq}[{name}]", f"target '{name}' is not in the checker's documented table (new target?): {got}", key=name)
            continue
        z, a = TARGETS[name]
        ok = isinstance(got, dict) and set(got) == {"Z", "A"} and S.num_norm(got["Z"]) == z and S.num_norm(got["A"]) == a
        rep.check(ok, "C12.table", f.site, f"{f.fq}[{name}]", f"(Z, A) = ({z}, {a})", f"maps to {got}, documented (Z, A) = ({z}, {a})", key=name)
    rep.floor("named targets", len(names), 7)
    # non-string passes through untouched, unknown name raises
    obs = {"TargetDIS": {"Z": A.sym("Ztarget"), "A": A.sym("Atarget")}}
    before = dict(obs["TargetDIS"])
    ev.call(S.FuncVal(ev, f), [obs], {})
    rep.check(obs["TargetDIS"] == before and set(obs) == {"TargetDIS"}, "C12.table", f.site, f"{f.fq}[dict]", "explicit (Z, A) passes through", "explicit (Z, A) dict is altered")
    # a mapping is read by key: the order of its entries (alphabetical after a yaml/json round trip) is irrelevant
    obs2 = {"TargetDIS": {"A": A.sym("Atarget"), "Z": A.sym("Ztarget")}}
    try:
        ev.call(S.FuncVal(ev, f), [obs2], {})
        t2 = obs2["TargetDIS"]
        same = isinstance(t2, dict) and set(t2) == {"Z", "A"} and A.canon(S.num_norm(t2["Z"])) == "Ztarget" and A.canon(S.num_norm(t2["A"])) == "Atarget"
        rep.check(same, "C12.table", f.site, f"{f.fq}[dict, A first]", "explicit mapping read by key", f"an explicit mapping listed as (A, Z) becomes {t2}: entries are taken by position")
    except (S.Raised, A.Undecided) as e:
        rep.undecided("C12.table", f.site, f"{f.fq}[dict, A first]", f"not folded: {e}")
    try:
        ev.call(S.FuncVal(ev, f), [{"TargetDIS": "unobtainium"}], {})
        rep.bad("C12.table", f.site, f"{f.fq}[unknown]", "unknown target name is accepted silently")
    except S.Raised as r:
        rep.check(S.raised_is(r, "ValueError") and isinstance(r.node, ast.Raise), "C12.table", f.site, f"{f.fq}[unknown]",
                  "unknown target name raises ValueError", f"unknown target name ends in {r}")


def run(rep, proj, tier):
    rep.explanation = (
        "Decides (rotation) by partial evaluation: for each cell of a lattice (kinds x heavyness x NC/CC x ZM-VFNS/FFNS/FFN0/FONLL-* x orders, "
        "with and without scale variations) the operator folded with a symbolic target (Z, A) equals entry by entry - as a polynomial identity in "
        "Z, A, the coupling weights and the opaque convolution values - the proton operator with the d/u and dbar/ubar rows mixed by "
        "[[Z, A-Z],[A-Z, Z]]/A and all other rows unchanged; (own) structurally, that no partons dict reaches two co-executable Kernel(...) "
        "constructions while Kernel.partons is mutated in place, unless rotation invariant; (table) update_target folded on every named target "
        "against the documented (Z, A). NOT decided: the numerical values of the convolutions."
    )
    rep.rule_text = "cells from literal domains; entries = order key x parton x basis node; distinct by cell label; non-trivial = operator has u/d rows."
    rep.trusted_base = ["CPython ast", "yadsa partial evaluator and summaries (runmodel.py)", "docs/source/theory/misc.rst for the rotation matrix and proton/neutron/isoscalar"]
    rep.assumptions = ["iron/lead/neon/marble (Z, A) transcribed from the cited survey values / stoichiometry, not from the code"]
    check_rotation(rep, proj, tier)
    check_ownership(rep, proj, tier)
    check_table(rep, proj, tier)
