"""C14 - results do not depend on request history or cache state.

Decided by partial evaluation: for a lattice of (observable, scheme, TMC) the same kinematic points
are requested through different histories - listed alone, in reversed order, with duplicates and
repeated Q2 values, after or before other observables (structure functions and cross sections that
populate the shared caches), as a subset, and through repeated get_result() calls on one runner -
and the operator folded for each (observable, point) must be the same normal form (values and
errors, every order key) in all of them.  Structurally: results handed out are copies of the
memoised ones.  Not decided: bit-level reproducibility of the floating-point quadrature (assumed
deterministic) and of summation order.
"""

from __future__ import annotations

import itertools
from fractions import Fraction

from .. import algebra as A
from .. import pcmodel as P
from .. import runmodel as R
from .. import sweep
from .. import symeval as S
from .c20 import snap, container_ids


def _mem(a):
    """Identity of the storage behind an array value: its cells (views share them), or the object itself."""
    return a.cell_ids() if isinstance(a, S.Arr) else {id(a)}

# x = 1/4 is a grid node; with M^2 = 30 the Nachtmann point of (1/2, 10) is exactly 1/3 (rho = 2), which is requested as well;
# thresholds are concrete (1, 25, 10^4 GeV^2) so that Q2 = 30 has one more active flavour than Q2 = 10, 20
POINTS = [(Fraction(1, 4), 20), (Fraction(1, 2), 10), (Fraction(1, 4), 20), (Fraction(1, 3), 10), (Fraction(3, 4), 30), (Fraction(1, 4), 10)]


def fold_history(proj, base, obs_lists, n_calls=1, xgrid=None, weights="opaque"):
    """Fold a runner whose observables dict is built from obs_lists = [(name, [point indices])]."""
    cell = R.Cell(obs=obs_lists[0][0], **dict(base, nf=None))
    th = R.theory_card(cell)
    ob = R.observables_card(cell)
    ob["interpolation_xgrid"] = list(xgrid) if xgrid is not None else [Fraction(1, 4), Fraction(1)]
    th["MP"] = A.fn_sqrt(A.Rat.const(30))
    if base["fns"] == "ZM-VFNS":
        th.update(mc=1, mb=5, mt=100, kcThr=1, kbThr=1, ktThr=1)
    ob["observables"] = {}
    for name, idxs in obs_lists:
        kins = []
        for i in idxs:
            x, q2 = POINTS[i] if isinstance(i, int) else i  # an index into POINTS or an explicit (x, Q2)
            k = {"x": x, "Q2": q2}
            if name.startswith("XS"):
                # inelasticities chosen such that two points of equal Q2 carry each other's (x, y) interchanged: points are
                # distinguished by which value belongs to which variable, not by the multiset of values
                k["y"] = {1: Fraction(1, 3), 3: Fraction(1, 2)}.get(i, Fraction(1, 3))
            kins.append(k)
        ob["observables"][name] = kins
    ext = {
        "eko.interpolation.XGrid": R._xgrid,
        "eko.interpolation.InterpolatorDispatcher": R._interpolator,
        "eko.quantities.heavy_quarks.MatchingScales": R._matching_scales,
        "eko.matchings.Atlas": R._atlas,
        "eko.matchings.nf_default": R.make_nf_default(cell),
        "numpy.searchsorted": R.make_searchsorted(cell),
        "numpy.digitize": R.make_digitize(cell),
        "time.time": lambda ev_: 0,
    }
    ev = S.Evaluator(proj, on_call=P.above_threshold_hook, on_compare=R.make_compare(True), lenient_ext=True, ext_calls=ext)
    R._install_eko_overrides(ev, proj, ext)
    runner = ev.instantiate(S.ClassVal(ev, proj.cls("yadism.runner", "Runner")), [th, ob], {})
    R.install_result_summaries(ev)
    if weights == "opaque":
        R.opaque_weights(ev)
    outs = [ev.call(ev.getattr(runner, "get_result", None), [], {}) for _ in range(n_calls)]
    return runner, outs


def point_snaps(out, name, idxs):
    res = {}
    pts = out.store[name]
    for i, pt in zip(idxs, pts):
        if not (isinstance(pt, S.ObjVal) and isinstance(pt.attrs.get("orders"), dict)):
            res.setdefault(i, []).append(("NO RESULT", repr(pt)[:40]))
            continue
        res.setdefault(i, []).append(snap({k: (v[0], v[1]) for k, v in pt.attrs["orders"].items()}))
    return res


HISTORIES = ["alone", "reversed", "after another observable", "before another observable", "after a cross section", "subset", "subset with duplicates",
             "single high-Q2 point", "Nachtmann partner first", "beside its other spelling"]


def other_spelling(name):
    """`F2` and `F2_total` name the same observable (observable_name: a missing flavour means total); a card may list both, with different points."""
    kind, _, fl = name.partition("_")
    return kind if fl == "total" else (f"{kind}_total" if not fl else None)


def history_lists(A_, B_, Bxs, hname):
    idx_all = [0, 1, 2, 3, 4, 5]
    return {
        "single high-Q2 point": [(A_, [4])],
        "Nachtmann partner first": [(A_, [3, 1, 5])],
        "alone": [(A_, idx_all)],
        "reversed": [(A_, idx_all[::-1])],
        "after another observable": [(B_, [1, 0, 4]), (A_, idx_all)],
        "before another observable": [(A_, idx_all), (B_, [3, 0])],
        "after a cross section": [(Bxs, [0, 1, 3]), (A_, idx_all)],
        "subset": [(A_, [1])],
        "subset with duplicates": [(A_, [0, 0, 2, 0])],
        "beside its other spelling": [(A_, idx_all), (other_spelling(A_) or B_, [3, 0])],
    }[hname]


def _digest(s_):
    import hashlib

    return hashlib.sha1(repr(s_).encode()).hexdigest()


def _unit(unit):
    """Fold one history; return per-point digests (process-independent)."""
    from .. import model

    proj = model.project()
    job, hname = unit
    base, A_, B_, Bxs = job["base"], job["A"], job["B"], job["Bxs"]
    lst = history_lists(A_, B_, Bxs, hname)
    problems = []
    try:
        runner, outs = fold_history(proj, base, lst, n_calls=2 if hname == "alone" else 1)
    except A.Undecided as e:
        return ("undecided", str(e)[:200])
    except S.Raised as e:
        return ("raised", f"{e.etype}: {e.msg}"[:200])
    idxs = dict(lst)[A_]
    per_point = []  # (call, point index, digest)
    for c, out in enumerate(outs):
        ps = point_snaps(out, A_, idxs)
        for i, snaps in ps.items():
            if any(isinstance(x, tuple) and x and x[0] == "NO RESULT" for x in snaps):
                problems.append(f"history '{hname}': a request of point {POINTS[i]} comes back without a result ({[x[1] for x in snaps if isinstance(x, tuple) and x[0] == 'NO RESULT'][0]})")
            ds = [_digest(x) for x in snaps]
            if len(set(ds)) != 1:
                problems.append(f"history '{hname}': duplicate requests of point {POINTS[i]} give different operators")
            for d in ds:
                per_point.append((c, i, d))
    for out in outs:
        seen_arrays = {}
        for n_, pt in enumerate(out.store[A_]):
            if not (isinstance(pt, S.ObjVal) and isinstance(pt.attrs.get("orders"), dict)):
                continue
            for v in pt.attrs["orders"].values():
                for a in v:
                    for cid in _mem(a):
                        if cid in seen_arrays and seen_arrays[cid] != n_:
                            problems.append("two points of one output share array memory (editing one result changes another)")
                        seen_arrays[cid] = n_
    if hname == "alone":
        shared = set(container_ids(outs[0].store)) & set(container_ids(outs[1].store))
        arrs0 = {c for pt in outs[0].store[A_] if isinstance(pt, S.ObjVal) for v in pt.attrs["orders"].values() for a in v for c in _mem(a)}
        arrs1 = {c for pt in outs[1].store[A_] if isinstance(pt, S.ObjVal) for v in pt.attrs["orders"].values() for a in v for c in _mem(a)}
        internal = set()
        sf = runner.attrs["observables"][A_]
        for e in ev_elements(sf):
            r = e.attrs.get("res")
            if isinstance(r, S.ObjVal):
                internal |= {c for v in r.attrs["orders"].values() for a in v for c in _mem(a)}
        if shared or (arrs0 & arrs1) or (arrs0 & internal):
            problems.append("get_result() hands out references to memoised arrays (two calls / the cache share storage)")
    return ("ok", per_point, problems)


def ev_elements(obs):
    for name in ("esfs", "exss"):
        v = obs.attrs.get(name)
        if isinstance(v, list):
            return v
    return []


def jobs(tier):
    out = []
    combos = [("F2_charm", "FL_total", "XSHERANC_charm"), ("F3_total", "F2_total", "XSHERANC_total"), ("XSHERANC_total", "F2_total", "XSHERACC_total"),
              ("g1_light", "F2_light", "XSHERANC_light")]
    schemes = [("ZM-VFNS", 4), ("FFNS", 3)] if tier == "quick" else [("ZM-VFNS", 4), ("FFNS", 3), ("FFN0", 3), ("FONLL-FFNS", 4)]
    for (A_, B_, Bxs), (fns, nfff), tmc, sv in itertools.product(combos, schemes, [0, 1, 2, 3] if tier == "thorough" else [0, 1, 2], [False, True]):
        if sv and (tmc or A_.startswith("XS")):
            continue
        if tier == "quick" and tmc and (A_ in ("g1_light", "F3_total") or (A_.startswith("XS") and fns != "ZM-VFNS")):
            continue
        if tier == "quick" and tmc == 2 and fns != "ZM-VFNS":
            continue  # every correction mode has its own code path per kind: the approximate formulas are walked as well
        out.append(dict(A=A_, B=B_, Bxs=Bxs, base=dict(process="NC", fns=fns, nfff=nfff, nf=4, pto=1, tmc=tmc, ren_sv=sv, fact_sv=sv, kin_y=False)))
        # NNLO with both variations: the (2, *, *, 2) sectors are built from the runner-wide cache of convolved splitting functions
        if sv and (tier == "thorough" or A_ in ("F2_charm", "F3_total")):
            out.append(dict(A=A_, B=B_, Bxs=Bxs, base=dict(process="NC", fns=fns, nfff=nfff, nf=4, pto=2, tmc=tmc, ren_sv=sv, fact_sv=sv, kin_y=False)))
    return out


def run(rep, proj, tier):
    rep.explanation = (
        "Decides by partial evaluation of whole runs (Runner construction, Q2-sorted evaluation with cache drops, TMC and cross-section requests "
        "through the shared caches, output assembly): the operator (values and errors, every order key) folded for each requested (observable, "
        "point) is the same normal form whether the point is requested alone, in reversed order, with duplicates and repeated Q2 values, before "
        "or after other structure functions or cross sections that populate the caches, as a subset, or through a second get_result() call; "
        "duplicates within a request agree; outputs of two calls and the memoised results share no array. NOT decided: bit-level reproducibility "
        "of the floating-point quadrature and of summation order (assumed deterministic)."
    )
    rep.rule_text = "7 histories x (observable triple x scheme x TMC x scale variations); comparisons per requested point; distinct by job label."
    rep.trusted_base = ["CPython ast", "yadsa partial evaluator (dict/list/cache semantics are the host interpreter's)"]
    rep.assumptions = ["scipy.integrate.quad, LeProHQ and eko's basis functions are deterministic pure functions of their arguments"]
    from . import state

    state.check(rep, proj, "C14.state", floor=4)
    js = jobs(tier)
    units = [(j, h) for j in js for h in HISTORIES]
    outs = sweep.run_cells(_unit, units)
    by_job = {}
    for (j, h), o in zip(units, outs):
        by_job.setdefault(id(j), []).append((h, o))
    n_cmp = 0
    n_ok = 0
    for j in js:
        b = j["base"]
        label = f"{j['A']} (with {j['B']}, {j['Bxs']})|{b['fns']}|TMC={b['tmc']}|sv={b['ren_sv']}|PTO={b['pto']}"
        problems = []
        ref = {}
        nc = 0
        state = "ok"
        raised = []
        for h, o in by_job[id(j)]:
            if o[0] == "undecided":
                rep.undecided("C14.history", "", f"{label}|{h}", o[1])
                state = "undecided"
                continue
            if o[0] == "raised":
                raised.append((h, o[1]))
                continue
            _, per_point, probs = o
            problems += probs
            for c, i, d in per_point:
                nc += 1
                key = POINTS[i]
                if key not in ref:
                    ref[key] = (d, h)
                elif ref[key][0] != d:
                    problems.append(f"operator of {j['A']} at x={key[0]}, Q2={key[1]} differs between history '{ref[key][1]}' and '{h}'" + (" (second get_result call)" if c else ""))
        n_cmp += nc
        if raised and len(raised) < len(by_job[id(j)]):
            ok_h = [h for h, o in by_job[id(j)] if o[0] == "ok"]
            problems.append(f"history '{raised[0][0]}' fails with {raised[0][1]} while history '{ok_h[0] if ok_h else '?'}' of the same points succeeds")
        elif raised:
            rep.undecided("C14.history", "", label, f"every history ends in {raised[0][1]}: C16 business")
            continue
        if state == "ok":
            n_ok += 1
        problems = sorted(set(problems))
        rep.check(not problems, "C14.history", "src/yadism/runner.py", label, f"{nc} point results identical across {len(HISTORIES)} histories and 2 calls; copies handed out",
                  "; ".join(problems[:4])[:700], key=label)
    rep.info["point_results_compared"] = n_cmp
    rep.floor("history jobs folded", n_ok, 12)
    rep.floor("point results compared", n_cmp, 250)
