"""C16 - every documented configuration yields a result or a clear rejection.

Decided clause: over the documented configuration lattice, partial evaluation
of the repository's own source (Runner construction and the per-point
calculation, with quadrature, eko objects and LeProHQ kept opaque) ends either
in an operator or in an explicit `raise ValueError|NotImplementedError(<message>)`;
it never ends in a lookup/index/attribute/import/type error.  Kinematic guards
reject exactly the complement of 0 < x <= 1, Q2 > 0, x >= grid minimum, for the
*requested* point, with and without TMC.  The value returned by
Runner.get_result passes through replace_nans_with_0, which zeroes the
non-finite entries of every observable/point/order/tuple member.
Not decided: that surviving entries are finite.
"""

from __future__ import annotations

import ast
import itertools
from fractions import Fraction

from .. import algebra as A
from .. import pcmodel as P
from .. import runmodel as R
from .. import sweep
from .. import symeval as S
from ..model import AnalysisError, norm_text

KINDS = ["F2", "FL", "F3", "g1", "gL", "g4"]
XS_KINDS_FALLBACK = ["XSHERANC", "XSHERANCAVG", "XSHERACC", "XSCHORUSCC", "XSNUTEVCC", "XSNUTEVNU", "FW", "F1", "g5", "XSFPFCC"]


def folded_literals(proj):
    ev = S.Evaluator(proj)
    on = proj.module("yadism.observable_name")
    sfs = list(ev.module_global(on, "sfs"))
    xs = list(ev.module_global(on, "xs"))
    ext = list(ev.module_global(on, "external_flavors"))
    return sfs, xs, ext


def scheme_cells(tier):
    """(fns, nfff, nf) triples: nf only matters where thresholds stay symbolic (ZM-VFNS)."""
    out = [("ZM-VFNS", 4, nf) for nf in (3, 4, 5, 6)]
    for fns in ("FFNS", "FFN0", "FONLL-FFNS", "FONLL-FFN0"):
        for nfff in (3, 4, 5):
            out.append((fns, nfff, None))
    return out


def lattice(proj, tier):
    sfs, xs, ext = folded_literals(proj)
    flavors_quick = ["light", "total", "charm", "bottom"]
    flavors = flavors_quick if tier == "quick" else [f for f in ext]
    cells = []
    # A. structure functions, scale variations off (dispatch only)
    for kind, fl, proc, (fns, nfff, nf), pto in itertools.product(sfs, flavors, ["EM", "NC", "CC"], scheme_cells(tier), [0, 1, 2, 3]):
        proj_ = "neutrino" if proc == "CC" else "electron"
        cells.append(R.Cell(obs=f"{kind}_{fl}", process=proc, fns=fns, nfff=nfff, nf=nf, pto=pto, projectile=proj_,
                            ren_sv=False, fact_sv=False))
    # B. scale variations on (a sub-lattice: the SV machinery does not depend on the scheme)
    for kind, fl, proc, (fns, nfff, nf), pto in itertools.product(
        sfs, ["total", "charm"], ["NC", "CC"], [("ZM-VFNS", 4, 4), ("FFNS", 3, None), ("FONLL-FFN0", 4, None)], [1, 2, 3]
    ):
        for ren, fact in ((True, True), (True, False), (False, True)):
            if tier == "quick" and (ren, fact) != (True, True):
                continue
            cells.append(R.Cell(obs=f"{kind}_{fl}", process=proc, fns=fns, nfff=nfff, nf=nf, pto=pto,
                                projectile="antineutrino" if proc == "CC" else "positron", ren_sv=ren, fact_sv=fact))
    # B'. scale variations on while the DIS order differs from the evolution order (the variation tables and the result slots must
    # be sized by the same order, whichever way the two differ)
    for kind, proc, (pto, pto_evol), (ren, fact) in itertools.product(
        ["F2", "F3", "g1"], ["NC", "CC"], [(0, 1), (1, 2), (2, 1), (1, 3), (2, 0), (3, 1)], [(True, True), (True, False), (False, True)]
    ):
        if proc == "CC" and (kind == "g1" or (tier == "quick" and (ren, fact) != (True, True))):
            continue
        cells.append(R.Cell(obs=f"{kind}_total", process=proc, fns="ZM-VFNS", nfff=4, nf=4, pto=pto, pto_evol=pto_evol,
                            projectile="neutrino" if proc == "CC" else "electron", ren_sv=ren, fact_sv=fact))
    # C. FONLL parts and mismatched evolution order
    for kind, fl, fns, parts, (pto, pto_evol) in itertools.product(
        ["F2", "FL", "F3", "g1"], ["total", "charm", "light"], ["FONLL-FFNS", "FONLL-FFN0", "FFN0"], ["massless", "massive", "full"],
        [(1, 0), (1, 2), (2, 1), (2, 3), (3, 2), (0, 3)]
    ):
        cells.append(R.Cell(obs=f"{kind}_{fl}", process="NC", fns=fns, nfff=4, pto=pto, pto_evol=pto_evol, fonllparts=parts,
                            ren_sv=False, fact_sv=False))
    # D. target-mass corrections
    for kind, fl, proc, tmc, pto in itertools.product(sfs, ["total", "charm"], ["NC", "CC"], [1, 2, 3], [1]):
        cells.append(R.Cell(obs=f"{kind}_{fl}", process=proc, fns="ZM-VFNS", nfff=4, nf=4, pto=pto, tmc=tmc,
                            projectile="neutrino" if proc == "CC" else "electron", ren_sv=False, fact_sv=False))
    # E. cross sections (with and without TMC)
    for kind, fl, proc, tmc, fns in itertools.product(xs, ["total", "charm"], ["NC", "CC"], [0, 1], [("ZM-VFNS", 4, 4), ("FFNS", 3, None)]):
        if tmc and (fl != "total" or fns[0] != "ZM-VFNS") and tier == "quick":
            continue
        cells.append(R.Cell(obs=f"{kind}_{fl}", process=proc, fns=fns[0], nfff=fns[1], nf=fns[2], pto=2, tmc=tmc, kin_y=True,
                            projectile="neutrino" if proc == "CC" else "electron", ren_sv=False, fact_sv=False))
    if tier == "thorough":
        # projectiles, targets, positivity charge, N3LO variation
        for kind, proc, projectile, target in itertools.product(
            sfs, ["EM", "NC", "CC"], ["electron", "positron", "neutrino", "antineutrino"], ["proton", "neutron", "isoscalar", "iron", "lead", "neon", "marble"]
        ):
            cells.append(R.Cell(obs=f"{kind}_total", process=proc, fns="FFNS", nfff=4, pto=2, projectile=projectile, target=target,
                                ren_sv=False, fact_sv=False))
        for kind, pc, var in itertools.product(["F2", "FL", "F3"], [None, "all", "dW", "uW", "sW", "cW", "bW", "tW"], [-1, 0, 1]):
            cells.append(R.Cell(obs=f"{kind}_total", process="NC", fns="FFNS", nfff=3, pto=3, pos_charge=pc, n3lo_var=var,
                                ren_sv=False, fact_sv=False))
        for kind, fl, (fns, nfff, nf), pto, tmc in itertools.product(sfs, ["total", "bottom"], scheme_cells(tier), [2, 3], [1, 3]):
            cells.append(R.Cell(obs=f"{kind}_{fl}", process="NC", fns=fns, nfff=nfff, nf=nf, pto=pto, tmc=tmc, ren_sv=False, fact_sv=False))
    return cells


def _fold(cell):
    from .. import model

    return sweep.fold_cell(model.project(), cell)


def _fold_full(cell):
    from .. import model

    return sweep.fold_cell(model.project(), cell, weights="full")


def weights_lattice(tier):
    """Cells folded with the REAL electroweak weights (the main lattice keeps them opaque, which also keeps every lookup inside the coupling
    tables - CKM rows and columns, charges by pid - out of sight): every number of active flavours, in particular six."""
    cells = []
    for kind, fl, (proc, proj_), (fns, nfff, nf) in itertools.product(
        ["F2", "F3"], ["light", "total", "charm", "bottom"], [("CC", "neutrino"), ("CC", "positron"), ("NC", "electron")],
        [("ZM-VFNS", 4, 3), ("ZM-VFNS", 4, 4), ("ZM-VFNS", 4, 5), ("ZM-VFNS", 4, 6), ("FFNS", 3, None), ("FFNS", 5, None), ("FFNS", 6, None), ("FONLL-FFNS", 4, None)]
    ):
        if tier == "quick" and proj_ == "positron" and fns != "ZM-VFNS":
            continue
        c = R.Cell(obs=f"{kind}_{fl}", process=proc, fns=fns, nfff=nfff, nf=nf, pto=1, projectile=proj_, ren_sv=False, fact_sv=False)
        c.full_weights = True
        cells.append(c)
    return cells


def check_lattice(rep, proj, tier):
    cells = lattice(proj, tier)
    outs = sweep.run_cells(_fold, cells)
    wcells = weights_lattice(tier)
    wouts = sweep.run_cells(_fold_full, wcells)
    outs = list(outs) + list(wouts)
    groups = {}
    counts = dict(ok=0, rejected=0, internal=0, undecided=0)
    rejections = {}
    for o in outs:
        counts[o.status] += 1
        if o.status == "ok":
            rep.ok("C16.cell", "", o.cell.label(), "folds to an operator")
            continue
        if o.status == "rejected" and o.construct.endswith("Kernel.channel"):
            o.status = "internal"
            counts["rejected"] -= 1
            counts["internal"] += 1
        if o.status == "rejected":
            rejections.setdefault((o.construct, o.msg[:80]), []).append(o.cell.label())
            rep.ok("C16.cell", o.site, o.cell.label(), f"explicit rejection: {o.etype}({o.msg[:60]})")
            continue
        key = (o.status, o.construct, o.etype, o.stmt if o.status == "internal" else o.msg)
        groups.setdefault(key, []).append(o)
    n_ok = counts["ok"] + counts["rejected"]
    rep.ok("C16.lattice", "src/yadism", "configuration lattice",
           f"{counts['ok']} cells fold to an operator, {counts['rejected']} end in an explicit rejection",
           data=dict(cells=len(cells), **counts))
    for (construct, msg), labels in sorted(rejections.items()):
        rep.ok("C16.lattice.reject", "", construct, f"explicit rejection \"{msg}\" for {len(labels)} cell(s), e.g. {labels[0]}", key=msg)
    for (status, construct, etype, stmt), os_ in sorted(groups.items(), key=lambda kv: kv[0]):
        ex = [o.cell.label() for o in os_[:3]]
        if status == "undecided":
            rep.undecided("C16.lattice", os_[0].site, construct or "fold", f"{len(os_)} cell(s) not foldable ({stmt}); e.g. {ex[0]}", key=stmt)
        else:
            rep.bad("C16.lattice", os_[0].site, construct,
                    f"internal {etype} ({os_[0].msg}) at `{stmt}` instead of a result or an explicit rejection, for {len(os_)} cell(s), e.g. {'; '.join(ex)}",
                    key=f"{etype}:{stmt}", data=dict(cells=[o.cell.label() for o in os_[:40]], n_cells=len(os_)))
    rep.info["lattice_cells"] = len(cells)
    rep.info["lattice_outcomes"] = counts
    rep.floor("lattice cells", len(cells), 2000 if tier == "quick" else 6000)
    rep.floor("cells folded to a verdict", counts["ok"] + counts["rejected"] + counts["internal"], int(0.9 * len(cells)))


# ---------------------------------------------------------------------------
# kinematic guards
# ---------------------------------------------------------------------------
class KinCell(R.Cell):
    pass


def _fold_kin(args):
    from .. import model

    proj = model.project()
    tmc, x, q2, xmin, obs = args
    cell = R.Cell(obs=obs, process="NC", fns="ZM-VFNS", nfff=4, nf=4, pto=1, tmc=tmc, ren_sv=False, fact_sv=False)
    import time

    t0 = time.time()

    def on_compare(op, a, b, node):
        # Symbolic comparisons only arise for the shifted TMC point xi, which satisfies 0 < xi <= x for
        # x > 0 (xi = 2x/(1+rho), rho >= 1; decided in C10.vars). Hence: xi < c holds whenever the requested
        # x < c; whether xi <= 1 when x > 1 depends on the target mass - the adversarial choice is "inside".
        if node is None or R.in_rejection_guard(node) is None:
            return None
        bb = S.num_norm(b)
        if isinstance(op, ast.Lt) and isinstance(bb, (int, Fraction)):
            return x < bb
        if isinstance(op, ast.LtE) and isinstance(bb, (int, Fraction)):
            return x <= bb
        return R.guard_not_triggered(node)

    try:
        ext = {
            "eko.interpolation.XGrid": R._xgrid,
            "eko.interpolation.InterpolatorDispatcher": R._interpolator,
            "eko.quantities.heavy_quarks.MatchingScales": R._matching_scales,
            "eko.matchings.Atlas": R._atlas,
            "eko.matchings.nf_default": R.make_nf_default(cell),
            "numpy.searchsorted": R.make_searchsorted(cell),
            "numpy.digitize": R.make_digitize(cell),
        }
        from .. import pcmodel as P

        ev = S.Evaluator(proj, on_call=P.above_threshold_hook, on_compare=on_compare, lenient_ext=True, ext_calls=ext)
        R._install_eko_overrides(ev, proj, ext)
        th = R.theory_card(cell)
        ob = R.observables_card(cell)
        ob["interpolation_xgrid"] = [xmin, (xmin + 1) / 2, 1]
        ob["observables"] = {obs: [{"x": x, "Q2": q2}]}
        runner = ev.instantiate(S.ClassVal(ev, proj.cls("yadism.runner", "Runner")), [th, ob], {})
        R.install_result_summaries(ev)
        R.opaque_weights(ev)
        o, elems = R.esf_of(ev, runner, obs)
        R.fold_point_result(ev, elems[0])
        out = sweep.Outcome(cell, "ok", wall=time.time() - t0)
    except (A.Undecided, S.Raised) as e:
        out = sweep.classify_exception(proj, cell, e, t0)
    # a tolerance test (isclose / allclose) inside a rejection guard: the guard no longer rejects exactly the complement of the domain
    tol = []
    for t in getattr(ev, "tolerance_tests", []) if "ev" in locals() else []:
        node = t[0]
        if node is not None and R.in_rejection_guard(node) is not None:
            site, construct, stmt = sweep.locate(proj, node)
            tol.append(f"{site} `{stmt[:80]}` in {construct}")
    out.extra = dict(tolerance_in_guard=sorted(set(tol)))
    return out


def check_kin(rep, proj, tier):
    xs = [Fraction(-1, 2), 0, Fraction(1, 2), 1, Fraction(3, 2)]
    q2s = [-1, 0, 10]
    xmins = [Fraction(1, 10), Fraction(3, 4)]
    cases = []
    for tmc, x, q2, xmin in itertools.product([0, 1, 2, 3], xs, q2s, xmins):
        for obs in (["F2_light"] if tier == "quick" else ["F2_light", "FL_total", "F3_total", "g1_light"]):
            cases.append((tmc, x, q2, xmin, obs))
    outs = sweep.run_cells(_fold_kin, cases)
    bad_groups = {}
    n_ok = 0
    for case, o in zip(cases, outs):
        tmc, x, q2, xmin, obs = case
        valid = (0 < x <= 1) and q2 > 0 and x >= xmin
        label = f"TMC={tmc} x={x} Q2={q2} xmin={xmin} {obs}"
        if o.status == "undecided":
            rep.undecided("C16.kin", "", "kinematic guard", f"{label}: {o.msg}")
            continue
        accepted = o.status == "ok"
        if valid and accepted or (not valid and o.status == "rejected"):
            n_ok += 1
            continue
        if valid and o.status == "rejected":
            why = f"valid point rejected ({o.msg})"
            construct = o.construct
        elif not valid and accepted:
            why = "point outside 0 < x <= 1, Q2 > 0, x >= grid minimum is accepted (the requested point is never validated)"
            construct = "yadism.esf.tmc::EvaluatedStructureFunctionTMC.__init__" if tmc else "yadism.esf.esf::EvaluatedStructureFunction.__init__"
        else:
            why = f"internal {o.etype} ({o.msg}) at `{o.stmt}` instead of an explicit rejection"
            construct = o.construct
        bad_groups.setdefault((construct, why.split("(")[0].strip() if "internal" not in why else why), []).append(label)
    softened = sorted({t for o in outs for t in ((o.extra or {}).get("tolerance_in_guard", []) if isinstance(o.extra, dict) else [])})
    for t in softened:
        rep.bad("C16.kin", t.split(" ")[0], "kinematic guard", f"{t}: the rejection is decided through a tolerance test, so points outside the documented domain but within the "
                "tolerance of its edge (numpy's absolute tolerance 1e-8 does not scale with the grid) are accepted and computed instead of rejected", key="tolerance|" + t[:60])
    rep.ok("C16.kin", "src/yadism/esf/esf.py", "kinematic guards", f"{n_ok} of {len(cases)} orderings decided as documented")
    for (construct, why), labels in sorted(bad_groups.items()):
        rep.bad("C16.kin", "", construct, f"{why}: {len(labels)} case(s), e.g. {labels[0]}; {labels[-1]}", key=why[:60],
                data=dict(cases=labels[:30]))
    rep.floor("kinematic orderings", len(cases), 100)


# ---------------------------------------------------------------------------
# NaN filter
# ---------------------------------------------------------------------------
class _Mask:
    def __init__(self, arr, finite):
        self.arr = arr
        self.finite = finite


class _TArr(S.Arr):
    """Array stand-in that records whether its non-finite entries were zeroed."""

    def __init__(self, name):
        super().__init__([A.sym(f"nanprobe_{name}")])
        self.name = name
        self.cleaned = False


def check_nan(rep, proj, tier):
    runner_cls = proj.cls("yadism.runner", "Runner")
    get_result = runner_cls.methods.get("get_result")
    clean = runner_cls.methods.get("replace_nans_with_0")
    if get_result is None or clean is None:
        raise AnalysisError("C16.nan: Runner.get_result / replace_nans_with_0 not found")
    # (a) must-pass-through: every returned value is the result of self.replace_nans_with_0(...)
    returns = [n for n in ast.walk(get_result.node) if isinstance(n, ast.Return) and n.value is not None]
    if not returns:
        raise AnalysisError("C16.nan: Runner.get_result has no return")
    for r in returns:
        ok = False
        v = r.value
        if _is_clean_call(v):
            ok = True
        elif isinstance(v, ast.Name):
            # last assignment to that name before the return, in the same block chain
            last = None
            for n in ast.walk(get_result.node):
                if isinstance(n, ast.Assign) and any(isinstance(t, ast.Name) and t.id == v.id for t in n.targets) and n.lineno < r.lineno:
                    if last is None or n.lineno > last.lineno:
                        last = n
            ok = last is not None and _is_clean_call(last.value)
        rep.check(ok, "C16.nan", f"{get_result.module.relpath}:{r.lineno}", get_result.fq,
                  "returned value is the result of replace_nans_with_0", "Runner.get_result returns a value that did not pass through replace_nans_with_0",
                  key=norm_text(r))
    # (b) the filter visits every observable entry, point, order and tuple member: fold it on a probe output
    probes = {}

    def isfinite(ev, a):
        return _Mask(a, True)

    ev = S.Evaluator(proj, lenient_ext=True, ext_calls={"numpy.isfinite": isfinite, "numpy.isnan": lambda ev, a: _Mask(a, "nan")})

    orig_eval_unary = ev.e_UnaryOp

    def e_UnaryOp(n, env):
        if isinstance(n.op, ast.Invert):
            v = ev.eval(n.operand, env)
            if isinstance(v, _Mask):
                return _Mask(v.arr, not v.finite if v.finite != "nan" else "nan")
        return orig_eval_unary(n, env)

    ev.e_UnaryOp = e_UnaryOp
    orig_assign = ev.assign

    def assign(t, v, env):
        if isinstance(t, ast.Subscript):
            k = ev.eval(t.slice, env)
            if isinstance(k, _Mask):
                o = ev.eval(t.value, env)
                if o is k.arr and k.finite is False and S.num_norm(v) == 0 and isinstance(o, _TArr):
                    o.cleaned = True
                return
        return orig_assign(t, v, env)

    ev.assign = assign
    esfres = proj.cls("yadism.esf.result", "ESFResult")
    names = ["F2_charm", "F2", "FL_light", "g1_total", "XSHERANC", "XSCHORUSCC_charm", "F3_bottomlight"]
    out_cls = proj.cls("yadism.output", "Output")
    out = ev.instantiate(S.ClassVal(ev, out_cls), [], {})
    for nm in names:
        pts = []
        for ip in range(2):
            res = ev.instantiate(S.ClassVal(ev, esfres), [A.sym("xB"), A.sym("Q2"), 4], {})
            for o in [(0, 0, 0, 0), (1, 0, 0, 0), (1, 0, 0, 1)]:
                a0, a1 = _TArr(f"{nm}.{ip}.{o}.val"), _TArr(f"{nm}.{ip}.{o}.err")
                probes[(nm, ip, o, 0)] = a0
                probes[(nm, ip, o, 1)] = a1
                res.attrs["orders"][o] = (a0, a1)
            pts.append(res)
        out.store[nm] = pts
    out.store["pids"] = [1, 2]
    out.store["xgrid"] = {"grid": [A.sym("xg0")], "log": True}
    out.store["projectilePID"] = 11
    out.store["F2_top"] = None  # observables may be None
    runner = S.ObjVal(runner_cls)

    # deepcopy must preserve the probe objects' identity mapping: patch to identity-tracking copy
    def deepcopy(ev_, v, memo=None):
        return _probe_deepcopy(v, probes)

    ev.ext_calls["copy.deepcopy"] = deepcopy
    try:
        res = ev.call(S.FuncVal(ev, clean, bound=runner), [out], {})
    except (A.Undecided, S.Raised) as e:
        rep.undecided("C16.nan", clean.site, clean.fq, f"replace_nans_with_0 not foldable on the probe output: {e}")
        return
    # the returned object must be the cleaned one
    missing = []
    returned_arrays = set()
    if isinstance(res, S.ObjVal):
        for nm in names:
            for pt in res.store.get(nm, []) or []:
                for o, (v, e) in pt.attrs["orders"].items():
                    returned_arrays.add(id(v))
                    returned_arrays.add(id(e))
    for key, arr in sorted(_PROBE_COPIES.items(), key=lambda kv: str(kv[0])):
        if not arr.cleaned or id(arr) not in returned_arrays:
            missing.append(key)
    if not _PROBE_COPIES:
        missing = sorted(probes)
    if missing:
        ex = missing[0]
        rep.bad("C16.nan", clean.site, clean.fq,
                f"non-finite entries are not zeroed for {len(missing)} of {len(probes)} (observable, point, order, member) slots, "
                f"e.g. observable '{ex[0]}' point {ex[1]} order {ex[2]} member {ex[3]}",
                key="coverage", data=dict(missing=[str(m) for m in missing[:20]]))
    else:
        rep.ok("C16.nan", clean.site, clean.fq,
               f"all {len(probes)} (observable, point, order, member) slots of the probe output are zeroed where non-finite; None observables are skipped",
               key="coverage")


_PROBE_COPIES = {}


def _probe_deepcopy(v, probes):
    _PROBE_COPIES.clear()
    inv = {id(a): k for k, a in probes.items()}

    def rec(x):
        if isinstance(x, _TArr):
            c = _TArr(x.name)
            _PROBE_COPIES[inv[id(x)]] = c
            return c
        if isinstance(x, list):
            return [rec(y) for y in x]
        if isinstance(x, tuple):
            return tuple(rec(y) for y in x)
        if isinstance(x, dict):
            return {k: rec(y) for k, y in x.items()}
        if isinstance(x, S.ObjVal):
            o = S.ObjVal(x.cinfo, label=x.label)
            o.attrs = {k: rec(y) for k, y in x.attrs.items()}
            o.store = {k: rec(y) for k, y in x.store.items()}
            return o
        return x

    return rec(v)


def _is_clean_call(v):
    return isinstance(v, ast.Call) and isinstance(v.func, ast.Attribute) and v.func.attr == "replace_nans_with_0"


# ---------------------------------------------------------------------------
# interface with the external LeProHQ tables
# ---------------------------------------------------------------------------
def leprohq_tables():
    """Valid (function, projection, current) triples of the *installed* LeProHQ, read from its source without importing it:
    keys of the Adler table, the per-projection functions of the raw modules, the data files of the interpolated NLO functions."""
    import importlib.util
    import pathlib
    import re as _re

    spec = importlib.util.find_spec("LeProHQ")
    if spec is None or not spec.submodule_search_locations:
        return None, "LeProHQ is not installed"
    root = pathlib.Path(list(spec.submodule_search_locations)[0])
    valid = {}
    try:
        tree = ast.parse((root / "adler_.py").read_text())
        keys = set()
        for n in ast.walk(tree):
            if isinstance(n, ast.Assign) and any(isinstance(t, ast.Name) and t.id == "vals" for t in n.targets) and isinstance(n.value, ast.Dict):
                for k in n.value.keys:
                    if isinstance(k, ast.Tuple) and all(isinstance(e, ast.Constant) for e in k.elts):
                        keys.add(tuple(e.value for e in k.elts))
            # vals[(proj, cc)] = ... added after the literal
            if isinstance(n, ast.Assign):
                for t in n.targets:
                    if isinstance(t, ast.Subscript) and isinstance(t.value, ast.Name) and t.value.id == "vals" and isinstance(t.slice, ast.Tuple) \
                            and all(isinstance(e, ast.Constant) for e in t.slice.elts):
                        keys.add(tuple(e.value for e in t.slice.elts))
        valid["Adler"] = keys
        for fn, raw in (("dq1", "dq1.py"), ("cg0", "cg0.py"), ("cgBar1", "cgBar1.py"), ("cqBarF1", "cqBarF1.py")):
            names = {n.name for n in ast.walk(ast.parse((root / "raw" / raw).read_text())) if isinstance(n, ast.FunctionDef)}
            valid[fn] = {tuple(m.groups()) for nm in names for m in [_re.match(rf"^{fn}_(\w+?)_([VA]{{2}})$", nm)] if m}
        for fn in ("cg1", "cq1"):
            files = [f.name for f in (root / "data" / fn).glob(f"{fn}-*-bulk.dat")]
            keys = {tuple(m.groups()) for f in files for m in [_re.match(rf"^{fn}-(\w+?)_([VA]{{2}})-bulk\.dat$", f)] if m}
            # parity-violating projections return 0 before any table is read (utils.raw_c)
            keys |= {(p_, c_) for p_ in ("xF3", "g4", "gL") for c_ in ("VA", "AV", "VV", "AA")}
            valid[fn] = keys
        valid["cgBarF1"] = valid["cgBar1"] & valid["cg0"]
        valid["cgBarR1"] = valid["cg0"]
    except (OSError, SyntaxError) as e:
        return None, f"LeProHQ source not readable: {e}"
    return valid, str(root)


def _leprohq_folded_arguments(proj):
    """(projection, current) pairs that reach each LeProHQ call node when the heavy channel classes are folded (for call sites whose
    arguments are not literals: class attributes, parameters of a shared helper ...): id(call node) -> set of pairs."""
    out = {}
    ev = S.Evaluator(proj, on_call=P.above_threshold_hook)
    sym = P.Sym()
    for c in P.channel_classes(proj):
        if ".heavy." not in c.fq:
            continue
        try:
            obj = P.instantiate(ev, c, sym)
        except (A.Undecided, S.Raised):
            continue
        for k in range(4):
            r = P.fold_order(ev, obj, k)
            if r.status != "rsl":
                continue
            for part in ("reg", "sing", "loc"):
                try:
                    A.set_budget(300_000)
                    P.eval_part(ev, r.rsl, part, sym.z)
                except (A.Undecided, S.Raised):
                    pass
                finally:
                    A.set_budget(None)
    for d, args, node in getattr(ev, "opaque_ext_log", []):
        if d.startswith("LeProHQ.") and node is not None and len(args) >= 2 and all(isinstance(a, str) for a in args[:2]):
            out.setdefault(id(node), set()).add((args[0], args[1]))
    return out


def check_leprohq(rep, proj):
    valid, where = leprohq_tables()
    if valid is None:
        rep.undecided("C16.ext", "", "LeProHQ", where)
        return
    n = 0
    folded = None
    for m in proj.modules.values():
        for node in ast.walk(m.tree):
            if not (isinstance(node, ast.Call) and isinstance(node.func, ast.Attribute) and isinstance(node.func.value, ast.Name) and node.func.value.id == "LeProHQ"):
                continue
            fn = node.func.attr
            site = f"{m.relpath}:{node.lineno}"
            construct = f"{m.name}::LeProHQ.{fn}({', '.join(ast.unparse(a) for a in node.args[:2])})"
            if fn not in valid:
                rep.undecided("C16.ext", site, construct, f"LeProHQ.{fn} is not one of the audited entry points {sorted(valid)}")
                continue
            if len(node.args) < 2 or not all(isinstance(a, ast.Constant) and isinstance(a.value, str) for a in node.args[:2]):
                # not literals at the call site: the pairs that reach it when the heavy channels are folded
                if folded is None:
                    folded = _leprohq_folded_arguments(proj)
                pairs = folded.get(id(node))
                if not pairs:
                    rep.undecided("C16.ext", site, construct, "projection / current are not string literals and no folded channel reaches the call")
                    continue
                n += 1
                badp = sorted(p_ for p_ in pairs if p_ not in valid[fn])
                rep.check(not badp, "C16.ext", site, construct, f"every pair reaching the call {sorted(pairs)} is tabulated by the installed LeProHQ",
                          f"the installed LeProHQ has no {fn} entry for {badp}: the first evaluation ends in a bare KeyError / AttributeError from the library", key=f"{fn}|folded|{m.name}|{ast.unparse(node)[:40]}")
                continue
            key = (node.args[0].value, node.args[1].value)
            n += 1
            rep.check(key in valid[fn], "C16.ext", site, construct, f"({key[0]}, {key[1]}) is tabulated by the installed LeProHQ ({len(valid[fn])} entries)",
                      f"the installed LeProHQ has no {fn} entry for {key}: the first evaluation ends in a bare KeyError / AttributeError from the library "
                      f"(available: {sorted(valid[fn])})", key=f"{fn}|{key}|{m.name}")
    rep.floor("LeProHQ call sites audited", n, 35)


def check_conv(rep, proj):
    """The lattice keeps the convolutions opaque (atoms conv(kernel, point, j)); that the convolution routine itself returns for every
    shape of distribution a channel can hand it (any subset of regular / singular / local part, both grid modes) is decided here,
    on the folded routine - an internal error there (TypeError, IndexError ...) surfaces in every run that reaches such a channel."""
    from . import c01

    conv = proj.func(c01.CONV, "convolution")
    n = 0
    for label, outcome in c01.convolution_outcomes(proj):
        construct = f"{conv.fq}[{label}]"
        if outcome.startswith("undecided"):
            rep.undecided("C16.conv", conv.site, construct, outcome)
            continue
        n += 1
        rep.check(outcome == "ok", "C16.conv", conv.site, construct, "returns for this shape of distribution", f"{outcome}: an internal error, not a rejection", key=label)
    rep.floor("convolution shapes folded", n, 28)


def run(rep, proj, tier):
    rep.explanation = (
        "Partial evaluation of the repository's own source over the documented configuration lattice "
        "(kind x heavyness x process x scheme/NfFF x PTO, plus scale-variation, FONLL-parts, TMC and cross-section sub-lattices): "
        "Runner construction and the per-point calculation are folded with configuration literals concrete and numeric inputs symbolic; "
        "quadrature, eko objects, LeProHQ/adani stay opaque. Every cell must end in an operator or in an explicit "
        "`raise ValueError|NotImplementedError(message)`; a KeyError/AttributeError/IndexError/ModuleNotFoundError/TypeError on the folded path "
        "is a violation naming the failing statement. Kinematic guards are folded on concrete orderings of x, Q2 and the grid minimum, with and "
        "without TMC. replace_nans_with_0 is folded on a probe output and must zero every slot; Runner.get_result must return its result. "
        "NOT decided: that surviving operator entries are finite (numerical)."
    )
    rep.rule_text = (
        "cells enumerated exhaustively from literal domains (observable_name.sfs/xs/external_flavors folded from the source, the five FNS literals, "
        "NfFF 3..5, PTO 0..3, TMC 0..3); distinct = distinct cell label; non-trivial = folding reaches the per-point calculation or an exception."
    )
    rep.trusted_base = ["CPython ast", "yadsa partial evaluator (symeval) and its summaries of eko/numpy (runmodel.py)",
                        "eko.basis_rotation constants read from the installed source"]
    rep.assumptions = [
        "generic-point folding: a weight that is a non-constant polynomial in the inputs is treated as non-zero",
        "heavy-quark coefficient functions folded on the above-threshold branch (the below-threshold branch is C09)",
        "TMC shifted point satisfies 0 < xi <= x (decided under C10.vars)",
    ]
    check_leprohq(rep, proj)
    check_conv(rep, proj)
    check_lattice(rep, proj, tier)
    check_kin(rep, proj, tier)
    check_nan(rep, proj, tier)
