"""C13 - symmetry and decoupling relations between processes and beams.

Decided as normal-form identities between partially evaluated operators
(every order key, parton row and basis node; all inputs symbolic):
  (em)      op(NC) with the Z propagator ratios set to zero == op(EM), and each ratio carries the
            factor Q2/(MZ^2+Q2) (so NC -> EM identically when the Z decouples)
  (pol)     op(positron, P) == op(electron, -P)   [and nu/nubar likewise]
  (cc)      op(antineutrino)[p] == +/- op(neutrino)[pbar]  (minus for parity-violating kinds), same for e+/e-,
            for arbitrary (symbolic) CKM
  (flavour) in ZM-VFNS the rows of two active quarks with identical electroweak charges are identical
Not decided: numerical values.
"""

from __future__ import annotations

import itertools
from fractions import Fraction

from .. import algebra as A
from .. import opmodel as O
from .. import runmodel as R
from .. import sweep
from .. import symeval as S
from ..spec import ew

PV = {"F3", "gL", "g4"}
SCHEMES = [("ZM-VFNS", 4, 3), ("ZM-VFNS", 4, 5), ("FFNS", 3, None), ("FFN0", 4, None), ("FONLL-FFNS", 4, None)]


def _jobs(tier):
    jobs = []
    kinds = ["F2", "FL", "F3", "g1"] if tier == "quick" else ["F2", "FL", "F3", "g1", "gL", "g4"]
    ptos = [2] if tier == "quick" else [1, 2, 3]
    for kind, fl, (fns, nfff, nf), pto in itertools.product(kinds, ["total", "light", "charm"], SCHEMES, ptos):
        base = dict(obs=f"{kind}_{fl}", fns=fns, nfff=nfff, nf=nf, pto=pto, ren_sv=False, fact_sv=False)
        jobs.append(("em", base))
        if fl != "light" or tier == "thorough":
            jobs.append(("pol", base))
    for kind, fl, (fns, nfff, nf), pto, sv in itertools.product(["F2", "FL", "F3"], ["total", "light", "charm", "bottom"], SCHEMES, ptos, [False, True]):
        if sv and not (fl == "total" and fns in ("ZM-VFNS", "FFNS")):
            continue
        base = dict(obs=f"{kind}_{fl}", fns=fns, nfff=nfff, nf=nf, pto=pto, ren_sv=sv, fact_sv=sv)
        jobs.append(("cc", dict(pair=("neutrino", "antineutrino"), **base)))
        if tier == "thorough" or fl == "total":
            jobs.append(("cc", dict(pair=("electron", "positron"), **base)))
    for kind, proc, nf, pto in itertools.product(kinds, ["EM", "NC"], [3, 4, 5, 6], [1, 3] if tier == "quick" else [0, 1, 2, 3]):
        if tier == "quick" and proc == "NC" and pto == 3 and nf in (3, 4):
            continue
        jobs.append(("flavour", dict(obs=f"{kind}_total", process=proc, fns="ZM-VFNS", nfff=4, nf=nf, pto=pto, ren_sv=(pto == 1), fact_sv=(pto == 1))))
    for (a_, b_), (proc, pr), pto in itertools.product([("F2_total", "F2_light"), ("FL_total", "F2_total")], [("NC", "electron"), ("EM", "electron")], [1, 2]):
        jobs.append(("flavour-history", dict(first=a_, second=b_, process=proc, projectile=pr, pto=pto)))
    # flavour-tagged observables of massless quarks: the *other* active quarks of equal charge are still interchangeable
    for kind, (fl, hq), proc, nf, pto in itertools.product(["F2", "F3"] if tier == "quick" else kinds, [("charm", 4), ("bottom", 5)], ["EM", "NC"], [5, 6], [2, 3]):
        if tier == "quick" and ((proc == "EM" and kind == "F3") or (nf == 6 and pto == 3)):
            continue
        jobs.append(("flavour", dict(obs=f"{kind}_{fl}", process=proc, fns="ZM-VFNS", nfff=4, nf=nf, pto=pto, ren_sv=False, fact_sv=False, tagged=hq)))
    return jobs


def _entries(op):
    ncol = len(next(iter(op.orders.values()))[0][0]) if op.orders else 0
    for key in sorted(op.keys()):
        for pid in op.pids:
            for j in range(ncol):
                yield key, pid, j


def _run(job):
    from .. import model

    proj = model.project()
    kind, kw = job
    kw = dict(kw)
    bad = []
    n = 0
    try:
        if kind == "em":
            nc = O.fold_op(proj, R.Cell(process="NC", **kw), weights="semi")
            em = O.fold_op(proj, R.Cell(process="EM", **kw), weights="semi")
            zero = {"eta('phZ')": A.Rat.const(0), "eta('ZZ')": A.Rat.const(0)}
            for key, pid, j in _entries(nc):
                n += 1
                a = A.subs(A.to_rat(nc.entry(key, pid, j)), zero)
                b = A.to_rat(em.entry(key, pid, j))
                if not O.same(a, b):
                    bad.append((key, pid, j, O.diff_text(a, b)))
            what = "NC with eta_gZ = eta_Z = 0 == EM"
        elif kind == "pol":
            e = O.fold_op(proj, R.Cell(process="NC", projectile="electron", **kw), weights="full")
            p = O.fold_op(proj, R.Cell(process="NC", projectile="positron", **kw), weights="full")
            flip = {"pol": -A.sym("pol")}
            differs = False
            for key, pid, j in _entries(e):
                n += 1
                a = A.to_rat(p.entry(key, pid, j))
                b = A.subs(A.to_rat(e.entry(key, pid, j)), flip)
                if not O.same(a, b):
                    bad.append((key, pid, j, O.diff_text(a, b)))
            what = "positron(P) == electron(-P)"
        elif kind == "cc":
            a_name, b_name = kw.pop("pair")
            k = kw["obs"].split("_")[0]
            a = O.fold_op(proj, R.Cell(process="CC", projectile=a_name, **kw))
            b = O.fold_op(proj, R.Cell(process="CC", projectile=b_name, **kw))
            sgn = -1 if k in PV else 1
            for key, pid, j in _entries(a):
                n += 1
                conj = -pid if abs(pid) <= 6 else pid
                x = A.to_rat(b.entry(key, pid, j))
                y = A.to_rat(a.entry(key, conj, j)) * sgn
                if not O.same(x, y):
                    bad.append((key, pid, j, O.diff_text(x, y)))
            what = f"{b_name}[p] == {'-' if sgn < 0 else '+'}{a_name}[pbar]"
        elif kind == "flavour":
            tagged = kw.pop("tagged", None)
            op = O.fold_op(proj, R.Cell(**kw), weights="full")
            nf = kw["nf"]
            pairs = [p_ for p_ in [(1, 3), (1, 5), (3, 5), (2, 4), (2, 6), (4, 6)] if tagged not in p_]
            for key, _, j in ((k_, 0, j_) for k_ in sorted(op.keys()) for j_ in range(2)):
                for q1, q2 in pairs:
                    if q2 > nf:
                        continue
                    for s in (1, -1):
                        n += 1
                        x, y = op.entry(key, s * q1, j), op.entry(key, s * q2, j)
                        if not O.same(x, y):
                            bad.append((key, s * q1, j, f"row {s*q1} != row {s*q2}: " + O.diff_text(x, y)))
            what = "rows of equal-charge active quarks identical"
        elif kind == "flavour-history":
            # the same relation at a point that the runner serves AFTER points with fewer active flavours (and after an earlier point with
            # the same number): whatever the runner keeps between points must not single out a quark
            from . import c14

            base = dict(process=kw["process"], projectile=kw["projectile"], fns="ZM-VFNS", nfff=4, pto=kw["pto"], tmc=0, ren_sv=True, fact_sv=True)
            try:
                runner, outs = c14.fold_history(proj, base, [(kw["first"], [4]), (kw["second"], [1, 4])], weights="full")  # Q2 = 30 (nf 5); 10 (nf 4), 30 (nf 5)
            except (A.Undecided, S.Raised) as e:
                return ("fold", "undecided" if isinstance(e, A.Undecided) else "raised", str(e)[:140])
            pt = outs[0].store[kw["second"]][-1]
            rows = [22, -6, -5, -4, -3, -2, -1, 21, 1, 2, 3, 4, 5, 6]
            for key, (vals, errs) in sorted(pt.attrs["orders"].items()):
                for q1, q2 in [(1, 3), (1, 5), (3, 5), (2, 4)]:
                    for s_ in (1, -1):
                        for j, (x, y) in enumerate(zip(vals.data[rows.index(s_ * q1)], vals.data[rows.index(s_ * q2)])):
                            n += 1
                            if not O.same(x, y):
                                bad.append((key, s_ * q1, j, f"row {s_*q1} != row {s_*q2}: " + O.diff_text(A.to_rat(x), A.to_rat(y))))
            what = "rows of equal-charge active quarks identical at the last point (nf = 5) of a run that served nf = 5, 4, 5"
        else:
            return ("fold", "undecided", "unknown job")
    except O.FoldFailure as f:
        return ("fold", f.outcome.status, f"{f.outcome.etype} {f.outcome.msg}"[:140])
    return ("cmp", n, bad[:3], len(bad), what)


def check_eta(rep, proj):
    """Each non-photon propagator ratio has the factor Q2/(MZ^2 + Q2)."""
    from .c02 import make_cc

    s = ew.syms()
    ev = S.Evaluator(proj, lenient_ext=True)
    cc = make_cc(ev, proj, "NC", "electron")
    cls = proj.cls("yadism.coefficient_functions.coupling_constants", "CouplingConstants")
    pf = cls.find_method("propagator_factor")
    for mode in ("phZ", "ZZ"):
        v = A.to_rat(ev.call(S.FuncVal(ev, pf, bound=cc), [mode, s["Q2"]], {}))
        num_ok = A.has_factor(v, "Q2")
        den_ok = any(set(f.atoms()) >= {"MZ", "Q2"} for f, _ in v.d.values())
        rep.check(num_ok and den_ok, "C13.em", pf.site, f"{pf.fq}[{mode}]", "carries the factor Q2/(MZ^2+Q2): vanishes as the Z decouples",
                  f"does not vanish with Q2/(MZ^2+Q2): {v.canon()[:120]}", key=mode)
    v = S.num_norm(ev.call(S.FuncVal(ev, pf, bound=cc), ["phph", s["Q2"]], {}))
    rep.check(v == 1, "C13.em", pf.site, f"{pf.fq}[phph]", "== 1", f"= {v}")


def run(rep, proj, tier):
    rep.explanation = (
        "Decides, as normal-form identities between partially evaluated operators over a lattice of kinds, heavyness, schemes and orders: "
        "NC with the Z propagator ratios substituted by zero equals EM (and each ratio carries Q2/(MZ^2+Q2)); positron with polarisation P "
        "equals electron with -P; antineutrino/e+ charged-current operators equal the neutrino/e- ones with parton rows charge-conjugated and a "
        "minus sign for parity-violating kinds, for symbolic CKM; in ZM-VFNS the rows of active quarks with identical electroweak charges "
        "coincide. NOT decided: numerical values."
    )
    rep.rule_text = "jobs from literal domains; entries = order key x parton row x basis node; distinct by job label; non-trivial = both operators fold."
    rep.trusted_base = ["CPython ast", "yadsa partial evaluator and summaries", "algebra.subs for the substitutions P -> -P and eta -> 0"]
    rep.assumptions = ["heavy coefficient functions folded above threshold", "generic-point folding of symbolic weights"]
    check_eta(rep, proj)
    # the relations compare runs (Z decoupled vs not, beam vs conjugate beam): nothing a coupling object computed for one run may be
    # remembered for another (a process-wide memo of propagators / couplings keyed without the electroweak parameters)
    from . import state

    state.check(rep, proj, "C13.state", module_filter=lambda m: m.name in ("yadism.coefficient_functions.coupling_constants", "yadism.coefficient_functions.kernels"))
    jobs = _jobs(tier)
    outs = sweep.run_cells(_run, jobs)
    n_entries = 0
    for (kind, kw), o in zip(jobs, outs):
        label = f"{kind}:" + "|".join(f"{k}={v}" for k, v in sorted(kw.items()) if k not in ("ren_sv", "fact_sv")) + f"|sv={kw.get('ren_sv')}"
        rule = f"C13.{kind}"
        if o[0] == "fold":
            if o[1] == "rejected":
                rep.ok(rule, "", label, f"configuration explicitly rejected ({o[2][:60]})")
            else:
                rep.undecided(rule, "", label, f"not foldable ({o[1]}): {o[2]}")
            continue
        _, n, bad, nbad, what = o
        n_entries += n
        if nbad == 0:
            rep.ok(rule, "", label, f"{what}: {n} entries identical")
        else:
            key, pid, j, txt = bad[0]
            rep.bad(rule, "src/yadism/coefficient_functions/coupling_constants.py", label,
                    f"{what} fails for {nbad} of {n} entries, e.g. order {key} pid {pid} node {j}: {txt[:300]}", key=label)
    rep.info["entries_compared"] = n_entries
    rep.floor("symmetry jobs", len(jobs), 150)
    rep.floor("entries compared", n_entries, 15000)
