"""C20 - the runner leaves its inputs untouched and echoes them in the output.

Decided by folding Runner(theory, observables), Runner.get_result() and compatibility.update on a
lattice of cards (five FNS - each triggers threshold rewriting - x target spellings x TMC x
structure-function/cross-section mixes x legacy spellings of PTODIS/FONLLParts/scale-variation
keys/alphaqed/QED): after construction, after get_result and after a second construction from the
*same* dict objects the caller's theory and observables dictionaries - nested kinematics lists and
target dicts included - are value- and key-identical to a snapshot taken before; the returned
output carries cards equal to those given, the grid that was requested, eko's flavour-basis pids
and the projectile actually used, and is a fresh copy on every call; update(update(t, o)) ==
update(t, o).  Not decided: mutation inside external libraries (eko, numpy receive copies or
scalars; stated).
"""

from __future__ import annotations

import itertools
from fractions import Fraction

from .. import algebra as A
from .. import pcmodel as P
from .. import runmodel as R
from .. import sweep
from .. import symeval as S

PROJ_PID = {"electron": 11, "positron": -11, "neutrino": 12, "antineutrino": -12}


def snap(v, ids=None):
    """Hashable canonical snapshot of a folded value (containers by content)."""
    if isinstance(v, dict):
        return ("dict", tuple(sorted((str(k), snap(x, ids)) for k, x in v.items())))
    if isinstance(v, (list, tuple)):
        return (type(v).__name__, tuple(snap(x, ids) for x in v))
    if isinstance(v, S.Arr):
        return ("arr", snap(v.data, ids))
    if isinstance(v, A.Rat):
        return ("rat", v.canon())
    if isinstance(v, S.ObjVal):
        return ("obj", v.label or (v.cinfo.name if v.cinfo else "?"), snap(v.attrs, ids), snap({k: x for k, x in v.store.items()}, ids))
    if isinstance(v, float):
        return ("float", repr(v))
    return (type(v).__name__, repr(v))


def container_ids(v, out=None):
    out = {} if out is None else out
    if isinstance(v, dict):
        out[id(v)] = v
        for x in v.values():
            container_ids(x, out)
    elif isinstance(v, (list, tuple)):
        if isinstance(v, list):
            out[id(v)] = v
        for x in v:
            container_ids(x, out)
    elif isinstance(v, S.Arr):
        for c in v.flat_cells():  # array memory: two arrays (or views) that share a cell share storage
            out[id(c)] = c
    return out


def first_difference(a, b, path=""):
    if type(a) is not type(b):
        return f"{path}: type {type(a).__name__} -> {type(b).__name__}"
    if isinstance(a, dict):
        for k in a:
            if k not in b:
                return f"{path}[{k!r}] removed"
        for k in b:
            if k not in a:
                return f"{path}[{k!r}] added"
        for k in a:
            d = first_difference(a[k], b[k], f"{path}[{k!r}]")
            if d:
                return d
        return None
    if isinstance(a, (list, tuple)):
        if len(a) != len(b):
            return f"{path}: length {len(a)} -> {len(b)}"
        for i, (x, y) in enumerate(zip(a, b)):
            d = first_difference(x, y, f"{path}[{i}]")
            if d:
                return d
        return None
    if snap(a) != snap(b):
        return f"{path}: {snap(a)[1]!s:.40} -> {snap(b)[1]!s:.40}"
    return None


def deep_clone(v):
    if isinstance(v, S.Arr):
        return S.Arr(v.data)
    if isinstance(v, dict):
        return {k: deep_clone(x) for k, x in v.items()}
    if isinstance(v, list):
        return [deep_clone(x) for x in v]
    if isinstance(v, tuple):
        return tuple(deep_clone(x) for x in v)
    return v


CARD_NAMES = ("theory", "new_theory", "observables", "new_observables", "new_obs", "runcard")


def optional_keys(proj):
    """Card keys the source reads with a default (.get(K, d) / .setdefault(K, d)) and never by plain subscript: they may be absent from a valid card."""
    import ast

    defaulted, required = {}, set()
    for m in proj.modules.values():
        for n in ast.walk(m.tree):
            if isinstance(n, ast.Call) and isinstance(n.func, ast.Attribute) and n.func.attr in ("get", "setdefault") and len(n.args) == 2 \
                    and isinstance(n.args[0], ast.Constant) and isinstance(n.args[0].value, str) \
                    and isinstance(n.func.value, ast.Name) and n.func.value.id in CARD_NAMES:
                defaulted.setdefault(n.args[0].value, f"{m.relpath}:{n.lineno}")
            if isinstance(n, ast.Subscript) and isinstance(n.ctx, ast.Load) and isinstance(n.slice, ast.Constant) and isinstance(n.slice.value, str):
                v = n.value
                if isinstance(v, ast.Attribute):
                    v = ast.Name(id=v.attr.lstrip("_"))
                if isinstance(v, ast.Name) and v.id in CARD_NAMES:
                    required.add(n.slice.value)
    return {k: w for k, w in defaulted.items() if k not in required}


def cards(spec):
    cell = R.Cell(obs=spec["obs"][0], process=spec["process"], fns=spec["fns"], nfff=spec["nfff"], nf=4, pto=1, tmc=spec["tmc"],
                  projectile=spec["projectile"], target=spec["target"], ren_sv=spec.get("sv", False), fact_sv=spec.get("sv", False), kin_y=True)
    th = R.theory_card(cell)
    ob = R.observables_card(cell, n_points=2)
    kin = ob["observables"][spec["obs"][0]]
    kin[0]["Q2"], kin[1]["Q2"] = 20, 10  # concrete so that the Q2-ordering of the evaluation is folded
    ob["observables"] = {}
    for name in spec["obs"]:
        ob["observables"][name] = [dict(k) for k in kin]
    ob["observables"]["F2_top"] = []
    leg = spec["legacy"]
    if leg == "none-keys":
        th["PTODIS"] = None
        th["FONLLParts"] = None
        del th["RenScaleVar"]
        del th["FactScaleVar"]
    elif leg == "qed-keys":
        th["QED"] = 1  # a non-zero QED order: the upgraded `order` entry must survive a second upgrade
    elif leg == "absent-keys":
        del th["PTODIS"]
        del th["FONLLParts"]
    elif leg == "unsorted-grid":
        ob["interpolation_xgrid"] = [Fraction(1), Fraction(1, 4), Fraction(1, 2)]  # eko sorts: the grid used is ascending
    elif leg == "minimal":
        for k in spec["optional"]:
            th.pop(k, None)
            ob.pop(k, None)
    elif leg == "array-valued":
        # sequences handed over as (float64) numpy arrays: np.asarray(x, dtype=float) is then the caller's own object, not a copy
        ob["interpolation_xgrid"] = S.Arr(list(ob["interpolation_xgrid"]))
        if spec["process"] != "CC":
            th["CKM"] = S.Arr(list(th["CKM"]))  # (the CC branch of the unchanged code reads the CKM matrix only from a string or a list)
    return cell, th, ob


def _job(spec):
    from .. import model

    proj = model.project()
    cell, th, ob = cards(spec)
    leg = spec["legacy"]
    before_t, before_o = deep_clone(th), deep_clone(ob)
    ids_before = set(container_ids(th)) | set(container_ids(ob))
    problems = []
    stage = ["Runner(theory, observables)"]

    evbox = []

    def writers():
        if not evbox or not evbox[0].watch_hits:
            return ""
        seen = []
        for label, how, node in evbox[0].watch_hits:
            site, construct, stmt = sweep.locate(proj, node)
            txt = f"{site} `{stmt[:70]}` in {construct} writes the caller's {label} via {how}"
            if txt not in seen:
                seen.append(txt)
        return " [writer(s): " + "; ".join(seen[:3]) + "]"

    def compare(stage):
        d = first_difference(before_t, th, "theory") or first_difference(before_o, ob, "observables")
        if d:
            problems.append(f"after {stage}: caller's {d}" + (writers() if not problems else ""))

    try:
        ext = {
            "eko.interpolation.XGrid": R._xgrid,
            "eko.interpolation.InterpolatorDispatcher": R._interpolator,
            "eko.quantities.heavy_quarks.MatchingScales": R._matching_scales,
            "eko.matchings.Atlas": R._atlas,
            "eko.matchings.nf_default": R.make_nf_default(cell),
            "numpy.searchsorted": R.make_searchsorted(cell),
            "numpy.digitize": R.make_digitize(cell),
            "time.time": lambda ev_: 0,
        }
        ev = S.Evaluator(proj, on_call=P.above_threshold_hook, on_compare=R.make_compare(True), lenient_ext=True, ext_calls=ext)
        R._install_eko_overrides(ev, proj, ext)
        evbox.append(ev)
        ev.watch_abort = True  # a write into the caller's cards is the violation itself: stop folding there
        watched_cells = {}
        for root, label in ((th, "theory"), (ob, "observables")):
            for i, c_ in container_ids(root).items():
                if isinstance(c_, S.Cell):
                    watched_cells[i] = label
                else:
                    ev.watched[i] = label

        def cell_watch(cells, _ev=ev):
            for c_ in cells:
                if id(c_) in watched_cells:
                    hit = (watched_cells[id(c_)], "an in-place array operation (the array is the caller's own: np.asarray / a view / an alias did not copy it)", getattr(_ev, "current_stmt", None))
                    _ev.watch_hits.append(hit)
                    raise S.WatchedWrite(*hit)

        S.CELL_WATCH[0] = cell_watch if watched_cells else None
        rcls = proj.cls("yadism.runner", "Runner")
        runner = ev.instantiate(S.ClassVal(ev, rcls), [th, ob], {})
        compare("Runner(theory, observables)")
        stage[0] = "get_result()"
        R.install_result_summaries(ev)
        R.opaque_weights(ev)
        out1 = ev.call(ev.getattr(runner, "get_result", None), [], {})
        compare("get_result()")
        stage[0] = "a second get_result()"
        out2 = ev.call(ev.getattr(runner, "get_result", None), [], {})
        compare("a second get_result()")
        stage[0] = "a second Runner(...) from the same dict objects"
        runner2 = ev.instantiate(S.ClassVal(ev, rcls), [th, ob], {})
        compare("a second Runner(...) from the same dict objects")
        # the package-level entry point most users call
        out3 = None
        try:
            entry = proj.func("yadism", "run_yadism")
        except Exception:
            entry = None
        if entry is not None and spec.get("entry", True):
            stage[0] = "run_yadism(theory, observables)"
            out3 = ev.call(S.FuncVal(ev, entry), [th, ob], {})
            compare("run_yadism(theory, observables)")
        # repeated construction sees the same configuration
        if snap(runner.attrs["configs"].attrs["theory"]) != snap(runner2.attrs["configs"].attrs["theory"]):
            problems.append("a second construction from the same dicts yields different theory parameters")
        # echo
        for o_, tag in ((out1, "first"), (out2, "second")) + (((out3, "run_yadism's"),) if out3 is not None else ()):
            d = first_difference(before_t, o_.attrs.get("theory"), "output.theory") or first_difference(before_o, o_.attrs.get("observables"), "output.observables")
            if d:
                problems.append(f"{tag} output does not echo the given cards: {d}")
            xg = o_.store.get("xgrid")
            used = R.manager(runner, "interpolator").attrs["xgrid"].attrs["raw"]
            if not (isinstance(xg, dict) and snap(list(xg.get("grid"))) == snap(list(used))):
                problems.append(f"{tag} output grid {snap(xg.get('grid')) if isinstance(xg, dict) else xg} is not the grid the operators refer to ({snap(list(used))})")
            req = before_o["interpolation_xgrid"]
            if leg != "unsorted-grid" and not (isinstance(xg, dict) and snap(list(xg.get("grid"))) == snap(list(req.data if isinstance(req, S.Arr) else req))):
                problems.append(f"{tag} output grid differs from the requested (ascending) interpolation_xgrid")
            if list(o_.store.get("pids", [])) != [22, -6, -5, -4, -3, -2, -1, 21, 1, 2, 3, 4, 5, 6]:
                problems.append(f"{tag} output pids are not eko's flavour basis")
            if o_.store.get("projectilePID") != PROJ_PID[spec["projectile"]]:
                problems.append(f"{tag} output projectilePID {o_.store.get('projectilePID')} is not the projectile used")
            for name in spec["obs"]:
                pts = o_.store.get(name)
                if not isinstance(pts, list) or len(pts) != 2:
                    problems.append(f"{tag} output lacks the requested points of {name}")
                else:
                    for k, pt in zip(before_o["observables"][name], pts):
                        if snap(pt.attrs.get("x")) != snap(k["x"]) or snap(pt.attrs.get("Q2")) != snap(k["Q2"]):
                            problems.append(f"{tag} output point of {name} is not at the requested kinematics (order of evaluation leaked)")
        # fresh copies
        shared = set(container_ids(out1.store)) & set(container_ids(out2.store))
        if shared:
            problems.append("two get_result() calls share mutable containers")
        if out1 is out2 or out1 is runner.attrs.get("_output"):
            problems.append("get_result() hands out the runner's internal output object")
        # aliasing of the caller's containers into the output (allowed for the echo of the cards only if copied)
        leaked = (set(container_ids(out1.attrs.get("theory"))) | set(container_ids(out1.attrs.get("observables")))) & ids_before
        if leaked:
            problems.append("the returned output aliases the caller's card containers (a later edit by either side leaks)")
        # idempotence of the upgrade
        upd = proj.func("yadism.input.compatibility", "update")
        t1, o1 = ev.call(S.FuncVal(ev, upd), [deep_clone(before_t), deep_clone(before_o)], {})
        t2, o2 = ev.call(S.FuncVal(ev, upd), [t1, o1], {})
        d = first_difference(t1, t2, "theory") or first_difference(o1, o2, "observables")
        if d:
            problems.append(f"legacy-card upgrade is not idempotent: {d}")
    except S.WatchedWrite as w:
        site, construct, stmt = sweep.locate(proj, w.node)
        d = first_difference(before_t, th, "theory") or first_difference(before_o, ob, "observables") or f"{w.label} modified"
        problems.append(f"during {stage[0]}: {site} `{stmt[:70]}` in {construct} writes the caller's {w.label} via {w.how} (caller's {d})")
        return ("ok", problems[:4], len(problems))
    except A.Undecided as e:
        return ("undecided", str(e)[:200])
    except S.Raised as e:
        if stage[0].startswith("a second"):
            d = first_difference(before_t, th, "theory") or first_difference(before_o, ob, "observables")
            problems.append(f"{stage[0]} fails with {e.etype}: {e.msg}" + (f" because the first use modified the caller's {d}" if d else ""))
            return ("ok", problems[:4], len(problems))
        return ("raised", f"{e.etype}: {e.msg}"[:200], sweep.locate(proj, e.node))
    return ("ok", problems[:4], len(problems))


def specs(tier, optional=()):
    out = []
    for fns, nfff in (("ZM-VFNS", 4), ("FFNS", 3), ("FFN0", 4), ("FONLL-FFNS", 4), ("FONLL-FFN0", 3)):
        for target, tmc, (obs, process, projectile), legacy in itertools.product(
            ["proton", "iron", "marble", {"Z": Fraction(1), "A": Fraction(2)}], [0, 1],
            [(["F2_charm", "FL_total"], "NC", "electron"), (["XSHERANC", "F2_total"], "NC", "positron"), (["XSCHORUSCC_charm", "F3_light"], "CC", "neutrino")],
            ["plain", "none-keys", "qed-keys", "absent-keys", "minimal", "unsorted-grid", "array-valued"],
        ):
            if legacy in ("minimal", "unsorted-grid", "array-valued") and (tmc or target in ("marble",) or isinstance(target, dict)):
                continue
            if tier == "quick":
                if target == "marble" and legacy != "plain":
                    continue
                if tmc and not (legacy == "plain" and target in ("proton", "iron") and obs[0] in ("F2_charm", "XSHERANC") and fns in ("ZM-VFNS", "FFNS")):
                    continue
                if obs[0].startswith("XS") and legacy in ("qed-keys", "absent-keys") and fns not in ("ZM-VFNS",):
                    continue
            out.append(dict(fns=fns, nfff=nfff, target=target, tmc=tmc, obs=obs, process=process, projectile=projectile, legacy=legacy, optional=sorted(optional),
                            sv=(legacy == "none-keys" and tmc == 0 and obs[0] == "F2_charm")))
    return out


def run(rep, proj, tier):
    rep.explanation = (
        "Decides by partial evaluation of Runner(theory, observables), Runner.get_result() (twice), a second construction from the same dict "
        "objects and compatibility.update (twice) over a lattice of cards: the caller's theory/observables dictionaries, nested kinematics lists "
        "and target dicts included, stay key- and value-identical to a snapshot at every stage; the output echoes cards equal to those given, "
        "the requested grid, eko's flavour-basis pids, the projectile used and each point at its requested kinematics in request order; every "
        "get_result() returns a fresh copy that shares no container with another call, the runner or the caller; the legacy upgrade is "
        "idempotent. NOT decided: mutation inside external libraries."
    )
    rep.rule_text = "cards from literal domains: 5 FNS x 4 target spellings x TMC x 3 observable mixes x 5 card spellings (plain, None-valued keys, QED key, absent legacy keys, and 'minimal': every key the source reads with a default and never by subscript removed); distinct by card label."
    rep.trusted_base = ["CPython ast", "yadsa partial evaluator (Python dict/list aliasing semantics are those of the host interpreter)"]
    rep.assumptions = ["eko/numpy constructors do not mutate the lists they are given (they receive fresh lists or arrays)"]
    opt = optional_keys(proj)
    rep.info["optional_card_keys"] = opt
    rep.floor("optional card keys found in the source", len(opt), 2)
    sp = specs(tier, opt)
    outs = sweep.run_cells(_job, sp)
    n_ok = 0
    for s_, o in zip(sp, outs):
        tgt = s_["target"] if isinstance(s_["target"], str) else "dict"
        label = f"{s_['fns']}|{tgt}|TMC={s_['tmc']}|{'+'.join(s_['obs'])}|{s_['process']}|{s_['legacy']}"
        if o[0] == "undecided":
            rep.undecided("C20.inputs", "", label, o[1])
            continue
        if o[0] == "raised":
            site, construct, stmt = o[2]
            rep.undecided("C20.inputs", site, label, f"folding ends in {o[1]} at {construct}: C16 business")
            continue
        _, problems, n = o
        n_ok += 1
        rep.check(n == 0, "C20.inputs", "src/yadism/runner.py", label, "inputs untouched at every stage; cards, grid, pids, projectile echoed; fresh copies; idempotent upgrade",
                  "; ".join(problems)[:700], key=label)
    rep.floor("cards folded", n_ok, 90)
