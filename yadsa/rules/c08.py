"""C08 - FFN0 is the high-virtuality limit of FFNS.

The limit itself (the difference vanishing like a power of m^2/Q^2) is an asymptotic statement
about LeProHQ/adani values and is NOT decided.  Decided is a necessary structural clause on
partially evaluated operators: order by order in a_s (0..2) and parton row by parton row, the
massive (FFNS) and the asymptotic (FFN0) operator carry the same coupling weights - an asymptotic
term whose weight has no massive counterpart can never cancel, and a massive term without an
asymptotic counterpart must be one of the frozen power-suppressed cases (F_L at LO, which is
proportional to m^2/Q^2).  Both sides are built from the same weight constructors by construction of
the comparison.  A missing Asy* class or order therefore shows up as a support mismatch (or as a
failed fold).
"""

from __future__ import annotations

import itertools
from fractions import Fraction

from .. import algebra as A
from .. import opmodel as O
from .. import runmodel as R
from .. import pcmodel as P
from .. import sweep
from .. import symeval as S

# frozen exceptions: (kind, order) -> reason
POWER_SUPPRESSED = {("FL", 0): "F_L vanishes at LO for massless quarks; the massive LO term is proportional to m^2/Q^2"}


import re

_OWNER = re.compile(r"@(\w+)\.(\w+)\.(\w+)'")


def channel_tag(conv_atom, heavy_row):
    """Physical channel of the kernel behind a quadrature atom: the producing class (recorded by the folder) classified with the
    same name rules as yadism's Kernel.channel; massive and asymptotic classes map to the same tag."""
    if heavy_row:
        return "heavy-quark initiated"
    m = _OWNER.search(conv_atom)
    if m is None:
        return "unowned"
    family, module, cls = m.groups()
    if "NonSinglet" in cls or "Quark" in cls:
        t = "non-singlet"
    elif "Singlet" in cls:
        t = "singlet"
    elif "Gluon" in cls:
        t = "gluon"
    elif "Valence" in cls:
        t = "valence"
    elif any(x in cls for x in ("Intrinsic", "Splus", "Sminus", "Rplus", "Rminus")):
        return "heavy-quark initiated"
    else:
        t = cls
    return ("light:" if family == "light" else "") + t


def watoms(e, heavy_row=False):
    """Set of (coupling weight, channel tag) pairs of an operator entry."""
    if not isinstance(e, A.Rat):
        return set()
    out = set()
    for m in e.n.t:
        ws = [a for a, _ in m if a.startswith("w(") or a.startswith("wfl11(")]
        cs = [a for a, _ in m if a.startswith("conv(")]
        for w in ws:
            for c in cs or [""]:
                out.add((w, channel_tag(c, heavy_row) if c else "?"))
    return out


OUT_OF_SCOPE = ("gL", "g4")  # not in the property's quantifier ("NC F2/FL (g1 ...), CC F2/FL/F3"); compared for information only


def _job(kw):
    from .. import model

    proj = model.project()
    try:
        a = O.fold_op(proj, R.Cell(fns="FFNS", **kw))
    except O.FoldFailure as f:
        return ("fold", "FFNS", f.outcome.status, f"{f.outcome.etype} {f.outcome.msg}"[:160], f.outcome.construct)
    try:
        b = O.fold_op(proj, R.Cell(fns="FFN0", **kw))
    except O.FoldFailure as f:
        return ("fold", "FFN0", f.outcome.status, f"{f.outcome.etype} {f.outcome.msg}"[:160], f.outcome.construct)
    kind = kw["obs"].split("_")[0]
    only_asy, only_massive, excepted = [], [], 0
    n = 0
    n_nontrivial = 0
    for k in range(min(kw["pto"], 2) + 1):
        key = (k, 0, 0, 0)
        for p in a.pids:
            sa, sb = set(), set()
            hr = abs(p) in (4, 5, 6) and abs(p) > kw["nfff"]
            for j in range(R.GRID_N):
                sa |= watoms(a.entry(key, p, j), hr)
                sb |= watoms(b.entry(key, p, j), hr)
            n += 1
            if sa or sb:
                n_nontrivial += 1
            if sb - sa:
                only_asy.append((k, p, sorted(sb - sa)))
            if sa - sb:
                if (kind, k) in POWER_SUPPRESSED:
                    excepted += 1
                else:
                    only_massive.append((k, p, sorted(sa - sb)))
    # in the massless limit vector and axial couplings have the same coefficient functions (chirality is conserved): in the FFN0
    # operator w(q,'VV') and w(q,'AA') - and w(q,'VA'), w(q,'AV') - must multiply exactly the same combination of kernels
    va_bad, va_n = [], 0
    for key in sorted(b.keys()):
        if key[0] > 2 or key[2] or key[3]:
            continue
        for p in b.pids:
            for j in range(R.GRID_N):
                e = b.entry(key, p, j)
                if not isinstance(e, A.Rat):
                    continue
                ats = e.atoms()
                for q in (4, 5, 6):
                    for t1, t2 in (("VV", "AA"), ("VA", "AV")):
                        a1, a2 = f"w({q}, '{t1}')", f"w({q}, '{t2}')"
                        if a1 in ats or a2 in ats:
                            va_n += 1
                            if not A.equal(A.coeff_of(e, a1), A.coeff_of(e, a2), tol=Fraction(0)):
                                va_bad.append((key, p, f"{a1} and {a2} multiply different kernel combinations: "
                                               + A.fmt_diffs(A.difference(A.coeff_of(e, a1), A.coeff_of(e, a2), tol=Fraction(0)), 2)[:200]))
    return ("ok", n, n_nontrivial, only_asy[:3], len(only_asy), only_massive[:3], len(only_massive), excepted, va_bad[:2], len(va_bad), va_n)


def jobs(tier):
    out = []
    kinds = ["F2", "FL", "F3", "g1"] if tier == "quick" else ["F2", "FL", "F3", "g1", "gL", "g4"]
    for kind, fl, proc, nfff, pto in itertools.product(kinds, ["charm", "bottom", "total", "light"], ["NC", "CC"], [3, 4], [0, 1, 2]):
        if proc == "CC" and kind in ("g1", "gL", "g4"):
            continue
        if fl == "bottom" and nfff == 3 and tier == "quick":
            continue
        if fl == "charm" and nfff == 4:
            continue
        out.append(dict(obs=f"{kind}_{fl}", process=proc, projectile="neutrino" if proc == "CC" else "electron", nfff=nfff, pto=pto, ren_sv=False, fact_sv=False))
    return out


def check_levels(rep, proj):
    """At each order the asymptotic classes of a channel must provide every power of the collinear logarithm."""
    from .. import pcmodel as P
    from .. import symeval as S

    ev = S.Evaluator(proj, on_call=P.above_threshold_hook, lenient_ext=True)
    sym = P.Sym()
    n_ch = 0
    for (fam, kind, procc), m in sorted(P.dispatch_modules(proj).items()):
        if fam != "asy":
            continue
        for ch in ("Gluon", "Singlet", "NonSinglet"):
            pres = {}
            for res in range(3):
                c = m.classes.get("Asy" + "N" * res + "LL" + ch)
                if c is None:
                    continue
                try:
                    obj = P.instantiate(ev, c, sym)
                except (A.Undecided, S.Raised):
                    continue
                for k in range(3):  # the property speaks about orders 0..2
                    if P.fold_order(ev, obj, k).status == "rsl":
                        pres.setdefault(k, set()).add(res)
            if not pres:
                continue
            n_ch += 1
            d = min(min(v) for v in pres.values())
            problems = []
            for k, levels in sorted(pres.items()):
                want = set(range(d, k + 1))
                if levels != want:
                    miss = sorted(want - levels)
                    extra = sorted(levels - want)
                    problems.append(f"order {k}: logarithmic levels {sorted(levels)} instead of {sorted(want)}"
                                    + (f" (missing Asy{'N' * miss[0]}LL{ch} at order {k})" if miss else f" (unexpected level {extra})"))
            rep.check(not problems, "C08.levels", m.relpath, f"{m.name}::Asy*LL{ch}",
                      f"every power of the collinear logarithm present at each order ({ {k: sorted(v) for k, v in sorted(pres.items())} })",
                      "; ".join(problems)[:400], key=ch)
    rep.floor("asymptotic channels with content", n_ch, 10)


def check_mass(rep, proj, tier):
    """FFNS - FFN0 can only vanish if the logarithms L = ln(Q2/m^2) of an asymptotic kernel carry the mass of the quark whose massive kernel it replaces."""
    from . import c09

    jobs_ = []
    for kind, fl, (proc, projectile), (fns, nfff) in itertools.product(
        ["F2", "FL", "F3", "g1"], ["total", "bottom", "charm", "top"], [("NC", "electron"), ("CC", "neutrino")], [("FFN0", 3), ("FFN0", 4), ("FONLL-FFN0", 3), ("FONLL-FFN0", 4)]
    ):
        if (proc == "CC" and kind == "g1") or (fl == "charm" and nfff == 4) or (tier == "quick" and fl == "top" and kind != "F2"):
            continue
        jobs_.append(dict(obs=f"{kind}_{fl}", process=proc, projectile=projectile, fns=fns, nfff=nfff, pto=2, ren_sv=False, fact_sv=False))
    outs = sweep.run_cells(c09._mass_job, jobs_)
    n_k = 0
    for kw, o in zip(jobs_, outs):
        label = f"{kw['obs']}|{kw['process']}|{kw['fns']}|NfFF={kw['nfff']}"
        if o[0] == "fold":
            if o[1] == "rejected":
                rep.ok("C08.mass", "", label, f"configuration explicitly rejected ({o[2][:50]})")
            else:
                rep.undecided("C08.mass", "", label, f"not foldable ({o[1]}): {o[2]}")
            continue
        _, bad, nbad, n = o
        n_k += n
        rep.check(nbad == 0, "C08.mass", "src/yadism/coefficient_functions/asy/kernels.py", label,
                  f"{n} mass-carrying asymptotic kernels carry the mass of the quark their weights name", "; ".join(bad)[:500], key=label)
    rep.floor("mass-carrying asymptotic kernels inspected", n_k, 150)


def check_local(rep, proj):
    """The local (delta(1-z)) part of the light-quark initiated ("missing") heavy-quark correction is the virtual heavy-loop correction to the
    Born vertex: it is proportional to the Born coefficient.  So, kind by kind: the massive NonSinglet kernel carries a local part at
    order 2  <=>  the massless NonSinglet coefficient function of that kind has a Born term (order 0)  <=>  some level of the asymptotic
    NonSinglet family carries a local part at order 2.  A local part on one side only cannot cancel in FFNS - FFN0 (a delta function is not
    the limit of the regular parts), so the difference would not vanish at high virtuality.  Kinds without an asymptotic family (gL, g4)
    are outside the property's quantifier: reported, never alarmed on."""
    from .. import pcmodel as P
    from .. import symeval as S

    ev = S.Evaluator(proj, on_call=P.above_threshold_hook, lenient_ext=True)
    sym = P.Sym()
    mods = P.dispatch_modules(proj)
    n = 0

    def has_loc(c, k):
        obj = P.instantiate(ev, c, sym)
        r = P.fold_order(ev, obj, k)
        if r.status in ("undecided", "raised"):
            raise A.Undecided(f"{c.fq} order {k}: {r.reason}")
        return r.status == "rsl" and r.rsl.attrs.get("loc") is not None, r.status

    for (fam, kind, procc), m in sorted(mods.items()):
        if fam != "heavy" or procc != "nc":
            continue
        hc = m.classes.get("NonSinglet")
        if hc is None:
            continue
        construct = f"{hc.fq}.NNLO"
        lm, am = mods.get(("light", kind, "nc")), mods.get(("asy", kind, "nc"))
        try:
            heavy_loc, hstat = has_loc(hc, 2)
            if hstat != "rsl":
                continue
            born = None
            if lm is not None and lm.classes.get("NonSinglet") is not None:
                born = P.fold_order(ev, P.instantiate(ev, lm.classes["NonSinglet"], sym), 0).status == "rsl"
            asy_loc = None
            if am is not None:
                levels = [am.classes.get("Asy" + "N" * res + "LL" + "NonSinglet") for res in range(4)]
                levels = [c for c in levels if c is not None]
                if levels:
                    asy_loc = any(has_loc(c, 2)[0] for c in levels)
        except (A.Undecided, S.Raised) as e:
            rep.undecided("C08.local", hc.site, construct, str(e)[:200])
            continue
        if kind.lower() not in ("f2", "fl", "g1"):
            # the property speaks of NC F2 / FL (g1 where the massive library allows)
            rep.info.setdefault("outside_quantifier", []).append(
                f"{construct}: kind {kind} is outside the property's quantifier (local part {'present' if heavy_loc else 'absent'} on the massive side, "
                f"{'present' if asy_loc else 'absent'} on the asymptotic side, Born term {'present' if born else 'absent'})")
            continue
        if asy_loc is None:
            rep.info.setdefault("outside_quantifier", []).append(
                f"{construct}: no asymptotic NonSinglet family for kind {kind} (local part {'present' if heavy_loc else 'absent'}, Born term {'present' if born else 'absent'})")
            continue
        n += 1
        problems = []
        if heavy_loc != asy_loc:
            problems.append(f"the massive kernel {'has' if heavy_loc else 'has no'} local part while the asymptotic family {'has one' if asy_loc else 'has none'}")
        if born is not None and heavy_loc != born:
            problems.append(f"the massive kernel {'has' if heavy_loc else 'has no'} local part while the massless {kind} non-singlet coefficient function "
                            f"{'has' if born else 'has no'} Born term (the virtual correction is proportional to it)")
        rep.check(not problems, "C08.local", hc.site, construct,
                  f"local part {'present' if heavy_loc else 'absent'} on the massive side, the asymptotic side and in the Born coefficient alike", "; ".join(problems), key=kind)
    rep.floor("kinds whose missing-term local part was compared with its asymptotic family", n, 2)


def run(rep, proj, tier):
    rep.explanation = (
        "The asymptotic limit itself is numerical and NOT decided. Decided is a necessary structural clause on partially evaluated operators: for "
        "kinds x heavyness x NC/CC x NfFF x PTO 0..2, order by order and parton row by parton row, the FFNS (massive) and FFN0 (asymptotic) "
        "operators carry exactly the same (coupling weight, physical channel) pairs, except that a massive term may lack an asymptotic partner in the frozen "
        "power-suppressed case F_L at LO. An asymptotic term whose weight has no massive counterpart can never cancel; a missing Asy* class or "
        "order shows up as a mismatch or as a failed fold; and at each order the Asy{N^k}LL classes of a channel provide every power "
        "of the collinear logarithm (contiguous levels); and every asymptotic kernel built in FFN0 / FONLL-FFN0 runs takes its logarithm "
        "L = ln(Q2/m^2) with the mass of the heavy quark named by its coupling weights (the mass of its massive counterpart)."
    )
    rep.rule_text = "cells from literal domains; comparisons per (order, parton row); non-trivial = at least one side carries a weight; distinct by cell label."
    rep.trusted_base = ["CPython ast", "yadsa partial evaluator with opaque coupling weights w(pid, type[, mask])"]
    rep.assumptions = ["heavy coefficient functions folded above threshold", "F_L(LO, massive) is proportional to m^2/Q^2 (Kretzer-Schienbein; gluck-ccheavy)"]
    check_levels(rep, proj)
    check_local(rep, proj)
    check_mass(rep, proj, tier)
    # both sides of the limit are integrals of these kernels: a massive or asymptotic kernel that changes from one evaluation to the
    # next (state kept in a captured container) makes the two sides incomparable whatever their first evaluation looks like
    P.check_pure(rep, proj, "C08.pure", family_filter=lambda c: ".heavy." in c.fq or ".asy." in c.fq or ".intrinsic." in c.fq, floor=60)
    # neither side of the limit may carry anything over from an earlier evaluation (another kind, another observable, another run in the process)
    from . import state

    state.check(rep, proj, "C08.state", module_filter=lambda m: m.name.startswith(("yadism.coefficient_functions.asy", "yadism.coefficient_functions.heavy",
                                                                                  "yadism.coefficient_functions.intrinsic", "yadism.coefficient_functions.kernels",
                                                                                  "yadism.coefficient_functions.partonic_channel")), floor=1)
    js = jobs(tier)
    outs = sweep.run_cells(_job, js)
    n_cmp = 0
    n_nt = 0
    n_va = 0
    for kw, o in zip(js, outs):
        label = f"{kw['obs']}|{kw['process']}|NfFF={kw['nfff']}|PTO={kw['pto']}"
        if o[0] == "fold":
            _, side, status, msg, construct = o
            if status == "rejected":
                rep.ok("C08.support", "", label, f"{side} explicitly rejected ({msg[:50]})")
            elif status == "internal":
                rep.bad("C08.support", "", construct or label, f"the {side} side cannot be built ({msg}), e.g. {label}: no asymptotic/massive counterpart exists", key=msg[:50])
            else:
                rep.undecided("C08.support", "", label, f"{side} not foldable: {msg}")
            continue
        _, n, nt, oa, noa, om, nom, exc, vab, nvab, van = o
        n_va += van
        if nvab:
            k_, p_, txt_ = vab[0]
            rep.bad("C08.va", "src/yadism/coefficient_functions/asy/kernels.py", f"{kw['obs']}|{kw['process']}|NfFF={kw['nfff']}|PTO={kw['pto']}",
                    f"{nvab} asymptotic entries treat vector and axial couplings differently, e.g. order {k_} pid {p_}: {txt_}", key="va")
        elif van:
            rep.ok("C08.va", "", f"{kw['obs']}|{kw['process']}|NfFF={kw['nfff']}|PTO={kw['pto']}", f"{van} entries: vector and axial weights multiply the same asymptotic kernels")
        if kw["obs"].split("_")[0] in OUT_OF_SCOPE:
            # reported, never alarmed on: the property's quantifier names F2/FL/F3/g1 only
            if noa or nom:
                rep.info.setdefault("outside_quantifier", []).append(
                    f"{label}: {noa} slot(s) only asymptotic, {nom} slot(s) only massive (e.g. {(om or oa)[0]}): the high-virtuality limit of this polarised kind is not implemented"[:300])
            continue
        n_cmp += n
        n_nt += nt
        problems = []
        if noa:
            k, p, ws = oa[0]
            problems.append(f"{noa} (order, row) slot(s) where only the asymptotic operator carries a weight, e.g. order {k} pid {p}: {ws} - it can never cancel against FFNS")
        if nom:
            k, p, ws = om[0]
            problems.append(f"{nom} slot(s) where only the massive operator carries a weight outside the power-suppressed cases, e.g. order {k} pid {p}: {ws} - its asymptotic limit is missing")
        rep.check(not problems, "C08.support", "src/yadism/coefficient_functions/asy/kernels.py", label,
                  f"{nt} non-trivial (order, row) slots with identical weight support ({exc} power-suppressed F_L LO slots)", "; ".join(problems)[:600], key=label)
    rep.info["slots_compared"] = n_cmp
    rep.info["nontrivial_slots"] = n_nt
    rep.floor("support cells", len(js), 80)
    rep.floor("non-trivial slots", n_nt, 600)
    rep.floor("vector/axial entries compared", n_va, 300)
