"""C06 - number of active flavours follows the thresholds and the scheme.

Decided: (fns) update_fns folded over the five FNS literals x NfFF 3..6 gives exactly the documented
threshold/ZM table (FFNS, FFN0, FONLL-*: NfFF-3 thresholds at 0 and the rest at infinity, hence
nf == NfFF at every Q2; massive flags; ZM-VFNS untouched; unknown scheme rejected);
(atlas) the folded runner builds matching scales (m_q k_q)^2 in the order c, b, t and calls
eko's nf_default exactly once per point with that point's Q2 and that atlas;
(flow) that single value is what every consumer uses: in ZM-VFNS the folded operator does not depend
on NfFF nor on any mass/threshold symbol, in every scheme it is free of the threshold-ratio symbols,
and every beta-function coefficient in the scale-variation terms is evaluated at that nf;
(eko) audit of the trusted base: nf_default is np.digitize(mu2, [0]+scales+[inf]) with the default
right=False, i.e. a threshold counts as passed when scale^2 <= Q2.
Not decided: eko's behaviour one ulp around a threshold (floating point).
"""

from __future__ import annotations

import ast
import itertools
from fractions import Fraction

from .. import algebra as A
from .. import opmodel as O
from .. import runmodel as R
from .. import sweep
from .. import symeval as S
from ..model import AnalysisError

FNS = ["ZM-VFNS", "FFNS", "FFN0", "FONLL-FFNS", "FONLL-FFN0"]
HQ = "cbt"


def check_fns(rep, proj):
    f = proj.func("yadism.input.compatibility", "update_fns")
    ev = S.Evaluator(proj, lenient_ext=True)
    # the scheme literals the function itself knows
    lits = sorted({c.value for n in ast.walk(f.node) if isinstance(n, ast.Compare) for c in n.comparators
                   if isinstance(c, ast.Constant) and isinstance(c.value, str)})
    for name in lits:
        if name not in FNS:
            rep.undecided("C06.fns", f.site, f"{f.fq}[{name}]", "scheme literal not in the documented list (new scheme?)", key=name)
    n = 0
    for fns, nfff in itertools.product(FNS, [3, 4, 5, 6]):
        th = {"FNS": fns, "NfFF": nfff, "PTO": 2, "kcThr": A.sym("kcThr", True), "kbThr": A.sym("kbThr", True), "ktThr": A.sym("ktThr", True)}
        construct = f"{f.fq}[{fns},NfFF={nfff}]"
        try:
            ev.call(S.FuncVal(ev, f), [th], {})
        except S.Raised as r:
            rep.bad("C06.fns", f.site, construct, f"documented scheme raises {r}", key=f"{fns}|{nfff}")
            continue
        except A.Undecided as u:
            rep.undecided("C06.fns", f.site, construct, str(u), key=f"{fns}|{nfff}")
            continue
        n += 1
        problems = []
        for k, fl in enumerate(HQ):
            q = k + 4
            thr = S.num_norm(th.get(f"k{fl}Thr"))
            zm = th.get(f"ZM{fl}")
            if fns == "ZM-VFNS":
                exp_thr, exp_zm = "untouched", True
                if not (isinstance(thr, A.Rat) and thr.canon() == f"k{fl}Thr"):
                    problems.append(f"k{fl}Thr rewritten to {thr}")
            else:
                exp_thr = 0 if q <= nfff else S.INF
                if fns.startswith("FONLL"):
                    exp_zm = not (q == nfff + 1)
                else:
                    exp_zm = q <= nfff
                if isinstance(thr, A.Rat) or not (thr == exp_thr):
                    problems.append(f"k{fl}Thr = {thr}, expected {exp_thr}")
            if zm is not exp_zm:
                problems.append(f"ZM{fl} = {zm}, expected {exp_zm}")
        rep.check(not problems, "C06.fns", f.site, construct, "threshold/ZM table as documented (nf == NfFF at every Q2)" if fns != "ZM-VFNS" else "all zero-mass, thresholds untouched",
                  "; ".join(problems), key=f"{fns}|{nfff}")
    try:
        ev.call(S.FuncVal(ev, f), [{"FNS": "VFNS-X", "NfFF": 4, "PTO": 1}], {})
        rep.bad("C06.fns", f.site, f"{f.fq}[unknown]", "unknown scheme accepted silently")
    except S.Raised as r:
        rep.check(S.raised_is(r, "ValueError") and isinstance(r.node, ast.Raise), "C06.fns", f.site, f"{f.fq}[unknown]", "unknown scheme raises ValueError", f"ends in {r}")
    rep.floor("FNS table cells", n, 20)


def _atlas_problems(proj, cell, atlas):
    """Matching scales of the runner's atlas == (m_q k_q)^2 in the order c, b, t with the ratios of the upgraded card; origin (Q0^2, nf0)."""
    problems = []
    s = A.sym
    exp_scales = []
    th = R.theory_card(cell)
    ev2 = S.Evaluator(proj, lenient_ext=True)
    th2 = dict(th)
    ev2.call(S.FuncVal(ev2, proj.func("yadism.input.compatibility", "update_fns")), [th2], {})
    for fl in HQ:
        m, k = s(f"m{fl}", True), S.num_norm(th2[f"k{fl}Thr"])
        if isinstance(k, (int, Fraction)) and k == 0:
            exp_scales.append(0)
        elif S.is_inf(k):
            exp_scales.append(S.INF)
        else:
            exp_scales.append((m * k) * (m * k))
    got_scales = [S.num_norm(x) for x in atlas.attrs["matching_scales"]]
    for fl, g, e in zip(HQ, got_scales, exp_scales):
        same = (S.is_inf(g) and S.is_inf(e)) or (not S.is_inf(g) and not S.is_inf(e) and A.equal(A.to_rat(g), A.to_rat(e), tol=Fraction(0)))
        if not same:
            problems.append(("atlas", f"matching scale of {fl} is {A.canon(g)[:60]}, expected (m_{fl} k_{fl})^2 = {A.canon(e)[:60]}"))
    org = atlas.attrs.get("origin")
    if not (isinstance(org, tuple) and len(org) == 2 and A.equal(A.to_rat(S.num_norm(org[0])), s("Q0", True) * s("Q0", True), tol=Fraction(0)) and org[1] == 3):
        problems.append(("atlas", f"origin is {org}, expected (Q0^2, nf0)"))
    return problems


def _flow_job(kw):
    from .. import model

    proj = model.project()
    kw = dict(kw)
    mode = kw.pop("mode")
    calls = []
    atlas_found = []
    cell_box = []

    def prepare(ev, runner):
        atlas_found.extend(_atlas_problems(proj, cell_box[0], R.manager(runner, "threshold")))
        orig = ev.ext_calls["eko.matchings.nf_default"]

        def nf_default(ev_, mu2, atlas):
            q2 = mu2
            v = orig(ev_, q2, atlas)
            calls.append((S.num_norm(q2), atlas, v))
            return v

        ev.ext_calls["eko.matchings.nf_default"] = nf_default
        for m in proj.modules.values():
            for name, sym in m.symbols.items():
                if sym.kind == "from" and f"{sym.target}.{sym.attr}" == "eko.matchings.nf_default":
                    ev.overrides[f"{m.name}::{name}"] = S._NativeFn(lambda *a, **k: nf_default(ev, *a, **k))
        # the same count written out by hand (searchsorted / digitize over the atlas walls) is the same determination
        walls = R.manager(runner, "threshold").attrs.get("walls")
        for fname, pos in (("numpy.searchsorted", (0, 1)), ("numpy.digitize", (1, 0))):
            orig_f = ev.ext_calls.get(fname)
            if orig_f is None:
                continue

            def wrapped(ev_, *a, _o=orig_f, _pos=pos, **k):
                v = _o(ev_, *a, **k)
                arr, val = a[_pos[0]], a[_pos[1]]
                if arr is walls or (isinstance(arr, S.Arr) and walls is not None and [A.canon(S.num_norm(x)) for x in arr.data] == [A.canon(S.num_norm(x)) for x in walls]):
                    calls.append((S.num_norm(val), R.manager(runner, "threshold"), S.num_norm(v) + 2))
                return v

            ev.ext_calls[fname] = wrapped

    cell_box.append(R.Cell(**kw))
    try:
        op = O.fold_op(proj, cell_box[0], prepare=prepare)
    except O.FoldFailure as f:
        if atlas_found:
            # the runner was built and its atlas is already wrong: report that, whatever stopped the fold of the point afterwards
            return ("ok", list(atlas_found), None, None, 0)
        return ("fold", f.outcome.status, f"{f.outcome.etype} {f.outcome.msg}"[:160])
    cell = op.cell
    problems = []
    runner = op.runner
    atlas = R.manager(runner, "threshold")
    # (atlas) matching scales (checked right after the runner was built, see prepare) and the single nf_default call
    problems.extend(atlas_found)
    if not calls:
        problems.append(("single", "the number of flavours of the point is never determined from (Q2, the runner's atlas): neither nf_default nor a count over the atlas walls is evaluated"))
    elif len({str(v) for _, _, v in calls}) != 1:
        problems.append(("single", f"the number of flavours is determined {len(calls)} times with different results {[v for _, _, v in calls]}"))
    for q2, at, v in calls:
        if not (isinstance(q2, A.Rat) and q2.canon() == "Q2"):
            problems.append(("single", f"nf_default called with scale {A.canon(q2)[:40]} instead of the point's Q2"))
        if at is not atlas:
            problems.append(("single", "nf_default called with an atlas other than the runner's"))
    nf = calls[0][2] if calls else None
    # (flow) atoms
    atoms = set()
    for key, (vals, errs) in op.orders.items():
        for row in vals:
            for e in row:
                if isinstance(e, A.Rat):
                    atoms |= e.all_atoms()
    thr_atoms = {"kcThr", "kbThr", "ktThr"}
    if atoms & thr_atoms:
        problems.append(("flow", f"operator depends on threshold ratios {sorted(atoms & thr_atoms)} other than through nf"))
    if cell.fns == "ZM-VFNS" and atoms & {"mc", "mb", "mt"}:
        problems.append(("flow", f"zero-mass operator depends on quark masses {sorted(atoms & {'mc','mb','mt'})}"))
    for a in atoms:
        if a.startswith("beta0(") or a.startswith("beta1("):
            arg = a[a.index("(") + 1 : -1]
            if nf is not None and arg != str(nf):
                problems.append(("flow", f"scale-variation term uses {a} while the coefficient functions use nf = {nf}"))
    # every coefficient function generated for this point is built with the number of flavours nf_default returned
    n_kernels = 0
    for partons, coeff in getattr(op.ev, "kernel_log", []):
        if not (isinstance(coeff, S.ObjVal) and coeff.cinfo is not None and "nf" in coeff.attrs):
            continue
        fam = coeff.cinfo.fq.split("coefficient_functions.")[-1].split(".")[0]
        if fam == "intrinsic":
            continue  # frozen exception: intrinsic channels are built with nf = ihq - 1 (intrinsic/kernels.py) and are nf-independent
        n_kernels += 1
        knf = S.num_norm(coeff.attrs["nf"])
        if nf is not None and knf != nf:
            problems.append(("flow", f"{coeff.cinfo.fq} is built with nf = {knf} while nf_default(Q2) = {nf}"))
    sig = None
    if mode == "signature":
        # canonical signature of the operator for the NfFF-independence comparison
        parts = []
        for key in sorted(op.orders):
            for row in op.orders[key][0]:
                for e in row:
                    parts.append(A.canon(e))
        import hashlib

        sig = hashlib.sha1("|".join(parts).encode()).hexdigest()
    return ("ok", problems, nf, sig, n_kernels)


def check_flow(rep, proj, tier):
    jobs = []
    kinds = ["F2", "F3"] if tier == "quick" else ["F2", "FL", "F3", "g1"]
    for kind, fl, proc, (fns, nfff, nf), pto in itertools.product(
        kinds, ["total", "charm"], ["NC", "CC"],
        [("ZM-VFNS", 3, 5), ("ZM-VFNS", 4, 5), ("ZM-VFNS", 5, 5), ("ZM-VFNS", 4, 3), ("ZM-VFNS", 6, 3), ("FFNS", 3, None), ("FFNS", 4, None), ("FFN0", 3, None),
         ("FFN0", 5, None), ("FONLL-FFNS", 4, None), ("FONLL-FFN0", 3, None)], [2]
    ):
        if proc == "CC" and kind == "g1":
            continue
        jobs.append(dict(mode="signature" if fns == "ZM-VFNS" else "plain", obs=f"{kind}_{fl}", process=proc, fns=fns, nfff=nfff, nf=nf, pto=pto,
                         projectile="neutrino" if proc == "CC" else "electron", ren_sv=True, fact_sv=True))
    outs = sweep.run_cells(_flow_job, jobs)
    sigs = {}
    n_ok = 0
    n_kernels = 0
    for kw, o in zip(jobs, outs):
        label = f"{kw['obs']}|{kw['process']}|{kw['fns']}|NfFF={kw['nfff']}|nf={kw['nf']}"
        if o[0] == "fold":
            if o[1] == "rejected":
                rep.ok("C06.flow", "", label, f"configuration explicitly rejected ({o[2][:50]})")
            else:
                rep.undecided("C06.flow", "", label, f"not foldable ({o[1]}): {o[2]}")
            continue
        _, problems, nf, sig, nk = o
        n_kernels += nk
        exp_nf = kw["nf"] if kw["fns"] == "ZM-VFNS" else kw["nfff"]
        if nf is None and nk == 0 and problems and all(r_ == "atlas" for r_, _ in problems):
            pass  # atlas-only report: the point itself could not be folded after the wrong atlas
        elif nf != exp_nf:
            problems = problems + [("single", f"nf_default yields {nf}, expected {exp_nf} ({'NfFF' if kw['fns'] != 'ZM-VFNS' else 'count of passed thresholds'})")]
        if sig is not None:
            sigs.setdefault((kw["obs"], kw["process"], kw["nf"]), []).append((kw["nfff"], sig))
        by = {}
        for rule, txt in problems:
            by.setdefault(rule, []).append(txt)
        for rule in ("atlas", "single", "flow"):
            if rule in by:
                rep.bad(f"C06.{rule}", "src/yadism/runner.py" if rule == "atlas" else "src/yadism/coefficient_functions/__init__.py", label, "; ".join(sorted(set(by[rule]))[:3]), key=rule)
            else:
                rep.ok(f"C06.{rule}", "", label, {"atlas": "matching scales (m_q k_q)^2 in order c,b,t; origin (Q0^2, nf0)",
                                                  "single": f"number of flavours determined from (Q2, runner atlas) -> {nf}",
                                                  "flow": "no threshold symbols in the operator; beta coefficients and every generated coefficient function at the same nf"}[rule])
        n_ok += 1
    for (obs, proc, nf), lst in sorted(sigs.items()):
        distinct = {s_ for _, s_ in lst}
        rep.check(len(distinct) == 1, "C06.flow", "", f"{obs}|{proc}|ZM-VFNS|nf={nf}",
                  f"operator identical for NfFF in {sorted(n for n, _ in lst)} (depends on thresholds only through nf)",
                  f"ZM-VFNS operator changes with NfFF ({sorted(n for n, _ in lst)}): something other than nf_default's value is used", key="nfff-independence")
    rep.floor("flow cells", n_ok, 40)
    rep.floor("kernels whose nf was compared with nf_default", n_kernels, 300)


def _history_job(kw):
    """One runner, two observables, points in two flavour regions, the second observable starting again in the lower region: at every point
    the scale-variation building blocks (splitting-function operators, beta coefficients) carry the number of flavours of THAT point."""
    import re

    from .. import model
    from . import c14

    proj = model.project()
    base = dict(process=kw["process"], projectile=kw["projectile"], fns="ZM-VFNS", nfff=4, pto=kw["pto"], tmc=0, ren_sv=kw.get("ren", True), fact_sv=kw.get("fact", True))
    # Q2 = 10 (nf 4), 30 (nf 5) with thresholds 1, 25, 10^4; 'low-high-low-high' walks up twice, 'high-low-high' comes back to a number of
    # flavours it has seen before (whatever was remembered for nf = 5 must still be right after nf = 4 has been served)
    seq = [(kw["first"], [1, 4]), (kw["second"], [1, 4])] if kw.get("seq", "lhlh") == "lhlh" else [(kw["first"], [4]), (kw["second"], [1, 4])]
    if kw.get("seq") in ("straddle", "straddle-reversed"):
        # two points of ONE observable at the same x, one exactly on the bottom matching scale and one 10^-12 below it: they are different
        # requests with different numbers of flavours, however close (anything that identifies them - a rounded cache key - serves one of
        # them with the other's operator)
        pts = [(Fraction(1, 2), 25 - Fraction(1, 10**12)), (Fraction(1, 2), Fraction(25))]
        seq = [(kw["first"], pts if kw["seq"] == "straddle" else pts[::-1])]
    requested = {name: [c14.POINTS[i][1] if isinstance(i, int) else i[1] for i in idxs] for name, idxs in seq}
    try:
        runner, outs = c14.fold_history(proj, base, seq)
    except (A.Undecided, S.Raised) as e:
        return ("fold", "undecided" if isinstance(e, A.Undecided) else "raised", str(e)[:160])
    bad = []
    n = 0
    for name in requested:
        for want_q2, pt in zip(requested[name], outs[0].store[name]):
            if not (isinstance(pt, S.ObjVal) and isinstance(pt.attrs.get("orders"), dict)):
                continue
            q2 = S.num_norm(pt.attrs["Q2"])
            if q2 != want_q2:
                n += 1
                bad.append(f"{name}: the result in the slot of the point requested at Q2 = {want_q2} is labelled Q2 = {q2}")
                continue
            expected = 3 + sum(1 for t in (1, 25, 10**4) if t <= q2)
            seen = set()
            for key, (v, e) in pt.attrs["orders"].items():
                for row in v.data:
                    for x in row:
                        if isinstance(x, A.Rat):
                            for a in x.all_atoms():
                                if a.startswith(("beta0(", "beta1(")):
                                    seen.add(int(a[a.index("(") + 1:-1]))
                                elif a.startswith("convop("):
                                    for m_ in re.finditer(r"::\w+\[(\d+)\]", a):
                                        seen.add(int(m_.group(1)))
            if seen:
                n += 1
                if seen != {expected}:
                    bad.append(f"{name} at Q2 = {q2} (nf = {expected}) carries scale-variation terms built for nf = {sorted(seen)}")
    return ("ok", bad[:3], n)


def check_history(rep, proj, tier, rule="C06.history"):
    # either variation alone as well: what one variation's code path refreshes, the other's may rely on
    jobs = [dict(first=a, second=b, process=proc, projectile=pr, pto=pto, ren=ren, fact=fact, seq=seq)
            for (a, b), (proc, pr), (pto, ren, fact), seq in itertools.product(
                [("F2_light", "F2_total"), ("F2_total", "FL_total"), ("F3_total", "F2_light")], [("NC", "electron"), ("CC", "neutrino")],
                [(1, True, True), (2, True, True), (2, True, False), (2, False, True)] + ([(1, False, True), (3, True, False)] if tier == "thorough" else []),
                ["lhlh", "hlh"])]
    jobs += [dict(first=a, second=a, process="NC", projectile="electron", pto=1, ren=True, fact=True, seq=sq)
             for a, sq in itertools.product(["F2_total", "F2_light", "FL_total"], ["straddle", "straddle-reversed"])]
    outs = sweep.run_cells(_history_job, jobs)
    n = 0
    for kw, o in zip(jobs, outs):
        label = (f"{kw['first']} then {kw['second']}|{kw['process']}|ZM-VFNS|PTO={kw['pto']}|ren={kw['ren']}|fact={kw['fact']}|"
                 + {"lhlh": "Q2 = 10, 30 each", "hlh": "Q2 = 30, then 10, 30", "straddle": "Q2 = 25 - 1e-12, 25 (bottom scale 25) at one x",
                    "straddle-reversed": "Q2 = 25, 25 - 1e-12 (bottom scale 25) at one x"}[kw["seq"]])
        if o[0] == "fold":
            rep.undecided(rule, "", label, f"not foldable ({o[1]}): {o[2]}")
            continue
        _, bad, k = o
        n += k
        rep.check(not bad, rule, "src/yadism/esf/scale_variations.py", label, f"{k} points: splitting-function operators and beta coefficients at each point's own nf",
                  "; ".join(bad), key=label)
    rep.floor("points inspected for the nf of their scale-variation terms", n, 120)


def _boundary_job(kw):
    """Concrete matching scales: the number of flavours of every generated coefficient function is 3 + #{(m k)^2 <= Q2}, in particular
    a scale that equals Q2 counts (eko: digitize(Q2, walls), right=False)."""
    from .. import model

    proj = model.project()
    kw = dict(kw)
    expected = kw.pop("expected")
    try:
        op = O.fold_op(proj, R.Cell(**kw))
    except O.FoldFailure as f:
        return ("fold", f.outcome.status, f"{f.outcome.etype} {f.outcome.msg}"[:160])
    seen = {}
    for partons, coeff in getattr(op.ev, "kernel_log", []):
        if isinstance(coeff, S.ObjVal) and coeff.cinfo is not None and "nf" in coeff.attrs:
            fam = coeff.cinfo.fq.split("coefficient_functions.")[-1].split(".")[0]
            if fam != "intrinsic":
                seen.setdefault(S.num_norm(coeff.attrs["nf"]), coeff.cinfo.fq)
    # beta coefficients of the scale-variation terms
    betas = set()
    for key, (vals, errs) in op.orders.items():
        for row in vals:
            for e in row:
                if isinstance(e, A.Rat):
                    for a in e.all_atoms():
                        if a.startswith("beta0("):
                            betas.add(a[6:-1])
    return ("ok", {str(k): v for k, v in seen.items()}, sorted(betas), expected)


def check_boundary(rep, proj, tier):
    # mc = 3/2, mb = 9/2, mt = 100 with ratios (1, 2, 1): matching scales 9/4, 81, 10000
    th = dict(mc=Fraction(3, 2), mb=Fraction(9, 2), mt=100, kcThr=1, kbThr=2, ktThr=1)
    points = [(2, 3, "below the charm scale"), (Fraction(9, 4), 4, "exactly at the charm scale"), (3, 4, "between charm and bottom"),
              (81, 5, "exactly at the bottom scale (m_b k_b)^2"), (Fraction(81, 4), 4, "at m_b^2 but below (m_b k_b)^2"), (10000, 6, "exactly at the top scale"),
              (9999, 5, "just below the top scale")]
    jobs = []
    for (q2, nf, what), obs in itertools.product(points, ["F2_total", "F3_total"] if tier == "quick" else ["F2_total", "F3_total", "FL_total", "F2_light"]):
        jobs.append(dict(obs=obs, process="NC", fns="ZM-VFNS", nfff=4, nf=None, pto=1, ren_sv=True, fact_sv=True, kin_q2=q2, theory_overrides=th, expected=(nf, what)))
    outs = sweep.run_cells(_boundary_job, jobs)
    n = 0
    for kw, o in zip(jobs, outs):
        nf, what = kw["expected"]
        label = f"{kw['obs']}|ZM-VFNS|Q2={kw['kin_q2']} ({what})"
        if o[0] == "fold":
            rep.undecided("C06.boundary", "", label, f"not foldable ({o[1]}): {o[2]}")
            continue
        _, seen, betas, _exp = o
        n += 1
        wrong = {k: v for k, v in seen.items() if k != str(nf)}
        wrong_b = [b for b in betas if b != str(nf)]
        rep.check(bool(seen) and not wrong and not wrong_b, "C06.boundary", "src/yadism/coefficient_functions/__init__.py", label,
                  f"every coefficient function and beta coefficient at nf = {nf}",
                  (f"coefficient functions built with nf = {sorted(wrong)} (e.g. {next(iter(wrong.values()))}) " if wrong else "")
                  + (f"beta0 at nf = {wrong_b} " if wrong_b else "") + ("no kernel generated " if not seen else "") + f"where the documented count 3 + #{{(m k)^2 <= Q2}} is {nf}", key=label)
    rep.floor("threshold-boundary cells", n, 10)


def _rows_job(kw):
    """Fixed-flavour schemes: NfFF quarks are active at every Q2, so in a flavour-tagged observable no quark heavier than NfFF feeds the
    operator - except the tagged quark itself (its intrinsic component).  Real electroweak weights (CKM structure included)."""
    from .. import model

    proj = model.project()
    try:
        op = O.fold_op(proj, R.Cell(**kw), weights="full")
    except O.FoldFailure as f:
        return ("fold", f.outcome.status, f"{f.outcome.etype} {f.outcome.msg}"[:160])
    tagged = {"charm": 4, "bottom": 5, "top": 6}[kw["obs"].split("_")[1]]
    bad = []
    n = 0
    for key in sorted(op.keys()):
        for q in range(kw["nfff"] + 1, 7):
            if q == tagged:
                continue
            for s_ in (1, -1):
                for j in range(R.GRID_N):
                    n += 1
                    e = op.entry(key, s_ * q, j)
                    if not O.same(e, 0):
                        bad.append(f"order {key} row {s_ * q} node {j}: {A.canon(A.to_rat(e))[:100]}")
    return ("ok", n, bad[:2], len(bad))


def check_rows(rep, proj, tier):
    jobs = [dict(obs=f"{kind}_{fl}", process=proc, projectile=pr, fns=fns, nfff=nfff, nf=None, pto=1, ren_sv=sv, fact_sv=sv)
            for kind, fl, (proc, pr), (fns, nfff), sv in itertools.product(
                ["F2", "F3"], ["charm", "bottom", "top"], [("CC", "neutrino"), ("NC", "electron")], [("FFNS", 3), ("FFNS", 4), ("FFN0", 3)], [False, True])
            if not (fns == "FFN0" and proc == "CC") and not (tier == "quick" and sv and kind == "F3")]
    outs = sweep.run_cells(_rows_job, jobs)
    n = 0
    for kw, o in zip(jobs, outs):
        label = f"{kw['obs']}|{kw['process']}|{kw['fns']}|NfFF={kw['nfff']}|sv={kw['ren_sv']}"
        if o[0] == "fold":
            if o[1] == "rejected":
                rep.ok("C06.rows", "", label, f"configuration explicitly rejected ({o[2][:60]})")
            else:
                rep.undecided("C06.rows", "", label, f"not foldable ({o[1]}): {o[2]}")
            continue
        _, k, bad, nbad = o
        n += k
        rep.check(nbad == 0, "C06.rows", "src/yadism/coefficient_functions/heavy/kernels.py", label, f"{k} entries of quarks heavier than NfFF (other than the tagged one) vanish",
                  f"{nbad} entries of quarks that are not active in this scheme are populated, e.g. " + "; ".join(bad), key=label)
    rep.floor("rows of inactive quarks inspected", n, 790)


def check_eko(rep):
    m = S._ext_module("eko.matchings")
    if m is None:
        raise AnalysisError("eko.matchings source not found")
    f = m.functions.get("nf_default")
    init = m.functions.get("Atlas.__init__")
    if f is None or init is None:
        raise AnalysisError("eko.matchings.nf_default / Atlas.__init__ not found")
    calls = [n for n in ast.walk(f.node) if isinstance(n, ast.Call) and ast.unparse(n.func) in ("np.digitize", "numpy.digitize")]
    ok = len(calls) == 1 and len(calls[0].args) == 2 and not any(k.arg == "right" for k in calls[0].keywords) and ast.unparse(calls[0].args[1]).endswith(".walls")
    ret = [n for n in ast.walk(f.node) if isinstance(n, ast.Return)]
    ok = ok and len(ret) == 1 and ast.unparse(ret[0].value).replace(" ", "") in ("int(2+ref_idx)", "int(ref_idx+2)")
    walls = [n for n in ast.walk(init.node) if isinstance(n, ast.Assign) and ast.unparse(n.targets[0]) == "self.walls"]
    ok2 = len(walls) == 1 and ast.unparse(walls[0].value).replace(" ", "") == "[0]+matching_scales+[np.inf]"
    if ok and ok2:
        rep.ok("C06.eko", str(m.path), "eko.matchings::nf_default",
               "nf = 2 + digitize(Q2, [0]+scales+[inf]) with right=False: a quark is active iff its matching scale^2 <= Q2")
    else:
        # a different eko may well keep the convention: the audit is then simply not re-established
        rep.undecided("C06.eko", str(m.path), "eko.matchings::nf_default",
                      "installed eko's nf_default/Atlas no longer has the audited shape: boundary convention (<=) not re-established by this check")


def run(rep, proj, tier):
    rep.explanation = (
        "Decides: update_fns folded over five schemes x NfFF 3..6 against the documented threshold/zero-mass table; on partially evaluated runs, "
        "that the atlas holds (m_q k_q)^2 in order c,b,t with origin (Q0^2, nf0), that nf_default is evaluated exactly once per point with that "
        "point's Q2 and that atlas, that its value equals NfFF in fixed-flavour schemes, that ZM-VFNS operators are identical for different NfFF "
        "and free of mass/threshold symbols, that no operator contains threshold-ratio symbols, and that every beta coefficient in the "
        "scale-variation terms is evaluated at that same nf; plus an audit of the installed eko source for the <= boundary convention. "
        "NOT decided: floating-point behaviour one ulp around a threshold."
    )
    rep.rule_text = "FNS x NfFF from literal domains; flow cells over kinds x heavyness x process x scheme; distinct by construct/label."
    rep.trusted_base = ["CPython ast", "yadsa partial evaluator", "eko.matchings.nf_default (audited structurally on every run)"]
    rep.assumptions = ["mc*kc < mb*kb < mt*kt (eko's default flow)"]
    check_fns(rep, proj)
    check_flow(rep, proj, tier)
    check_boundary(rep, proj, tier)
    check_history(rep, proj, tier)
    check_rows(rep, proj, tier)
    check_eko(rep)
