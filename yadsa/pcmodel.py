"""Model of yadism's partonic channels: enumerate the classes, build a symbolic
instance of each (by folding its own ``__init__``), fold each order method into
the RSL it constructs."""

from __future__ import annotations

import ast
from fractions import Fraction

from . import algebra as A
from . import symeval as S
from .algebra import Undecided
from .model import AnalysisError, ClassInfo

CF = "yadism.coefficient_functions"
ORDER_METHODS = ["LO", "NLO", "NNLO", "N3LO"]
FAMILIES = ["light", "heavy", "asy", "intrinsic"]


def base_class(proj):
    return proj.cls(f"{CF}.partonic_channel", "PartonicChannel")


def rsl_class(proj):
    return proj.cls(f"{CF}.partonic_channel", "RSL")


def channel_classes(proj):
    """All project classes deriving from PartonicChannel (base excluded)."""
    base = base_class(proj)
    return [c for c in proj.all_classes if c is not base and c.is_subclass_of(base)]


def dispatch_modules(proj):
    """<family>/<kind>_<nc|cc>.py modules, i.e. what import_local can return."""
    out = {}
    for name, m in proj.modules.items():
        parts = name.split(".")
        if len(parts) == 4 and parts[1] == "coefficient_functions" and parts[2] in FAMILIES:
            stem = parts[3]
            if "_" in stem and stem.rsplit("_", 1)[1] in ("nc", "cc") and not stem.endswith("_raw"):
                kind, proc = stem.rsplit("_", 1)
                if kind in ("f2", "fl", "f3", "g1", "gl", "g4"):
                    out[(parts[2], kind, proc)] = m
    return out


def init_kwonly(cinfo):
    """Keyword-only constructor parameters, collected through the MRO chain of __init__s."""
    names = []
    for c in cinfo.mro():
        if isinstance(c, ClassInfo) and "__init__" in c.methods:
            a = c.methods["__init__"].node.args
            for p in a.kwonlyargs:
                if p.arg not in names:
                    names.append(p.arg)
    return names


class Sym:
    """Symbols used for symbolic instances."""

    def __init__(self):
        self.xB = A.sym("xB", positive=True)
        self.Q2 = A.sym("Q2", positive=True)
        self.nf = A.sym("nf", positive=True)
        self.z = A.sym("x", positive=True)  # the kernels' own variable
        self.m2hq = A.sym("m2hq", positive=True)
        self.m1sq = A.sym("m1sq", positive=True)
        self.m2sq = A.sym("m2sq", positive=True)
        self.var = A.sym("n3lo_var")


def _real_names(proj):
    """Every attribute name the real EvaluatedStructureFunction (and its TMC sibling) ever binds: class-body names, methods, `self.<name>`
    stores anywhere in the class."""
    import ast

    names = set()
    for mod, cls in (("yadism.esf.esf", "EvaluatedStructureFunction"), ("yadism.esf.tmc", "EvaluatedStructureFunctionTMC")):
        try:
            c = proj.cls(mod, cls)
        except Exception:
            return None
        for n in ast.walk(c.node):
            if isinstance(n, ast.Attribute) and isinstance(n.value, ast.Name) and n.value.id == "self":
                names.add(n.attr)
            elif isinstance(n, (ast.FunctionDef, ast.AsyncFunctionDef)):
                names.add(n.name)
            elif isinstance(n, ast.Name) and isinstance(n.ctx, ast.Store):
                names.add(n.id)
    return names


def make_esf(sym, process="NC", extra=None, proj=None):
    info = S.record("info", **(extra or {}))
    esf = S.record("ESF", x=sym.xB, Q2=sym.Q2, process=process, info=info)
    real = _real_names(proj) if proj is not None else None
    if real:
        esf.attrs["__real_names__"] = real | {"x", "Q2", "process", "info"}
    return esf


_IN_ORDER_CALL = set()


def _kernel_listener(ev, cinfo, obj):
    """Kernel(partons, coeff) - however the class builds its instances (hand-written __init__, dataclass, keywords): keep the pairing of
    weights and partonic channel for the rules that inspect it (C06.flow, C08.mass, C09.mass)."""
    if cinfo.name == "Kernel" and "partons" in obj.attrs and "coeff" in obj.attrs:
        log = getattr(ev, "kernel_log", None)
        if log is None:
            log = ev.kernel_log = []
        log.append((obj.attrs["partons"], obj.attrs["coeff"]))


def _provenance(ev, fv, args, kwargs):
    """Annotate every RSL returned by an order method with the class of the channel instance that produced it."""
    fi = fv.finfo
    if getattr(ev, "instance_listener", None) is None:
        ev.instance_listener = _kernel_listener
    inst = fv.bound if isinstance(fv.bound, S.ObjVal) else getattr(fv, "via", None)
    if fi.name in ORDER_METHODS and isinstance(inst, S.ObjVal) and inst.cinfo is not None:
        key = (id(inst), fi.name, id(fi))
        if key in _IN_ORDER_CALL:
            return NotImplemented
        _IN_ORDER_CALL.add(key)
        try:
            r = ev.call_func(fv, list(args), dict(kwargs))
        finally:
            _IN_ORDER_CALL.discard(key)
        if isinstance(r, S.ObjVal) and r.cinfo is not None and r.cinfo.name == "RSL":
            c = inst.cinfo
            r.attrs["_owner"] = f"{c.module.name.split('.')[-2]}.{c.module.name.split('.')[-1]}.{c.name}"
            if inst.attrs.get("m2hq") is not None:
                try:
                    r.attrs["_owner_m2hq"] = A.canon(S.num_norm(inst.attrs["m2hq"]))  # the mass the producing channel was built with
                except Exception:
                    pass
        return r
    return NotImplemented


def above_threshold_hook(ev, fv, args, kwargs):
    """Fold `is_below_pair_threshold` to False: the analysed path is the one on
    which the coefficient function is actually evaluated."""
    if fv.finfo.name == "is_below_pair_threshold":
        return False
    return _provenance(ev, fv, args, kwargs)


def instantiate(ev, cinfo, sym, esf=None, nf=None):
    esf = esf or make_esf(sym, proj=ev.proj)
    kw = {}
    for name in init_kwonly(cinfo):
        if name == "m2hq":
            kw[name] = sym.m2hq
        elif name == "m1sq":
            kw[name] = sym.m1sq
        elif name == "m2sq":
            kw[name] = sym.m2sq
        elif name == "n3lo_cf_variation":
            kw[name] = sym.var
    # EmptyPartonicChannel swallows kwargs
    try:
        return ev.instantiate(S.ClassVal(ev, cinfo), [esf, nf if nf is not None else sym.nf], kw)
    except S.Raised as r:
        if r.etype == "TypeError" and kw:
            return ev.instantiate(S.ClassVal(ev, cinfo), [esf, nf if nf is not None else sym.nf], {})
        raise


class OrderResult:
    def __init__(self, status, rsl=None, reason="", method=None):
        self.status = status  # 'rsl' | 'none' | 'empty' | 'undecided' | 'raised'
        self.rsl = rsl
        self.reason = reason
        self.method = method  # FuncInfo of the order method found through the MRO


def fold_order(ev, obj, k):
    """Fold obj[k]() -> OrderResult."""
    cinfo = obj.cinfo
    m = cinfo.find_method(ORDER_METHODS[k])
    try:
        f = obj.store.get(k)
        if f is None:
            raise Undecided("order slot not filled by __init__")
        r = ev.call(f, [], {})
    except Undecided as u:
        return OrderResult("undecided", reason=str(u), method=m)
    except S.Raised as r_:
        return OrderResult("raised", reason=str(r_), method=m)
    if r is None:
        return OrderResult("none", method=m)
    if isinstance(r, S.ObjVal) and r.cinfo is not None and r.cinfo.name == "RSL":
        if all(r.attrs.get(p) is None for p in ("reg", "sing", "loc")):
            return OrderResult("empty", rsl=r, method=m)
        return OrderResult("rsl", rsl=r, method=m)
    return OrderResult("undecided", reason=f"order method returned {type(r).__name__}", method=m)


def part_args(rsl, part):
    a = rsl.attrs.get("args")
    if not isinstance(a, dict) or part not in a:
        raise Undecided("RSL.args not folded")
    v = a[part]
    if isinstance(v, S.Arr):
        return v
    raise Undecided("RSL.args entry is not an array")


def eval_part(ev, rsl, part, var):
    """Normal form of rsl.<part>(var, rsl.args[part])."""
    f = rsl.attrs.get(part)
    if f is None:
        return None
    return S.num_norm(ev.call(f, [var, part_args(rsl, part)], {}))


def impure_parts(ev, rsl, var):
    """Parts of an RSL whose folded value changes when the same closure is evaluated again with the same arguments: the
    kernel keeps state between evaluations (a captured container that it, or a helper it hands it to, mutates), so the
    quadrature integrates something else at every call.  -> [(part, first, second)], or None if not foldable."""
    out = []
    for part in ("reg", "sing", "loc"):
        f = rsl.attrs.get(part)
        if f is None:
            continue
        if isinstance(f, S.FuncVal) and f.closure is None and f.bound is None:
            continue  # a module-level (compiled) function: it captures nothing it could keep state in (its globals: C18.frozen)
        try:
            A.set_budget(300_000)  # the large intrinsic NLO expressions are left to the numerical guard of C03.rsl: undecided here
            vals = [eval_part(ev, rsl, part, var) for _ in range(3)]
        except (Undecided, S.Raised):
            return None
        finally:
            A.set_budget(None)
        for a, b in zip(vals, vals[1:]):
            try:
                same = A.canon(a) == A.canon(b) or A.equal(A.to_rat(a), A.to_rat(b), tol=Fraction(0))
            except (Undecided, TypeError):
                same = A.canon(a) == A.canon(b)
            if not same:
                out.append((part, a, b))
                break
    return out


def _pure_job(fq):
    from . import model

    proj = model.project()
    ev = S.Evaluator(proj, on_call=above_threshold_hook)
    sym = Sym()
    c = [c_ for c_ in channel_classes(proj) if c_.fq == fq][0]
    try:
        obj = instantiate(ev, c, sym)
    except (Undecided, S.Raised):
        return []
    out = []
    for k in range(4):
        r = fold_order(ev, obj, k)
        if r.status != "rsl":
            continue
        site = r.method.site if r.method is not None else c.site
        res = impure_parts(ev, r.rsl, sym.z)
        out.append((k, site, None if res is None else [(part, A.canon(a)[:80], A.canon(b)[:80]) for part, a, b in res]))
    return out


def check_pure(rep, proj, rule, family_filter=None, floor=0):
    """Every order method of every partonic-channel class: the functions it returns are functions of their arguments."""
    from . import sweep

    classes = [c.fq for c in channel_classes(proj) if family_filter is None or family_filter(c)]
    n = 0
    for fq, rows in zip(classes, sweep.run_cells(_pure_job, classes)):
        for k, site, res in rows:
            construct = f"{fq}.{ORDER_METHODS[k]}"
            if res is None:
                rep.note(f"{rule}: {construct} not foldable within the budget (reported by C03.rsl / C18.args)")
                continue
            n += 1
            rep.check(not res, rule, site, construct, "each part folds to the same function on repeated evaluation (no state kept between calls)",
                      "; ".join(f"{part} part changes between two evaluations with the same arguments: {a} then {b}" for part, a, b in res)
                      + " - the kernel mutates state it keeps between calls", key=f"pure|{ORDER_METHODS[k]}")
    rep.floor(f"{rule}: order methods evaluated repeatedly", n, floor)
    return n


def eval_part_regimes(ev, rsl, part, var, max_paths=8):
    """Piecewise kernels: fold rsl.<part>(var, args) once per outcome of the comparisons it makes on the integration variable alone
    (`if 1 - z < 1e-5: ...`).  -> list of (conditions, value) with conditions = [(difference lhs - rhs, comparator name, outcome)].
    A kernel without such comparisons gives one regime with no conditions."""
    va = var.canon() if hasattr(var, "canon") else str(var)
    results, todo = [], [[]]
    while todo and len(results) < max_paths:
        prefix = todo.pop()
        trace = []
        prev = ev.on_compare

        def hook(op, a, b, node, _prefix=prefix, _trace=trace, _prev=prev):
            try:
                d = A.to_rat(a) - A.to_rat(b)
            except (Undecided, TypeError):
                return _prev(op, a, b, node) if _prev is not None else None
            if set(d.all_atoms()) != {va} or type(op).__name__ not in ("Lt", "LtE", "Gt", "GtE"):
                return _prev(op, a, b, node) if _prev is not None else None
            i = len(_trace)
            choice = _prefix[i] if i < len(_prefix) else True
            _trace.append((d, type(op).__name__, choice))
            return choice

        ev.on_compare = hook
        try:
            val = eval_part(ev, rsl, part, var)
        finally:
            ev.on_compare = prev
        results.append((list(trace), val))
        for i in range(len(prefix), len(trace)):
            todo.append([t[2] for t in trace[:i]] + [not trace[i][2]])
    if todo:
        raise Undecided("more piecewise regimes than the enumeration bound")
    return results


def condition_holds(cond, value, var_name):
    d, opname, outcome = cond
    v = A.evalf_dec(d, {var_name: value}) if isinstance(value, Fraction) else A.evalf(d, {var_name: value})
    truth = {"Lt": v < 0, "LtE": v <= 0, "Gt": v > 0, "GtE": v >= 0}[opname]
    return truth == outcome


def regime_breakpoints(regimes, var_name):
    """Zeros in (0, 1) of the differences the regimes compare (bisection; the differences are monotone in practice)."""
    pts = set()
    for conds, _ in regimes:
        for d, _op, _o in conds:
            lo, hi = 1e-15, 1 - 1e-15
            try:
                flo, fhi = A.evalf(d, {var_name: lo}), A.evalf(d, {var_name: hi})
            except (Undecided, ValueError, ZeroDivisionError):
                continue
            if flo == 0 or fhi == 0 or (flo < 0) == (fhi < 0):
                continue
            for _ in range(200):
                mid = 0.5 * (lo + hi)
                fm = A.evalf(d, {var_name: mid})
                if (fm < 0) == (flo < 0):
                    lo = mid
                else:
                    hi = mid
            pts.add(0.5 * (lo + hi))
    return sorted(pts)


def func_of(v):
    """FuncInfo behind a callable value, if any."""
    if isinstance(v, S.FuncVal):
        return v.finfo
    return None


class Instance:
    """One folded (class, order) -> RSL, or a splitting-function factory -> RSL."""

    def __init__(self, construct, site, rsl, cinfo=None, order=None, label=None, method=None):
        self.construct = construct
        self.site = site
        self.rsl = rsl
        self.cinfo = cinfo
        self.order = order
        self.label = label
        self.method = method


def all_instances(proj, ev, sym, rep=None, rule="model"):
    """Fold every (channel class x order) and every splitting factory.

    Returns (instances, problems) where problems = [(construct, site, reason)].
    """
    out, problems = [], []
    for c in channel_classes(proj):
        try:
            obj = instantiate(ev, c, sym)
        except (Undecided, S.Raised) as e:
            problems.append((c.fq, c.site, f"class not instantiable on its own: {e}", "abstract"))
            continue
        for k in range(4):
            r = fold_order(ev, obj, k)
            if r.status in ("none", "empty"):
                continue
            construct = f"{c.fq}.{ORDER_METHODS[k]}"
            msite = r.method.site if r.method is not None else c.site
            if r.status in ("undecided", "raised"):
                if c.name.startswith("PartonicChannelAsy") and "TypeError" in r.reason:
                    continue  # abstract intrinsic bases carrying the placeholder light_cls
                problems.append((construct, msite, f"order method not foldable: {r.reason}", "order"))
                continue
            out.append(Instance(construct, msite, r.rsl, cinfo=c, order=k, method=r.method))
    split = proj.module(f"{CF}.splitting_functions")
    raw_labels = ev.module_global(split, "raw_labels")
    for order_labels in raw_labels:
        for label, fnc in order_labels.items():
            construct = f"{fnc.finfo.fq}[{label}]" if isinstance(fnc, S.FuncVal) else f"splitting[{label}]"
            site = fnc.finfo.site if isinstance(fnc, S.FuncVal) else split.relpath
            try:
                rsl = ev.call(fnc, [sym.nf], {})
            except (Undecided, S.Raised) as e:
                problems.append((construct, site, f"factory not foldable: {e}", "split"))
                continue
            out.append(Instance(construct, site, rsl, label=label))
    return out, problems
