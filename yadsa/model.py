"""Project model: parse /repo/src/yadism (never import it) and index what the rules need.

Everything here is derived from the working tree on every run: module table,
resolved imports, functions (nested ones and lambdas included), classes with a
C3 MRO, njit signatures and module-level constants.
"""

from __future__ import annotations

import ast
import hashlib
import os
import pathlib
import re

REPO = pathlib.Path(os.environ.get("YADSA_REPO", "/repo"))
SRC = REPO / "src"
PKG = "yadism"


class AnalysisError(Exception):
    """The analysis itself cannot run (vanished anchor, parse error, floor)."""


class Module:
    def __init__(self, name, path, src, is_pkg):
        self.name = name
        self.path = pathlib.Path(path)
        self.src = src
        self.is_pkg = is_pkg
        self.sha = hashlib.sha256(src.encode()).hexdigest()
        try:
            self.tree = ast.parse(src, filename=str(path))
        except SyntaxError as e:  # pragma: no cover - exercised by broken trees only
            raise AnalysisError(f"cannot parse {path}: {e}") from e
        for parent in ast.walk(self.tree):
            for child in ast.iter_child_nodes(parent):
                child._parent = parent  # type: ignore[attr-defined]
        self.tree._parent = None  # type: ignore[attr-defined]
        self.symbols = {}  # name -> Symbol
        self.functions = {}  # qualname -> FuncInfo (all nesting levels)
        self.classes = {}  # name -> ClassInfo (top level only)

    @property
    def relpath(self):
        try:
            return str(self.path.relative_to(REPO))
        except ValueError:
            return str(self.path)

    def package(self):
        return self.name if self.is_pkg else self.name.rsplit(".", 1)[0]

    def __repr__(self):
        return f"<Module {self.name}>"


class Symbol:
    """Top-level binding of a module."""

    # kind: 'func' | 'class' | 'module' | 'from' | 'const'
    def __init__(self, kind, node=None, target=None, attr=None):
        self.kind = kind
        self.node = node
        self.target = target  # dotted module name for module/from
        self.attr = attr  # attribute name for 'from'

    def __repr__(self):
        return f"<Symbol {self.kind} {self.target or ''}{'.' + self.attr if self.attr else ''}>"


class FuncInfo:
    def __init__(self, module, node, qualname, cls=None, parent=None):
        self.module = module
        self.node = node
        self.qualname = qualname
        self.cls = cls  # ClassInfo if a method
        self.parent = parent  # enclosing FuncInfo for closures
        self.name = getattr(node, "name", "<lambda>")
        self.njit_sig = None
        self.is_static = False
        self.is_classmethod = False
        self.is_property = False
        self.is_contextmanager = False  # @contextlib.contextmanager
        self.is_abstract = False  # @abc.abstractmethod
        self.is_cached_property = False  # @functools.cached_property: computed once per instance, then an ordinary instance attribute
        self.memo_decorator = None  # text of a functools.lru_cache / cache decorator
        self.other_decorators = []  # texts of decorators the model gives no meaning to
        if not isinstance(node, ast.Lambda):
            for d in node.decorator_list:
                txt = ast.unparse(d)
                head = txt.split("(")[0]
                if head.split(".")[-1] == "abstractmethod":
                    self.is_abstract = True
                if head.split(".")[-1] == "cached_property":
                    self.is_cached_property = True
                elif head.split(".")[-1] == "contextmanager":
                    self.is_contextmanager = True
                elif head.split(".")[-1] in ("lru_cache", "cache"):
                    self.memo_decorator = txt
                elif not (head in ("staticmethod", "classmethod", "property", "abc.abstractmethod", "abstractmethod", "nb.njit", "numba.njit", "njit")
                          or head.endswith((".setter", ".getter", ".deleter"))):
                    self.other_decorators.append(txt)
                if txt == "staticmethod":
                    self.is_static = True
                elif txt == "classmethod":
                    self.is_classmethod = True
                elif txt == "property":
                    self.is_property = True
                if re.match(r"^(nb|numba)\.njit\b", txt) or txt.startswith("njit"):
                    self.njit_sig = ""
                    if isinstance(d, ast.Call) and d.args:
                        a0 = d.args[0]
                        if isinstance(a0, ast.Constant) and isinstance(a0.value, str):
                            self.njit_sig = a0.value

    @property
    def is_njit(self):
        return self.njit_sig is not None

    @property
    def params(self):
        a = self.node.args
        return [x.arg for x in a.posonlyargs + a.args]

    @property
    def site(self):
        return f"{self.module.relpath}:{self.node.lineno}"

    @property
    def fq(self):
        return f"{self.module.name}::{self.qualname}"

    def __repr__(self):
        return f"<Func {self.fq}>"


class ClassInfo:
    def __init__(self, module, node):
        self.module = module
        self.node = node
        self.name = node.name
        self.methods = {}  # name -> FuncInfo
        self.setters = {}  # property name -> FuncInfo of its @name.setter
        self.attrs = {}  # class-level assignments name -> value node
        self.fields = []  # annotated class-level names in order: (name, default value node | None) - dataclass / NamedTuple fields
        self.decorators = [ast.unparse(d) for d in node.decorator_list]
        self.base_exprs = list(node.bases)
        self.bases = []  # resolved ClassInfo | str (external)
        self._mro = None

    @property
    def fq(self):
        return f"{self.module.name}::{self.name}"

    @property
    def site(self):
        return f"{self.module.relpath}:{self.node.lineno}"

    def mro(self):
        if self._mro is None:
            self._mro = _c3(self)
        return self._mro

    def find_method(self, name):
        for c in self.mro():
            if isinstance(c, ClassInfo) and name in c.methods:
                return c.methods[name]
        return None

    def find_attr(self, name):
        """Class-level attribute (assignment) through the MRO."""
        for c in self.mro():
            if isinstance(c, ClassInfo):
                if name in c.attrs:
                    return c, c.attrs[name]
                if name in c.methods:
                    return c, c.methods[name]
        return None, None

    def is_subclass_of(self, other):
        return any(c is other for c in self.mro())

    def __repr__(self):
        return f"<Class {self.fq}>"


def _c3(cls):
    def merge(seqs):
        res = []
        seqs = [list(s) for s in seqs if s]
        while seqs:
            for s in seqs:
                cand = s[0]
                if not any(cand is x or cand == x for t in seqs for x in t[1:]):
                    break
            else:
                # inconsistent hierarchy: fall back to depth-first
                cand = seqs[0][0]
            res.append(cand)
            new = []
            for s in seqs:
                if s and (s[0] is cand or s[0] == cand):
                    s = s[1:]
                if s:
                    new.append(s)
            seqs = new
        return res

    parents = []
    for b in cls.bases:
        if isinstance(b, ClassInfo):
            parents.append(b.mro())
        else:
            parents.append([b])
    return [cls] + merge(parents + [list(cls.bases)])


class Project:
    def __init__(self, src=SRC, pkg=PKG):
        self.src = pathlib.Path(src)
        self.pkg = pkg
        self.modules = {}
        root = self.src / pkg
        if not root.is_dir():
            raise AnalysisError(f"package directory {root} does not exist")
        for path in sorted(root.rglob("*.py")):
            rel = path.relative_to(self.src).with_suffix("")
            parts = list(rel.parts)
            is_pkg = parts[-1] == "__init__"
            if is_pkg:
                parts = parts[:-1]
            name = ".".join(parts)
            self.modules[name] = Module(name, path, path.read_text(encoding="utf8"), is_pkg)
        for m in self.modules.values():
            self._index_module(m)
        for m in self.modules.values():
            for c in m.classes.values():
                c.bases = [self._resolve_base(m, b) for b in c.base_exprs]
        self.all_classes = [c for m in self.modules.values() for c in m.classes.values()]
        self.all_functions = [f for m in self.modules.values() for f in m.functions.values()]

    # ---- indexing -------------------------------------------------------
    def _abs_import(self, module, level, name):
        if level == 0:
            return name
        base = module.package().split(".")
        if level > 1:
            base = base[: len(base) - (level - 1)]
        return ".".join(base + ([name] if name else []))

    def _index_module(self, m):
        def add_imports(stmt):
            if isinstance(stmt, ast.Import):
                for a in stmt.names:
                    if a.asname:
                        m.symbols[a.asname] = Symbol("module", stmt, a.name)
                    else:
                        top = a.name.split(".")[0]
                        m.symbols[top] = Symbol("module", stmt, top)
            elif isinstance(stmt, ast.ImportFrom):
                base = self._abs_import(m, stmt.level, stmt.module)
                for a in stmt.names:
                    m.symbols[a.asname or a.name] = Symbol("from", stmt, base, a.name)

        # module-level statements that may bind names the symbol table cannot list (loops / calls writing into globals(), setattr on the
        # module ...): the folder runs them on demand when a name is missing (symeval.Evaluator._run_dynamic)
        m.dynamic_stmts = [st for i, st in enumerate(m.tree.body)
                           if isinstance(st, (ast.For, ast.While, ast.With))
                           or (isinstance(st, ast.Expr) and isinstance(st.value, ast.Call))
                           or (isinstance(st, ast.If) and not all(isinstance(x, (ast.Import, ast.ImportFrom, ast.Pass)) for x in ast.walk(st) if isinstance(x, ast.stmt) and x is not st))]
        # module-level functions wrapped by decorators of the project (registries filled at import time: `@register(...)`): their decoration
        # is an import-time statement with effects
        known_heads = ("staticmethod", "classmethod", "property", "abc.abstractmethod", "abstractmethod", "nb.njit", "numba.njit", "njit", "functools.lru_cache", "functools.cache",
                       "lru_cache", "cache", "contextlib.contextmanager", "contextmanager", "functools.cached_property", "cached_property", "functools.wraps", "dataclasses.dataclass", "dataclass")
        m.registrations = [st for st in m.tree.body if isinstance(st, (ast.FunctionDef, ast.AsyncFunctionDef))
                           and any(ast.unparse(d).split("(")[0] not in known_heads for d in st.decorator_list)]
        for stmt in m.tree.body:
            if isinstance(stmt, (ast.Import, ast.ImportFrom)):
                add_imports(stmt)
            elif isinstance(stmt, (ast.FunctionDef, ast.AsyncFunctionDef)):
                m.symbols[stmt.name] = Symbol("func", stmt)
            elif isinstance(stmt, ast.ClassDef):
                m.symbols[stmt.name] = Symbol("class", stmt)
                ci = ClassInfo(m, stmt)
                m.classes[stmt.name] = ci
            elif isinstance(stmt, ast.Assign):
                for t in stmt.targets:
                    for n in _target_names(t):
                        m.symbols[n] = Symbol("const", stmt)
            elif isinstance(stmt, ast.AnnAssign) and isinstance(stmt.target, ast.Name):
                m.symbols[stmt.target.id] = Symbol("const", stmt)
            elif isinstance(stmt, (ast.If, ast.Try)):
                for sub in ast.walk(stmt):
                    if isinstance(sub, (ast.Import, ast.ImportFrom)):
                        add_imports(sub)
        # functions at any depth
        self._index_functions(m, m.tree, prefix="", cls=None, parent=None)

    def _index_functions(self, m, node, prefix, cls, parent):
        for child in ast.iter_child_nodes(node):
            if isinstance(child, (ast.FunctionDef, ast.AsyncFunctionDef)):
                q = prefix + child.name
                fi = FuncInfo(m, child, q, cls=cls if isinstance(node, ast.ClassDef) else None, parent=parent)
                if q in m.functions:  # redefinition (e.g. property setter): keep unique key
                    q = f"{q}@{child.lineno}"
                    fi.qualname = q
                m.functions[q] = fi
                child._func = fi  # type: ignore[attr-defined]
                if isinstance(node, ast.ClassDef) and cls is not None:
                    deco = [ast.unparse(d) for d in child.decorator_list]
                    if f"{child.name}.setter" in deco:
                        cls.setters[child.name] = fi
                    elif f"{child.name}.deleter" in deco:
                        pass
                    else:
                        if f"{child.name}.getter" in deco:
                            fi.is_property = True
                        cls.methods[child.name] = fi
                self._index_functions(m, child, q + ".", cls=None, parent=fi)
            elif isinstance(child, ast.ClassDef):
                ci = m.classes.get(child.name) if node is m.tree else None
                if ci is None:
                    ci = ClassInfo(m, child)
                for st in child.body:
                    if isinstance(st, ast.Assign):
                        for t in st.targets:
                            if isinstance(t, ast.Name):
                                ci.attrs[t.id] = st.value
                    elif isinstance(st, ast.AnnAssign) and isinstance(st.target, ast.Name):
                        if not any(f_[0] == st.target.id for f_ in ci.fields):
                            ci.fields.append((st.target.id, st.value))
                        if st.value is not None:
                            ci.attrs[st.target.id] = st.value
                child._class = ci  # type: ignore[attr-defined]
                self._index_functions(m, child, prefix + child.name + ".", cls=ci, parent=parent)
            elif isinstance(child, ast.Lambda):
                q = f"{prefix}<lambda@{child.lineno}:{child.col_offset}>"
                fi = FuncInfo(m, child, q, cls=None, parent=parent)
                m.functions[q] = fi
                child._func = fi  # type: ignore[attr-defined]
                self._index_functions(m, child, q + ".", cls=None, parent=fi)
            else:
                self._index_functions(m, child, prefix, cls, parent)

    # ---- resolution -----------------------------------------------------
    def module(self, name):
        if name not in self.modules:
            raise AnalysisError(f"anchor module {name} not found in the working tree")
        return self.modules[name]

    def func(self, modname, qualname):
        m = self.module(modname)
        if qualname not in m.functions:
            raise AnalysisError(f"anchor function {modname}::{qualname} not found")
        return m.functions[qualname]

    def cls(self, modname, name):
        m = self.module(modname)
        if name not in m.classes:
            raise AnalysisError(f"anchor class {modname}::{name} not found")
        return m.classes[name]

    def resolve_symbol(self, module, name, _depth=0):
        """Resolve a top-level name of `module` to
        ('func', FuncInfo) | ('class', ClassInfo) | ('module', Module) |
        ('const', (Module, stmt)) | ('ext', dotted) | None."""
        if _depth > 20:
            return None
        sym = module.symbols.get(name)
        if sym is None:
            return None
        if sym.kind == "func":
            return ("func", module.functions[name])
        if sym.kind == "class":
            return ("class", module.classes[name])
        if sym.kind == "const":
            return ("const", (module, sym.node))
        if sym.kind == "module":
            if sym.target in self.modules:
                return ("module", self.modules[sym.target])
            return ("ext", sym.target)
        if sym.kind == "from":
            full = f"{sym.target}.{sym.attr}" if sym.target else sym.attr
            if full in self.modules:
                return ("module", self.modules[full])
            if sym.target in self.modules:
                return self.resolve_symbol(self.modules[sym.target], sym.attr, _depth + 1) or (
                    "missing",
                    full,
                )
            return ("ext", full)
        return None

    def resolve_attr(self, base, attr):
        """One attribute step on a resolved value."""
        kind, val = base
        if kind == "module":
            sub = f"{val.name}.{attr}"
            r = self.resolve_symbol(val, attr)
            if r is not None:
                return r
            if sub in self.modules:
                return ("module", self.modules[sub])
            return ("missing", sub)
        if kind == "ext":
            return ("ext", f"{val}.{attr}")
        if kind == "class":
            c, v = val.find_attr(attr)
            if isinstance(v, FuncInfo):
                return ("func", v)
            if v is not None:
                return ("classattr", (c, v))
            return ("missing", f"{val.fq}.{attr}")
        return None

    def resolve_expr(self, module, expr, scope=None):
        """Static resolution of a Name/Attribute chain (no evaluation).

        `scope` is a FuncInfo: function-local imports and nested defs are seen.
        """
        if isinstance(expr, ast.Name):
            f = scope
            while f is not None:
                # nested function definitions and local imports
                for st in ast.walk(f.node):
                    if isinstance(st, (ast.FunctionDef,)) and st.name == expr.id and st is not f.node:
                        fi = getattr(st, "_func", None)
                        if fi is not None and fi.parent is f:
                            return ("func", fi)
                f = f.parent
            return self.resolve_symbol(module, expr.id)
        if isinstance(expr, ast.Attribute):
            base = self.resolve_expr(module, expr.value, scope)
            if base is None:
                return None
            return self.resolve_attr(base, expr.attr)
        return None

    def _resolve_base(self, module, expr):
        r = self.resolve_expr(module, expr)
        if r and r[0] == "class":
            return r[1]
        return ast.unparse(expr)

    def subclasses(self, cls):
        return [c for c in self.all_classes if c is not cls and c.is_subclass_of(cls)]

    def enclosing_function(self, node):
        n = getattr(node, "_parent", None)
        while n is not None:
            if isinstance(n, (ast.FunctionDef, ast.AsyncFunctionDef, ast.Lambda)):
                return getattr(n, "_func", None)
            n = getattr(n, "_parent", None)
        return None

    def enclosing_class(self, node):
        n = getattr(node, "_parent", None)
        while n is not None:
            if isinstance(n, ast.ClassDef):
                return getattr(n, "_class", None)
            n = getattr(n, "_parent", None)
        return None

    def digests(self, modnames=None):
        out = {}
        for name, m in self.modules.items():
            if modnames is None or name in modnames:
                out[m.relpath] = m.sha[:16]
        return out


def _target_names(t):
    if isinstance(t, ast.Name):
        yield t.id
    elif isinstance(t, (ast.Tuple, ast.List)):
        for e in t.elts:
            yield from _target_names(e)


def parents(node):
    n = getattr(node, "_parent", None)
    while n is not None:
        yield n
        n = getattr(n, "_parent", None)


def norm_text(node):
    """Normalised statement text, used as a line-number-free key."""
    try:
        return re.sub(r"\s+", " ", ast.unparse(node)).strip()
    except Exception:  # pragma: no cover
        return "<unparse failed>"


_PROJECT = None


def project():
    global _PROJECT
    if _PROJECT is None:
        _PROJECT = Project()
    return _PROJECT
