"""Fold whole runs over a configuration lattice, in parallel, and classify the outcome of each cell."""

from __future__ import annotations

import ast
import multiprocessing as mp
import os
import time

from . import algebra as A
from . import model
from . import pcmodel as P
from . import runmodel as R
from . import symeval as S
from .model import norm_text

EXPLICIT = ("ValueError", "NotImplementedError")


class Outcome:
    __slots__ = ("cell", "status", "etype", "msg", "site", "construct", "stmt", "wall", "extra")

    def __init__(self, cell, status, etype="", msg="", site="", construct="", stmt="", wall=0.0, extra=None):
        self.cell = cell
        self.status = status  # ok | rejected | internal | undecided
        self.etype = etype
        self.msg = msg
        self.site = site
        self.construct = construct
        self.stmt = stmt
        self.wall = wall
        self.extra = extra


def locate(proj, node):
    if node is None:
        return "", "<unknown>", ""
    f = proj.enclosing_function(node)
    m = None
    n = node
    while getattr(n, "_parent", None) is not None:
        n = n._parent
    for mod in proj.modules.values():
        if mod.tree is n:
            m = mod
            break
    site = f"{m.relpath}:{getattr(node, 'lineno', 0)}" if m else ""
    construct = f.fq if f is not None else (m.name if m else "<unknown>")
    return site, construct, norm_text(node)[:160]


def classify_exception(proj, cell, exc, t0):
    if isinstance(exc, A.Undecided):
        return Outcome(cell, "undecided", "Undecided", str(exc)[:200], wall=time.time() - t0)
    site, construct, stmt = locate(proj, exc.node)
    # an explicit rejection is a `raise` statement of the repository with one of the rejection types
    # (a message is expected for ValueError; a bare NotImplementedError already says "unsupported")
    explicit = isinstance(exc.node, ast.Raise) and (exc.etype in EXPLICIT or any(S.raised_is(exc, e_) for e_ in EXPLICIT)) and \
        (bool(str(exc.msg).strip()) or exc.etype == "NotImplementedError")
    return Outcome(cell, "rejected" if explicit else "internal", exc.etype, str(exc.msg)[:200], site, construct, stmt, time.time() - t0)


def fold_cell(proj, cell, weights="opaque", post=None, below_threshold=False, n_points=1, assume_valid_kin=True):
    """Fold Runner(...) and the first point's get_result() for a cell."""
    t0 = time.time()
    hook = P.above_threshold_hook if not below_threshold else below_threshold_hook
    try:
        ev, runner, th, ob = R.fold_runner(proj, cell, on_call=hook, n_points=n_points, assume_valid_kin=assume_valid_kin)
        R.install_result_summaries(ev)
        if weights == "opaque":
            R.opaque_weights(ev)
        o, elems = R.esf_of(ev, runner, cell.obs)
        results = [R.fold_point_result(ev, e) for e in elems]
        extra = post(ev, runner, results, th, ob) if post is not None else None
        return Outcome(cell, "ok", wall=time.time() - t0, extra=extra)
    except (A.Undecided, S.Raised) as e:
        return classify_exception(proj, cell, e, t0)


def below_threshold_hook(ev, fv, args, kwargs):
    if fv.finfo.name == "is_below_pair_threshold":
        return True
    return P._provenance(ev, fv, args, kwargs)


_WORK = {}


class JobTimeout(BaseException):
    """A single analysis job exceeded its wall-clock bound (BaseException: no handler of the engine may swallow it)."""


JOB_TIMEOUT = float(os.environ.get("YADSA_JOB_TIMEOUT", "900"))


def _alarm(signum, frame):
    raise JobTimeout()


def _guarded(fn, cell):
    """Run one job under a wall-clock bound: an analysis that cannot finish is an analysis error (exit 2), never a hang and never a verdict."""
    import signal

    old = signal.signal(signal.SIGALRM, _alarm)
    signal.setitimer(signal.ITIMER_REAL, JOB_TIMEOUT)
    try:
        return fn(cell)
    except JobTimeout:
        return ("__error__", f"job {str(cell)[:200]} exceeded the wall-clock bound of {JOB_TIMEOUT:g} s (folded expressions too large to decide)")
    finally:
        signal.setitimer(signal.ITIMER_REAL, 0)
        signal.signal(signal.SIGALRM, old)


_SENT = [set(), set()]


def _census_delta():
    d = (S.FOLDED - _SENT[0], S.SUMMARISED - _SENT[1])
    _SENT[0] |= d[0]
    _SENT[1] |= d[1]
    return d


def _worker(i):
    fn, cells = _WORK["fn"], _WORK["cells"]
    try:
        r = _guarded(fn, cells[i])
        return i, r, _census_delta()
    except Exception as e:  # checker bug: surfaces as analysis error in the parent
        import traceback

        return i, ("__error__", traceback.format_exc()), (set(), set())


def run_cells(fn, cells, jobs=None):
    """Map fn over cells with a fork pool (the parsed project is shared copy-on-write)."""
    jobs = jobs or int(os.environ.get("YADSA_POOL", "0")) or min(16, os.cpu_count() or 1)
    if len(cells) < 8 or jobs <= 1:
        out = []
        for c in cells:
            r = _guarded(fn, c)
            if isinstance(r, tuple) and r and r[0] == "__error__":
                raise model.AnalysisError("analysis job failed:\n" + r[1])
            out.append(r)
        return out
    _WORK["fn"] = fn
    _WORK["cells"] = cells
    ctx = mp.get_context("fork")
    with ctx.Pool(jobs) as pool:
        out = [None] * len(cells)
        for i, r, census in pool.imap_unordered(_worker, range(len(cells)), chunksize=2):
            S.FOLDED.update(census[0])
            S.SUMMARISED.update(census[1])
            if isinstance(r, tuple) and r and r[0] == "__error__":
                pool.terminate()
                raise model.AnalysisError("analysis job failed:\n" + r[1])
            out[i] = r
    return out
