#!/bin/bash
# usage: probe_refactor.sh NAME   (behaviour-preserving patch in /tmp/wt/NAME/seed/patch.diff)
# Applies the patch in a scratch worktree of /repo and runs every registered quick check against it: every check must stay silent (exit 0).
NAME=$1; WT=/tmp/confirm/$NAME
rm -rf $WT; mkdir -p /tmp/confirm
git -C /repo worktree add -q --detach $WT HEAD || exit 3
git -C $WT apply /tmp/wt/$NAME/seed/patch.diff || { echo "patch does not apply"; git -C /repo worktree remove --force $WT; exit 3; }
cd /verif
PROPS=$(/venv/bin/python -c "import json; print(' '.join(c['property_id'] for c in json.load(open('/verif/MANIFEST.json'))['checks']))")
echo "######## $NAME"
printf '%s\n' $PROPS | xargs -P 6 -I{} bash -c "YADSA_REPO=$WT YADSA_EVIDENCE_DIR=/tmp/confirm/$NAME.ev.{} timeout 2400 /venv/bin/python -m yadsa check {} > /tmp/confirm/$NAME.{}.log 2>&1; rc=\$?; if [ \$rc -ne 0 ]; then echo \"   {} rc=\$rc\"; grep -E '^  C[0-9][0-9]\\.|ANALYSIS' /tmp/confirm/$NAME.{}.log | head -4 | cut -c1-420; fi"
echo "   done $NAME"
rm -rf /tmp/confirm/$NAME.ev.*
git -C /repo worktree remove --force $WT
