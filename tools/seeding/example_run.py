"""Minimal working yadism run (copy and adapt). Run with: PYTHONPATH=<worktree>/src NUMBA_DISABLE_JIT=1 /venv/bin/python example_run.py"""
import os
os.environ.setdefault("NUMBA_DISABLE_JIT", "1")
import numpy as np
import adani
adani.HighScaleSplitLogs = lambda *a, **k: None   # installed adani is API-incompatible; only FFN0 schemes need it
import yadism, yadism.log
yadism.log.silent_mode = True

theory = dict(
    PTO=1, PTODIS=None, FNS="ZM-VFNS", NfFF=4, nf0=3, Q0=1.65, mc=1.51, mb=4.92, mt=172.5, kcThr=1.0, kbThr=1.0, ktThr=1.0,
    MP=0.938, TMC=0, RenScaleVar=True, FactScaleVar=True,
    CKM="0.97428 0.22530 0.003470 0.22520 0.97345 0.041000 0.00862 0.04030 0.999152",
    MW=80.398, MZ=91.1876, GF=1.1663787e-05, SIN2TW=0.23126, FONLLParts=None, n3lo_cf_variation=0,
    # only needed by Output.apply_pdf_theory:
    ModEv="EXA", XIR=1.0, XIF=1.0, alphaqed=0.007496, Qref=91.2, nfref=5, alphas=0.118, HQ="POLE", Qmc=1.51, Qmb=4.92, Qmt=172.5, IC=1,
    MaxNfPdf=6, MaxNfAs=6, QED=0,
)
observables = dict(
    interpolation_xgrid=np.geomspace(1e-3, 1, 12).tolist(), interpolation_is_log=True, interpolation_polynomial_degree=3,
    prDIS="NC",                      # "EM" | "NC" | "CC"
    TargetDIS="proton",              # or "neutron", "isoscalar", "iron", "lead", ... or dict(Z=..., A=...)
    ProjectileDIS="electron",        # "electron" | "positron" | "neutrino" | "antineutrino"
    PolarizationDIS=0.0, PropagatorCorrection=0.0, NCPositivityCharge=None,
    observables={
        "F2_total": [dict(x=0.1, Q2=20.0), dict(x=0.3, Q2=50.0)],   # kinds F2 FL F3 g1 gL g4; flavours light charm bottom top total
        "XSHERANC_total": [dict(x=0.1, Q2=20.0, y=0.5)],            # cross sections need y
    },
)

class ToyPDF:
    def hasFlavor(self, pid): return pid in (-3, -2, -1, 21, 1, 2, 3)
    def xfxQ2(self, pid, x, Q2): return x ** 0.5 * (1 - x) ** 3 * (2.0 if pid in (1, 2) else 1.0)

out = yadism.run_yadism(theory, observables)          # or: r = yadism.Runner(theory, observables); out = r.get_result()
for name in observables["observables"]:
    for pt in out[name]:
        print(name, pt.x, pt.Q2, {k: float(np.abs(v[0]).sum()) for k, v in pt.orders.items()})
pred = out.apply_pdf_alphas_alphaqed_xir_xif(ToyPDF(), lambda muR: 0.2, lambda muR: 0.0075, 1.0, 1.0)
print(pred["F2_total"])
