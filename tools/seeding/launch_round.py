#!/usr/bin/env python3
"""Prepare the scratch worktrees and prompts of one seeding round.

  launch_round.py seeds SUFFIX THEMEFILE [PROP ...]     -> /tmp/wt/<PROP><SUFFIX>/seed/PROMPT.txt for every claimed property
  launch_round.py refactor TARGETSFILE                  -> /tmp/wt/<NAME>/seed/PROMPT.txt per line "NAME<TAB>files and hints"

Each prompt is then handed to one fresh sub-agent ("Read /tmp/wt/X/seed/PROMPT.txt and do what it says").  Nothing from
/verif reaches the agents except the text of one property, the list of changes already studied for it and a working example run."""
import json
import pathlib
import subprocess
import sys

SEEDING = pathlib.Path("/verif/tools/seeding")
CLAIMED = ["C01", "C02", "C03", "C04", "C05", "C06", "C07", "C08", "C09", "C10", "C11", "C12", "C13", "C14", "C15", "C16", "C17", "C18", "C20"]


def worktree(name):
    wt = f"/tmp/wt/{name}"
    subprocess.run(["git", "-C", "/repo", "worktree", "add", "-q", "--detach", wt, "HEAD"], check=True)
    sd = pathlib.Path(wt) / "seed"
    sd.mkdir()
    (sd / "example_run.py").write_text((SEEDING / "example_run.py").read_text())
    return wt, sd


def seeds(suffix, themefile, only):
    tpl = (SEEDING / "prompt_template.txt").read_text()
    theme = pathlib.Path(themefile).read_text().strip()
    props = {json.loads(line)["id"]: json.loads(line) for line in open("/verif/properties.jsonl")}
    studied = {}
    for d in sorted(pathlib.Path("/verif/seeded").iterdir()):
        m = json.load(open(d / "meta.json"))
        if m.get("kind") == "benign":
            continue
        studied.setdefault(m["property"], []).append(m["change"][:100])
    for pid in only or CLAIMED:
        wt, sd = worktree(pid + suffix)
        p = props[pid]
        text = f"{pid}: {p['title']}\n\nStatement: {p['statement']}\n\nHolds for: {p['quantifier']['text']}"
        (sd / "PROPERTY.txt").write_text(text + "\n")
        avoid = " The following changes have already been studied - do NOT repeat them or close variants: " + " || ".join(studied.get(pid, [])) + ". " + theme
        (sd / "PROMPT.txt").write_text(tpl.replace("__WT__", wt).replace("__PROPERTY__", text).replace("__AVOID__", avoid))
        print(wt)


def refactor(targetsfile):
    tpl = (SEEDING / "prompt_refactor.txt").read_text()
    for line in pathlib.Path(targetsfile).read_text().splitlines():
        if not line.strip():
            continue
        name, files = line.split("\t", 1)
        wt, sd = worktree(name)
        (sd / "PROMPT.txt").write_text(tpl.replace("__WT__", wt).replace("__FILES__", files))
        print(wt)


if __name__ == "__main__":
    if sys.argv[1] == "seeds":
        seeds(sys.argv[2], sys.argv[3], sys.argv[4:])
    else:
        refactor(sys.argv[2])
