#!/bin/bash
# usage: confirm_seed.sh <seed-dir-with-patch.diff-and-demo.py> <name> [props...]
# Confirms an independently produced regression in a scratch worktree of /repo (outside /repo and /verif):
# demo passes on the unchanged code, fails with the patch, the baseline suite still passes; then runs the named
# checks (default: all registered) against the patched scratch tree. Removes the worktree afterwards.
set -u
SEED=$(readlink -f $1); NAME=$2; shift 2
PROPS="$@"
WT=/tmp/confirm/$NAME
rm -rf $WT; mkdir -p /tmp/confirm
git -C /repo worktree add -q --detach $WT HEAD || exit 3
cd $WT
# demos may locate the sources relative to themselves (<worktree>/seed/demo.py): run a copy placed inside the scratch worktree
mkdir -p $WT/seed && cp $SEED/demo.py $SEED/*.py $WT/seed/ 2>/dev/null
sed -i "s#/tmp/wt/[A-Za-z0-9]*#$WT#g" $WT/seed/*.py
SEEDRUN=$WT/seed
echo "== demo on unchanged code"
( cd $SEEDRUN && PYTHONPATH=$WT/src NUMBA_DISABLE_JIT=1 timeout 1800 /venv/bin/python demo.py > /tmp/confirm/$NAME.demo0.log 2>&1 ); R0=$?
echo "   exit $R0"
git -C $WT apply $SEED/patch.diff || { echo "patch does not apply"; git -C /repo worktree remove --force $WT; exit 3; }
echo "== demo with the change"
( cd $SEEDRUN && PYTHONPATH=$WT/src NUMBA_DISABLE_JIT=1 timeout 1800 /venv/bin/python demo.py > /tmp/confirm/$NAME.demo1.log 2>&1 ); R1=$?
echo "   exit $R1"
echo "== baseline suite with the change"
SAVE=$(mktemp -d /tmp/hypdb.XXXXXX)
OUT=$(mktemp /tmp/junit.XXXXXX.xml)
( cd $WT && PYTHONPATH=$WT/src /venv/bin/python -m pytest -q -p no:cacheprovider --timeout=900 --continue-on-collection-errors --junitxml=$OUT > /tmp/confirm/$NAME.pytest.log 2>&1 )
/venv/bin/python - "$OUT" <<'PY'
import json, sys, xml.etree.ElementTree as ET
base = set(json.load(open('/root/.vp/BASELINE.json'))['stable_pass'])
t = ET.parse(sys.argv[1]); passed=set()
for tc in t.iter('testcase'):
    if not any(c.tag in ('failure','error','skipped') for c in tc):
        passed.add(f"{tc.get('classname')}::{tc.get('name')}")
missing = sorted(base-passed)
print(f"   stable_pass={len(base)} passed_now={len(passed&base)} missing={missing}")
PY
rm -rf $OUT $SAVE
echo "== checks against the patched tree"
cd /verif
if [ -z "$PROPS" ]; then PROPS=$(/venv/bin/python -c "import json; print(' '.join(c['property_id'] for c in json.load(open('/verif/MANIFEST.json'))['checks']))"); fi
for p in $PROPS; do
  YADSA_REPO=$WT YADSA_EVIDENCE_DIR=/tmp/confirm/$NAME.ev /venv/bin/python -m yadsa check $p > /tmp/confirm/$NAME.$p.log 2>&1; rc=$?
  echo "   $p rc=$rc $(grep -c '^VIOLATION' /tmp/confirm/$NAME.$p.log) violation line(s)"
  if [ $rc -ne 0 ]; then grep -B1 '^VIOLATION' /tmp/confirm/$NAME.$p.log | grep -v '^VIOLATION\|^--' | cut -c1-420 | head -3; grep ANALYSIS-ERROR /tmp/confirm/$NAME.$p.log | head -2; fi
done
git -C /repo worktree remove --force $WT
rm -rf /tmp/confirm/$NAME.ev
echo "demo_unchanged=$R0 demo_patched=$R1"
