#!/bin/bash
# usage: confirm_many.sh NAME[:PROP[,PROP...]] ...   (seed dir /tmp/wt/NAME/seed; default property = first three characters of NAME)
# Runs tools/confirm_seed.sh for several delivered seeds, four at a time, and prints one summary block per seed.
run_one() {
  spec=$1; name=${spec%%:*}; props=${spec#*:}; [ "$props" = "$spec" ] && props=${name:0:3}
  out=$(timeout 3000 /verif/tools/confirm_seed.sh /tmp/wt/$name/seed $name ${props//,/ } 2>&1)
  echo "######## $name"; echo "$out" | grep -E "rc=|demo_unchanged|stable_pass|^  C[0-9][0-9]\." | cut -c1-330 | head -8
}
export -f run_one
printf '%s\n' "$@" | xargs -P 4 -I{} bash -c 'run_one {}'
