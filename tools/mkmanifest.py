#!/usr/bin/env python3
"""Regenerate /verif/MANIFEST.json from the table below (keeps it schema-valid)."""
import json
import pathlib

ROOT = pathlib.Path(__file__).resolve().parent.parent
PY = "/venv/bin/python"

# property -> (technique, claimed clause text, level note, design ref)
CLAIMS = {
    "C03": (
        "normal-form comparison of closed-form kernels (ast translation, chain-rule derivative)",
        "Decides for every RSL(reg,sing,loc) triple the package constructs (partonic channels through the MRO and "
        "every scale-variation splitting kernel) the identity d/dx loc(x) + sing(x) == 0 for all x, nf, L, masses: "
        "the x-derivative of loc(x) = delta - int_0^x sing. A structural/algebraic clause, not the numerical behaviour: "
        "finiteness and realness of values, regular parts and delta itself are not decided; instances outside the "
        "translatable fragment are printed as UNDECIDED and counted. Also decided (pure): every part that is a closure or bound method folds to the "
        "same function when evaluated three times with the same arguments (no state kept between evaluations).",
        "Trusted: CPython ast; yadsa normaliser (5e-5 relative tolerance per monomial); summaries li2 = dilogarithm, "
        "spence(z) = Li2(1-z); eko.constants read from installed source. Kernel variable assumed in (0,1).",
        "DESIGN.md section 3, C03",
    ),
    "C01": (
        "probe folding of the convolution routine (quad/basis/kernels opaque); atom inspection on partially evaluated operators",
        "The quadrature is numerical and NOT decided; decided is its wiring. conv.convolution folded on probe objects (16 presence/mode "
        "combinations, 3 empty-domain cases): the integrand handed to scipy's quad equals reg(z;args_reg) f(x/z)/z + sing(z;args_sing)(f(x/z)/z - f(x)) "
        "in the basis' own mode, limits x(1+eps)..min(max(x/borders),1)(1-eps), breakpoints x/borders (exponentiated in log mode), tolerance, "
        "and the returned value is the integral plus loc(x;args_loc) f(x); convolve_vector/convolve_operator visit each basis function (and grid "
        "point) once in order; in every partially evaluated operator entry (central keys) each quadrature atom sits in the column of its own basis "
        "index and is multiplied by a kinematics-independent weight times exactly its own convolution point (x; x(1+m^2/Q^2) CC heavy; x/eta for "
        "heavy-quark initiated NC rows), errors carrying the same quadratures.",
        "Trusted: CPython ast; yadsa partial evaluator; scipy.integrate.quad and eko.interpolation.(log_)evaluate_x as opaque primitives; "
        "weights independent of the requested kinematics.",
        "DESIGN.md section 3, C01",
    ),
    "C02": (
        "normal-form comparison of folded coupling weights and LO operators with an independent PDG/CKM oracle",
        "Decides, as identities in Q2, sin^2(theta_W), MZ, MW, polarisation, propagator correction and nine symbolic CKM elements: charge and "
        "weak-isospin tables == PDG; get_weight for EM/NC x six quarks x VV/AA/VA/AV x e-/e+ == PDG structure-function couplings (neutrino beams "
        "up to the helicity convention; conjugate beams related by P -> -P); propagator ratios == PDG; CC weights == 2 x the documented CKM "
        "partition; and the partially evaluated LO operator of every kind in ZM-VFNS nf=3..6 for EM/NC/CC and four projectiles is the parton "
        "model (row q = weight x x conv(delta), row qbar = +/- it, zero elsewhere); in charged-current runs of every scheme the CKM masks reaching "
        "the weights open exactly the massless quarks' groups or one massive quark's group. NOT decided: numerical CKM input, the delta quadrature (C01/C03).",
        "Trusted: CPython ast; yadsa partial evaluator; spec/ew.py (PDG review formulas transcribed independently of the code); "
        "docs/source/theory/fns.rst for the CKM partition; tree-level G_F MZ^2/(2 sqrt2 pi alpha) = 1/(4 s^2 c^2).",
        "DESIGN.md section 3, C02",
    ),
    "C13": (
        "normal-form identities between partially evaluated operators under substitutions (eta -> 0, P -> -P, charge conjugation, flavour exchange)",
        "Decides, as identities between partially evaluated operators over kinds x heavyness x schemes x orders: NC with the Z propagator ratios "
        "set to zero == EM and each ratio carries Q2/(MZ^2+Q2); positron(P) == electron(-P); antineutrino/e+ CC operators == neutrino/e- ones with "
        "parton rows conjugated and a minus sign for parity-violating kinds (symbolic CKM); ZM-VFNS rows of active quarks with identical "
        "electroweak charges coincide (also at the last point of a run that served other flavour numbers before). NOT decided: numerical values.",
        "Trusted: CPython ast; yadsa partial evaluator and summaries; algebra.subs; heavy coefficient functions folded above threshold.",
        "DESIGN.md section 3, C13",
    ),
    "C04": (
        "normal-form comparison with published NLO closed forms; closed-form first moments of the source's parametrisations; sibling agreement",
        "Decides: the NLO distribution (regular, singular, local part) of every light partonic-channel class of F2, FL, F3, g1 (NC, CC even/odd), "
        "folded through the MRO, equals the published closed form for all z, nf, and no NLO term exists where the literature has none; the first "
        "moment int_0^1 reg dz + loc(0) of the normal form read from the source (tanh-sinh integration of the closed form; no repository code "
        "runs) reproduces Adler (0) for nu-nubar F2 at orders 1..3 and the Gross-Llewellyn-Smith/Bjorken non-singlet coefficients for F3 (1..3) "
        "and g1 (1..2), nf = 3..6, within the accuracy of the published parametrisations; F2/F3 share NNLO and N3LO threshold kernels; "
        "nu+nubar / nu-nubar siblings differ by an nf-independent function. NOT decided: higher Mellin moments, singlet/gluon beyond NLO.",
        "Trusted: CPython ast; yadsa normaliser; spec/nlo.py (published forms and sum-rule coefficients, transcribed independently); tolerances "
        "1e-8 / 2e-2 / 0.5 reflect the accuracy of the Vogt et al. parametrisations.",
        "DESIGN.md section 3, C04",
    ),
    "C05": (
        "end-to-end RGE identity on partially evaluated operators against a solution built by the checker",
        "Decides: for every cell (kinds x heavyness x NC/CC x five schemes x PTO 1..3 x the four RenScaleVar/FactScaleVar combinations) every "
        "scale-variation key (k,0,i,j) of the partially evaluated operator equals entry by entry the coefficient of a^k tR^i tF^j in the "
        "renormalisation-group solution the checker builds from the folded central coefficients, opaque beta0/beta1, eko's sector projectors "
        "and the DGLAP sector -> splitting-kernel tables written in the checker; a switched-off variation sets exactly its logarithm to zero; "
        "rows fed by intrinsic kernels carry no factorisation logarithms; registry labels are not cross-wired. NOT decided: regular parts of "
        "the splitting kernels; factorisation-scale terms at a^3 (outside the property's quantifier, counted).",
        "Trusted: CPython ast; yadsa partial evaluator; eko.basis_rotation constants; the RGE derivation in rules/c05.py; a registry label "
        "denotes the kernel it names.",
        "DESIGN.md section 3, C05",
    ),
    "C08": (
        "support comparison of partially evaluated FFNS and FFN0 operators by (coupling weight, physical channel); log-level contiguity of Asy classes",
        "The asymptotic limit itself (difference vanishing like a power of m^2/Q^2) is numerical and NOT decided. Decided is a necessary structural "
        "clause: for kinds x heavyness x NC/CC x NfFF x PTO 0..2, order by order and parton row by parton row, the partially evaluated FFNS and "
        "FFN0 operators carry exactly the same (coupling weight, physical channel) pairs - the channel being the class that produced each kernel, "
        "classified by yadism's own name rules - except the frozen power-suppressed case F_L at LO; and at each order the Asy{N^k}LL classes of a "
        "channel provide every power of the collinear logarithm. An asymptotic term without massive counterpart can never cancel; a massive "
        "term without asymptotic partner does not vanish. Also: every asymptotic kernel carries the mass of the quark its weights name; vector and "
        "axial weights multiply the same kernel combination; every massive / asymptotic / intrinsic kernel is a function of its arguments "
        "(repeated evaluation folds to the same function)."
        " Also: the light-quark initiated massive kernel carries a delta(1-z) part exactly where the Born coefficient of the kind and the asymptotic "
        "family do (the local part is the virtual correction, proportional to the Born term).",
        "Trusted: CPython ast; yadsa partial evaluator with opaque weights and kernel provenance; F_L(LO, massive) is proportional to m^2/Q^2.",
        "DESIGN.md section 3, C08",
    ),
    "C09": (
        "semantic folding of the threshold predicate under supplied orderings; closure probing; atom inspection on partially evaluated operators",
        "Decides: is_below_pair_threshold is the predicate Q2 (1-z)/z <= 4 m^2 (concrete and symbolic orderings below/at/above; every comparison "
        "it makes is between those two normal forms); no NC heavy class bypasses the threshold decorator and, on partially evaluated FFNS/FONLL "
        "runs folded below the hadronic threshold, no quadrature of a massive NC coefficient function remains in any operator entry (present "
        "above); every regular/singular closure of every NC heavy class x order returns exactly 0 when the predicate holds for its own "
        "integration variable; the CC heavy convolution point is x (1 + m^2/Q^2) in the class and in every massive CC quadrature atom of folded "
        "operators; conv.convolution returns (0, 0) for points >= 1 - eps before touching kernel or basis. NOT decided: LeProHQ near threshold.",
        "Trusted: CPython ast; yadsa partial evaluator; pcmodel class x order folding; eps_integration_border small and positive.",
        "DESIGN.md section 3, C09",
    ),
    "C10": (
        "end-to-end identity on partially evaluated operators against the published TMC formulas built by the checker",
        "Decides: for F2, FL, xF3, 2xg1 x TMC modes 1/2/3 x heavyness x NC/CC x schemes, the operator folded with TMC on equals for every order "
        "key and entry the published combination (Schienbein et al. 2008; Accardi-Melnitchouk D.26 in the 2xg1 normalisation; APFEL = exact without "
        "nested integrals; approximate = published closed forms) of the operators folded without TMC at the Nachtmann point and at the grid "
        "nodes, the integrals being the opaque quadratures of the kernels whose folded closed form is z/xi, 1-z, z ln(1/z)/xi convolved with the "
        "right structure function; xi, rho, mu and shifted kinematics equal their definitions; the result carries the requested x, Q2; integral "
        "coefficients vanish and the F(xi) coefficient tends to 1 as M -> 0; with a target mass of exactly 0 the corrected operator is the "
        "uncorrected one; the corrected operator does not depend on other observables sharing its kinematics objects. A request whose Nachtmann point lies below the first grid node ends in an explicit rejection in every mode (concrete kinematics); a point requested after another Q2 at the same x equals the point requested alone. NOT decided: quadrature accuracy.",
        "Trusted: CPython ast; yadsa partial evaluator; the literature formulas written in rules/c10.py (not taken from the code); yadism's F3 "
        "is xF3 and g1 is 2xg1 (C02.lo).",
        "DESIGN.md section 3, C10",
    ),
    "C11": (
        "normal-form comparison of folded coefficient vectors with the documented formulas; operator combination identity",
        "Decides: the coefficient vector folded from xs_coeffs_unpolarized/polarized equals, for all x, y, Q2, M_h, M_W, G_F, the documented "
        "N[1, -yL/y+, (-1)^l y-/y+] up to one documented unit-conversion constant for the ten kinds and four projectiles; no documented kind "
        "falls through to zero, unknown kinds raise; the partially evaluated operator of each cross section equals for every order key and "
        "entry that combination of the partially evaluated F2/FL/F3 (g4/gL/g1) operators of the same heavyness in the same configuration, "
        "with and without TMC and scale variations. NOT decided: numerical values.",
        "Trusted: CPython ast; yadsa partial evaluator; spec/xs.py transcribed from docs/source/theory/intro.rst (XSFPFCC after the docs fix); "
        "unit conversions 1, 3.893793e10, 3.893793e8 accepted.",
        "DESIGN.md section 3, C11",
    ),
    "C06": (
        "table folding of update_fns; call/flow facts on partially evaluated runs; structural audit of eko.matchings",
        "Decides: update_fns folded over five schemes x NfFF 3..6 equals the documented threshold/zero-mass table (nf == NfFF at every Q2 in "
        "fixed-flavour schemes, ZM-VFNS untouched, unknown scheme rejected); on partially evaluated runs the atlas holds (m_q k_q)^2 in order "
        "c,b,t with origin (Q0^2, nf0), nf_default is evaluated exactly once per point with that point's Q2 and that atlas, ZM-VFNS operators are "
        "identical for different NfFF and free of mass/threshold symbols, no operator contains threshold-ratio symbols, every beta coefficient "
        "of the scale-variation terms is evaluated at that same nf; the installed eko source has nf = 2 + digitize(Q2, [0]+scales+[inf]) with "
        "right=False (scale^2 <= Q2 counts as active); within one runner every point - after points of other flavour regions, with either variation alone, or 1e-12 away from another requested point across a matching scale - carries the terms of its own number of flavours; in fixed-flavour schemes no quark beyond NfFF feeds a flavour-tagged operator. NOT decided: floating-point behaviour one ulp around a threshold.",
        "Trusted: CPython ast; yadsa partial evaluator; eko.matchings (audited structurally each run); mc kc < mb kb < mt kt.",
        "DESIGN.md section 3, C06",
    ),
    "C07": (
        "normal-form identities between partially evaluated operators (additivity over parts, heavyness, coupling restrictions)",
        "Decides additivity as polynomial identities between partially evaluated operators, for every order key (scale-variation keys "
        "included), parton row and basis node, with weights, masses, kinematics and convolution values symbolic: FONLLParts full == massless + "
        "massive; FFNS/FFN0 total == light + the heavy quarks massive in that scheme; ZM-VFNS total == light; EM/NC unrestricted == sum of the "
        "six NCPositivityCharge restrictions (and == 'all'). NOT decided: numerical values; the literal 'light+charm+bottom+top' when NfFF >= 4 "
        "(documented double counting of the then-active charm) is outside the decided clause.",
        "Trusted: CPython ast; yadsa partial evaluator with quadrature/eko/LeProHQ opaque; generic-point folding of symbolic weights; heavy "
        "coefficient functions folded above threshold.",
        "DESIGN.md section 3, C07",
    ),
    "C12": (
        "normal-form identity between partially evaluated operators (symbolic target vs rotated proton); ownership/aliasing rule; table folding",
        "Decides: for every cell of a lattice (kinds x heavyness x NC/CC x ZM-VFNS/FFNS/FFN0/FONLL-* x orders, with and without scale "
        "variations) the operator folded with a symbolic target (Z, A) equals entry by entry, as a polynomial identity in Z, A, the weights "
        "and the opaque convolution values, the proton operator with the d/u and dbar/ubar rows mixed by [[Z,A-Z],[A-Z,Z]]/A and all other "
        "rows unchanged; structurally, that no partons dict shared by co-executable Kernel(...) constructions is mutated in place; and that "
        "update_target folds every named target to its documented (Z, A), passes explicit dicts through and rejects unknown names. "
        "NOT decided: numerical values of the convolutions.",
        "Trusted: CPython ast; yadsa partial evaluator with quadrature/eko/LeProHQ opaque; rotation matrix and proton/neutron/isoscalar from "
        "docs/source/theory/misc.rst; iron/lead/neon/marble values transcribed from the cited sources.",
        "DESIGN.md section 3, C12",
    ),
    "C14": (
        "partial evaluation of whole runs under different request histories; comparison of per-point normal forms; aliasing checks; syntax-tree dependency analysis of memo keys",
        "Decides: for a lattice of (observable triple, scheme, TMC, scale variations), the operator (values and errors, every order key) folded "
        "for each requested (observable, point) is the same normal form across nine histories - alone, reversed, duplicates and repeated Q2 "
        "values, before/after other structure functions or cross sections that populate the shared caches, subsets, a point whose Nachtmann "
        "partner is requested first, a point with a different number of active flavours evaluated alone - and across two get_result() calls; a "
        "history that fails while another succeeds is a violation; no two points of an output, two outputs, or an output and the memoised "
        "results share an array; (state) every store into process-wide state (module-level, class-level, default-argument containers, class "
        "attributes written in functions) and every lookup-then-store memo on an object is keyed by all inputs of the stored value. "
        "NOT decided: bit-level reproducibility of the floating-point quadrature and summation order.",
        "Trusted: CPython ast; yadsa partial evaluator (dict/list/cache and in-place array semantics modelled on the host interpreter/numpy); "
        "quad, LeProHQ and eko basis functions are deterministic pure functions.",
        "DESIGN.md section 3, C14",
    ),
    "C15": (
        "folding of the repository's writers and readers over a virtual file system (yaml/npz/tar/pathlib models); structural comparison",
        "Decides: for outputs produced by partially evaluated runs (structure functions and cross sections, two points each, scale-variation "
        "orders, an empty observable, a None observable, a point carrying nf) and for both formats - through strings, streams and files - "
        "load(dump(out)) has identical observables, result classes, x, Q2, y, nf, order keys in order, operator values and errors (symbolic "
        "entries: any arithmetic, cast, rounding or mix-up on the value path changes the normal form), metadata (grid, pids, projectile, "
        "interpolation settings) and echoed cards, and a second dump/load cycle is again identical. NOT decided: exactness of float <-> text and "
        "of npz (library properties).",
        "Trusted: CPython ast; yadsa partial evaluator; the yaml/npz/tar/pathlib models in rules/c15.py (safe YAML holds plain containers and "
        "scalars only; npz holds arrays by name; tar holds the files under the added directory); PyYAML/numpy float64 serialisation is exact.",
        "DESIGN.md section 3, C15",
    ),
    "C16": (
        "partial evaluation of the repository's source over the configuration lattice; must-pass-through; probe folding",
        "Decides: over the documented configuration lattice (kind x heavyness x process x scheme/NfFF x PTO, plus scale-variation, "
        "FONLL-parts, TMC and cross-section sub-lattices; ~5.6k cells quick, more thorough) partial evaluation of Runner construction and "
        "the per-point calculation ends in an operator or in an explicit raise ValueError|NotImplementedError(message), never in a "
        "KeyError/AttributeError/IndexError/ModuleNotFoundError/TypeError; kinematic guards reject exactly the complement of 0<x<=1, Q2>0, "
        "x>=grid minimum for the requested point with and without TMC (concrete orderings); Runner.get_result returns the output of "
        "replace_nans_with_0, which zeroes every observable/point/order/member slot of a probe output; every (projection, current) pair handed to "
        "LeProHQ is tabulated by the installed library (tables read from its source); conv.convolution returns for every shape of distribution "
        "(any subset of regular/singular/local part, both grid modes). NOT decided: that surviving operator "
        "entries are finite (a numerical statement about LeProHQ, quadrature and the N3LO grids).",
        "Trusted: CPython ast; yadsa partial evaluator and its inert summaries of eko/numpy/scipy objects; generic-point folding "
        "(a non-constant polynomial weight is non-zero); heavy coefficient functions folded above threshold; 0<xi<=x for the TMC point.",
        "DESIGN.md section 3, C16",
    ),
    "C17": (
        "folding of apply_pdf on symbolic operators with opaque PDF/coupling callables; comparison with the documented contraction",
        "Decides: the result and error returned by ESFResult/EXSResult.apply_pdf equal sum over stored orders of [alpha_s(xiR sqrt Q2)/(4 pi)]^k "
        "alpha(xiR sqrt Q2)^l ln(1/xiR^2)^i ln(1/xiF^2)^j sum_{provided p, n} O[p,n] xf_p(x_n, xiF^2 Q2)/x_n (symbolic operators, six order keys, "
        "partons the PDF lacks never queried; x, Q2, y echoed; unset Q2 rejected) - hence linear in the PDF; Output routes pids, xgrid, alpha_s, "
        "alpha_qed, xiR, xiF to every point in order and skips None observables/metadata; apply_pdf_theory uses a_s(muR^2, nf_to=NfFF) x 4 pi for "
        "FFNS/FFN0/FONLL-*, a_s(muR^2, nf_to=nf_default(muR^2, atlas((m_q k_q)^2; Qref^2, nfref))) x 4 pi for ZM-VFNS, builds Couplings from the "
        "card's couplings/order/masses, takes alphaqed, XIR, XIF from the card in order, and raises on an unknown scheme; Output.apply_pdf forwards the output's own card; MaskedPDF answers 0 for masked pids. NOT decided: eko's running.",
        "Trusted: CPython ast; yadsa partial evaluator; numpy.einsum('aj,aj') = double contraction; the eko.io.runcards/eko.couplings API shape "
        "summarised in rules/c17.py.",
        "DESIGN.md section 3, C17",
    ),
    "C18": (
        "interprocedural argument-vector demand vs. supply; closed-world call/whitelist check of njit bodies; small type inference",
        "Decides the static clauses of C18: for every RSL part of every partonic channel/order (folded through the MRO), every splitting "
        "kernel and the TMC kernels, demand on the float vector `args` <= values supplied for that part, with nf/L/variation role agreement; "
        "every njit body calls only njit functions or whitelisted numpy/builtins and captures only numeric module constants; signature "
        "arity, kernel-to-kernel call arity/types, no complex value returned from an f8 kernel, no integer ** negative integer, no declared type "
        "narrower than float64/complex128/int64; captured globals are never written from a function; interpreted call sites of compiled kernels "
        "pass nothing only the interpreter accepts; every local of a compiled body is assigned on every path before it is read (numba "
        "zero-initialises where the interpreter raises). NOT decided: agreement of compiled and interpreted values to rounding (numerical).",
        "Trusted: CPython ast; yadsa resolver; the whitelist of numba-supported numpy/builtin calls in rules/c18.py; decorator signature "
        "strings are the only typing contract.",
        "DESIGN.md section 3, C18",
    ),
    "C20": (
        "partial evaluation of runner construction/results/upgrade on a lattice of cards with before/after snapshots and aliasing checks",
        "Decides: over 5 FNS x target spellings x TMC x structure-function/cross-section mixes x legacy card spellings, folding "
        "Runner(theory, observables), get_result() twice, a second construction from the same dict objects and compatibility.update twice leaves "
        "the caller's dictionaries (nested kinematics lists, target dicts and array-valued entries included: array memory is watched) key- and value-identical to a snapshot at every stage; "
        "the output echoes cards equal to those given, the requested grid, eko's flavour-basis pids, the projectile used and every point at its "
        "requested kinematics in request order; each get_result() is a fresh copy sharing no container with another call, the runner or the "
        "caller; the legacy upgrade is idempotent. NOT decided: mutation inside external libraries.",
        "Trusted: CPython ast; yadsa partial evaluator (dict/list aliasing semantics are the host interpreter's); eko/numpy constructors do not "
        "mutate the lists they are given.",
        "DESIGN.md section 3, C20",
    ),
}

NA = {
    "C19": "Convergence of predictions under grid refinement is a limit statement about numerical values of two runs; "
    "no clause of its own is visible in the shape of the code. Its structural ingredients are decided under other properties and are not "
    "claimed twice: breakpoints at area borders and the integration domain (C01.integrand), every basis function whose support reaches "
    "above the convolution point convolved in its own column - also for points exactly on grid nodes, for degrees 1..4 (C01.vector), "
    "the grid recorded in the output being the grid the operators refer to (C20). Static analysis cannot bound interpolation error.",
}

PENDING = "check not yet built in this revision (static rule designed in DESIGN.md section 3; will be registered when implemented)"


def main():
    props = [json.loads(l)["id"] for l in (ROOT / "properties.jsonl").read_text().splitlines() if l.strip()]
    checks = []
    na = []
    for pid in props:
        if pid in CLAIMS:
            tech, text, note, ref = CLAIMS[pid]
            checks.append(
                dict(
                    property_id=pid,
                    quick_cmd=f"{PY} -m yadsa check {pid} --tier quick",
                    thorough_cmd=f"{PY} -m yadsa check {pid} --tier thorough",
                    evidence_file=f"/verif/evidence/{pid}.json",
                    replay_cmd_template=f"{PY} -m yadsa replay {{path}}",
                    engine="yadsa",
                    level_claimed=dict(category="other", text=text, design_ref=ref),
                    level_note=note,
                    technique="static analysis: " + tech,
                )
            )
        else:
            na.append(dict(property_id=pid, reason=NA.get(pid, PENDING)))
    man = dict(
        version=1,
        setup_cmd=f"{PY} -m yadsa doctor",
        hooks=dict(
            guard="YADISM_VERIF",
            enable="none needed: the checks parse /repo's working tree and never build or run it",
            baseline_off_cmd="cd /repo && /venv/bin/python -m pytest -ra -q -p no:cacheprovider --timeout=900 --continue-on-collection-errors",
            source_commits=[],
            add_only=True,
        ),
        engines=[
            dict(
                name="yadsa",
                path="/verif/yadsa",
                serves_properties=sorted(CLAIMS),
                kind_free_text="repository-specific static analyser (python ast): project model and resolver, "
                "rational-polynomial normal forms, constant folding over literal domains, flow/ownership rules",
            )
        ],
        checks=checks,
        notes="All checks are static: they parse /repo/src/yadism on every run and never import or execute it. "
        "Exit 0 = clause holds on everything analysed, 1 = VIOLATION line per unlisted violation, 2 = ANALYSIS-ERROR. "
        "Known findings: /verif/known_findings.json.",
        not_applicable=na,
    )
    (ROOT / "MANIFEST.json").write_text(json.dumps(man, indent=1) + "\n")
    print(f"MANIFEST.json: {len(checks)} checks, {len(na)} not_applicable")


if __name__ == "__main__":
    main()
