#!/usr/bin/env python3
"""Store a confirmed seeded change: store_seed.py NAME PROP ROUND 'change' 'needs to manifest' 'caught by' [--miss] [--selftest-prop CXX]
Copies patch.diff, demo.py, NOTES.md from /tmp/wt/NAME/seed to /verif/seeded/NAME and writes meta.json."""
import json
import pathlib
import shutil
import subprocess
import sys

args = [a for a in sys.argv[1:] if not a.startswith("--")]
name, pid, rnd, change, needs, caught = args[:6]
miss = "--miss" in sys.argv
st_prop = None
if "--selftest-prop" in sys.argv:
    st_prop = sys.argv[sys.argv.index("--selftest-prop") + 1]
head = subprocess.run(["git", "-C", "/repo", "rev-parse", "--short=8", "HEAD"], capture_output=True, text=True).stdout.strip()
src, dst = pathlib.Path(f"/tmp/wt/{name}/seed"), pathlib.Path(f"/verif/seeded/{name}")
dst.mkdir(parents=True, exist_ok=True)
for f in ("patch.diff", "demo.py", "NOTES.md"):
    shutil.copyfile(src / f, dst / f)
meta = dict(
    property=pid,
    origin=f"independent sub-agent given only the property text and a scratch worktree of /repo at {head} (nothing from /verif); round {rnd}",
    change=change, needs_to_manifest=needs,
    confirmed=dict(how=f"tools/confirm_seed.sh seeded/{name} <name> {pid}  (scratch worktree under /tmp/confirm, removed afterwards)",
                   demo_unchanged_exit=0, demo_patched_exit=1, baseline_suite="84/84 stable tests pass with the change",
                   check=("all registered checks exit 0: missed" if miss else "/venv/bin/python -m yadsa check <property> with YADSA_REPO=<scratch>: exit 1")),
    caught_by=caught)
if miss:
    meta["selftest"] = "excluded"
if st_prop:
    meta["selftest_property"] = st_prop
(dst / "meta.json").write_text(json.dumps(meta, indent=1) + "\n")
print("stored", dst)
