#!/usr/bin/env python3
"""Which functions of /repo/src/yadism does some registered check actually analyse?

Reads the evidence files written by the checks (coverage.functions_folded_list / functions_summarised_list: function bodies the
partial evaluator walked, measured per run, pool workers included) and the source tree, and prints

  * per module: functions folded by at least one check / functions in the module,
  * the functions no check folds, split into (a) compiled kernels and module-level numeric functions, which are analysed by
    translation into normal forms (C03 / C04 / C18 read them through the syntax tree, not through the folder's call machinery) and
    (b) everything else = the blind area of the folder,

so that the places where a regression can hide from every check are known by name.  Usage: tools/coverage_map.py [--json]"""
import ast
import json
import pathlib
import sys

SRC = pathlib.Path("/repo/src/yadism")
EVID = pathlib.Path("/verif/evidence")


def functions_of(path, modname):
    tree = ast.parse(path.read_text())
    out = {}

    def walk(node, prefix, in_class):
        for st in node.body if hasattr(node, "body") else []:
            if isinstance(st, (ast.FunctionDef, ast.AsyncFunctionDef)):
                njit = any("njit" in ast.unparse(d) for d in st.decorator_list)
                out[f"{modname}::{prefix}{st.name}"] = dict(njit=njit, line=st.lineno, nested=bool(prefix) and not in_class)
                walk(st, f"{prefix}{st.name}.", False)
            elif isinstance(st, ast.ClassDef):
                walk(st, f"{prefix}{st.name}.", True)
            elif isinstance(st, (ast.If, ast.For, ast.While, ast.With, ast.Try)):
                walk(st, prefix, in_class)

    walk(tree, "", False)
    return out


def main():
    folded, summarised, by_check = set(), set(), {}
    for f in sorted(EVID.glob("C*.json")):
        c = json.load(open(f))["coverage"]
        fl = set(c.get("functions_folded_list", []))
        by_check[f.stem] = len(fl)
        folded |= fl
        summarised |= set(c.get("functions_summarised_list", []))
    allf = {}
    for p in sorted(SRC.rglob("*.py")):
        mod = "yadism." + ".".join(p.relative_to(SRC).with_suffix("").parts)
        mod = mod.removesuffix(".__init__")
        allf.update(functions_of(p, mod))
    # the folder names nested functions `outer.<locals>.inner` or `outer.inner` depending on depth: compare on the last two components
    def short(fq):
        m, _, n = fq.partition("::")
        return m, n.replace("<locals>.", "")

    folded_s = {short(f) for f in folded}
    summ_s = {short(f) for f in summarised}
    per_mod, blind, kernels = {}, [], []
    for fq, info in allf.items():
        m, n = short(fq)
        hit = (m, n) in folded_s or (m, n) in summ_s
        a = per_mod.setdefault(m, [0, 0])
        a[1] += 1
        if hit:
            a[0] += 1
        elif info["njit"] or (info["nested"] and ".coefficient_functions." in m + "."):
            kernels.append(fq)
        else:
            blind.append(fq)
    res = dict(functions=len(allf), folded_by_some_check=sum(a[0] for a in per_mod.values()), compiled_or_closure_kernels_not_folded=len(kernels),
               not_folded_by_any_check=sorted(blind), per_check=by_check,
               per_module={m: f"{a[0]}/{a[1]}" for m, a in sorted(per_mod.items()) if a[1]})
    if "--json" in sys.argv:
        print(json.dumps(res, indent=1))
        return
    print(f"functions in src/yadism: {res['functions']}; folded (or summarised) by at least one check: {res['folded_by_some_check']}; "
          f"kernels read through the syntax tree only: {len(kernels)}; other functions no check folds: {len(blind)}")
    print("per check:", " ".join(f"{k}={v}" for k, v in by_check.items()))
    for m, v in res["per_module"].items():
        print(f"  {v:>9}  {m}")
    print("NOT FOLDED BY ANY CHECK:")
    for b in sorted(blind):
        print("   ", b)


if __name__ == "__main__":
    main()
