#!/venv/bin/python
"""Manual confirmation helper (NOT used by any registered check): run the real yadism once.

usage: realrun.py OBS [key=value ...]   e.g. realrun.py F3_charm prDIS=CC FNS=ZM-VFNS PTO=1 ProjectileDIS=neutrino
"""
import os
import sys

os.environ.setdefault("NUMBA_DISABLE_JIT", "1")
import numpy as np

try:
    import adani

    if not hasattr(adani, "_stubbed"):
        class _HS:
            def __init__(self, *a, **k):
                pass

        adani.HighScaleSplitLogs = _HS
        adani._stubbed = True
except Exception:
    pass

import yadism
import yadism.log

yadism.log.silent_mode = True

theory = dict(
    PTO=1, PTODIS=None, FNS="ZM-VFNS", NfFF=4, nf0=3, Q0=1.65, mc=1.51, mb=4.92, mt=172.5, kcThr=1.0, kbThr=1.0, ktThr=1.0,
    MP=0.938, TMC=0, RenScaleVar=True, FactScaleVar=True, CKM="0.97428 0.22530 0.003470 0.22520 0.97345 0.041000 0.00862 0.04030 0.999152",
    MW=80.398, MZ=91.1876, GF=1.1663787e-05, SIN2TW=0.23126, FONLLParts=None, n3lo_cf_variation=0, ModEv="EXA", XIR=1.0, XIF=1.0,
    alphaqed=0.007496, Qref=91.2, nfref=5, alphas=0.118, IC=1, HQ="POLE", Qmc=1.51, Qmb=4.92, Qmt=172.5, MaxNfPdf=6, MaxNfAs=6,
    QED=0, order=None,
)
obs = dict(
    interpolation_xgrid=np.geomspace(1e-3, 1, 12).tolist(), interpolation_is_log=True, interpolation_polynomial_degree=3,
    prDIS="NC", TargetDIS="proton", ProjectileDIS="electron", PolarizationDIS=0.0, PropagatorCorrection=0.0, NCPositivityCharge=None,
    observables={},
)
name = sys.argv[1]
kin = dict(x=0.1, Q2=20.0)
for kv in sys.argv[2:]:
    k, v = kv.split("=", 1)
    try:
        v = eval(v)
    except Exception:
        pass
    if k in ("x", "Q2", "y"):
        kin[k] = v
    elif k in obs:
        obs[k] = v
    else:
        theory[k] = v
obs["observables"][name] = [kin]
try:
    out = yadism.run_yadism(theory, obs)
    for o, (v, e) in out[name][0].orders.items():
        print(o, "nonzero=", int(np.count_nonzero(v)), "nan=", int(np.isnan(v).sum()), "sum=", float(np.nansum(v)))
except Exception as e:
    print("EXCEPTION", type(e).__name__, e)
