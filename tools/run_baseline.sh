#!/bin/bash
# Run the repository's baseline suite (guard off) and compare with /root/.vp/BASELINE.json stable_pass.
# The hypothesis example database and coverage files under /repo are restored afterwards.
OUT=$(mktemp /tmp/junit.XXXXXX.xml)
SAVE=$(mktemp -d /tmp/hypdb.XXXXXX)
rsync -a /repo/.hypothesis/ $SAVE/ 2>/dev/null
cd /repo && /venv/bin/python -m pytest -ra -q -p no:cacheprovider --timeout=900 --continue-on-collection-errors --junitxml=$OUT "$@" > /tmp/baseline_run.log 2>&1
/venv/bin/python - "$OUT" <<'PY'
import json, sys, xml.etree.ElementTree as ET
base = set(json.load(open('/root/.vp/BASELINE.json'))['stable_pass'])
t = ET.parse(sys.argv[1])
passed=set()
for tc in t.iter('testcase'):
    if not any(c.tag in ('failure','error','skipped') for c in tc):
        passed.add(f"{tc.get('classname')}::{tc.get('name')}")
missing = sorted(base-passed)
print(f"baseline stable_pass={len(base)} passed_now={len(passed&base)} missing={missing}")
sys.exit(1 if missing else 0)
PY
rc=$?
rsync -a --delete $SAVE/ /repo/.hypothesis/ 2>/dev/null
rm -rf $OUT $SAVE
exit $rc
